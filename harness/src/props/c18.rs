//! C18 — the tools' dual graph matches its definition; element counts agree.
//!
//! op:  `dual <raw|medit> <threads> <nnodes> <nblocks> {<ty> <count> <refs> <count*npe nodes>}*`
//!      ty: 0 vertex, 1 edge, 2 triangle, 3 quadrangle, 4 quadrilateral, 5 tetrahedron, 6 hexahedron;
//!      `raw` builds the mesh with `Mesh::from_raw_parts`, `medit` writes a MEDIT ASCII text and
//!      parses it with the mesh-io reader (only the first `refs` element lines of a block carry a
//!      reference column; `refs < count` is only expressible this way).
//! out: `ok <size> | <indptr> | <indices> | d<data len> | bary <n|panic> used <m>` | `panic …`
//! op:  `dualgen <threads> <2|3> <a> <b> <c> <p> <layout> <nblocks> <seed>` – LARGE meshes, regenerated
//!      from the parameters (grid a x b [x c], split probability p/8, layout 0 = natural numbering /
//!      1 = shuffled, top-dimensional elements cut into `nblocks` runs with lower-dimensional blocks
//!      interleaved); the model declines (`skip large-n`), the oracle is applied in full.
//! out: `ok <size> nnz <k> h <fnv64 of indptr,indices> | d<data len> | bary <n> used <m>`
//! op:  `dualc <raw|medit> <threads> <cmode> <cseed> <nnodes> <nblocks> {…}` – the `dual` op with node
//!      COORDINATES drawn from `(cmode, cseed)` instead of the small default lattice (`CMODE_NAME`:
//!      huge finite values whose per-element sum overflows f64, values within a few ulps of
//!      f64::MAX / k, a sweep over every binary exponent, subnormals and signed zeros, distinct
//!      ordinary values, non-finite values, one huge axis). Same output line as `dual` (the model has
//!      no coordinates: graph and counts must not depend on them).
//! op:  `dualhv <threads> <2|3> <shape> <n> <h> <r> <layout> <nb> <cmode> <seed>` – HIGH-VALENCE meshes
//!      (`HV_NAME`: `n` cells on one edge / face, hub soups, random cells over a handful of nodes, fans,
//!      a grid with a book attached), regenerated from the parameters; output as for `dualgen`, the
//!      model declines, the oracle is the literal pairwise definition.

use crate::common::*;
use std::collections::BTreeSet;
use std::fmt::Write as _;

const NPE: [usize; 7] = [1, 2, 3, 4, 4, 4, 8];
const DIM: [usize; 7] = [0, 1, 2, 2, 2, 3, 3];
const MEDIT_NAME: [&str; 7] =
    ["", "Edges", "Triangles", "Quadrangles", "Quadrilaterals", "Tetrahedra", "Hexahedra"];
const POOLS: [usize; 3] = [1, 4, 16];

#[derive(Clone, Debug)]
struct Blk {
    ty: usize,
    refs: usize,
    nodes: Vec<usize>,
}

impl Blk {
    fn count(&self) -> usize {
        self.nodes.len() / NPE[self.ty]
    }
}

// ------------------------------------------------------------------ generators

/// Elements per kind before they are cut into blocks.
#[derive(Default)]
struct Soup {
    nn: usize,
    /// (type code, nodes)
    els: Vec<(usize, Vec<usize>)>,
}

fn distinct(rng: &mut Rng, nn: usize, k: usize) -> Vec<usize> {
    // k distinct node ids out of 0..nn (nn >= k)
    let mut v: Vec<usize> = Vec::with_capacity(k);
    while v.len() < k {
        let x = rng.usize(nn);
        if !v.contains(&x) {
            v.push(x);
        }
    }
    v
}

fn quad_code(rng: &mut Rng) -> usize {
    if rng.chance(1, 2) {
        3
    } else {
        4
    }
}

/// Conforming structured 2-D mesh: quads, each split into two triangles with
/// probability `p_tri`/8; boundary edges and a few vertex elements.
fn grid2d(rng: &mut Rng, nx: usize, ny: usize, p_tri: u64, lower: bool) -> Soup {
    let id = |i: usize, j: usize| i + j * (nx + 1);
    let mut s = Soup { nn: (nx + 1) * (ny + 1), els: vec![] };
    let qc = quad_code(rng);
    for j in 0..ny {
        for i in 0..nx {
            let (a, b, c, d) = (id(i, j), id(i + 1, j), id(i + 1, j + 1), id(i, j + 1));
            if rng.chance(p_tri, 8) {
                if rng.chance(1, 2) {
                    s.els.push((2, vec![a, b, c]));
                    s.els.push((2, vec![a, c, d]));
                } else {
                    s.els.push((2, vec![a, b, d]));
                    s.els.push((2, vec![b, c, d]));
                }
            } else {
                s.els.push((qc, vec![a, b, c, d]));
            }
        }
    }
    if lower {
        for i in 0..nx {
            s.els.push((1, vec![id(i, 0), id(i + 1, 0)]));
            s.els.push((1, vec![id(i, ny), id(i + 1, ny)]));
        }
        for j in 0..ny {
            s.els.push((1, vec![id(0, j), id(0, j + 1)]));
            s.els.push((1, vec![id(nx, j), id(nx, j + 1)]));
        }
        for _ in 0..rng.usize(4) {
            s.els.push((0, vec![rng.usize(s.nn)]));
        }
    }
    s
}

/// Structured 3-D mesh: hexahedra, each split into six tetrahedra (Kuhn) with
/// probability `p_tet`/8 (conforming between split cells; a hexahedron next to
/// tetrahedra is a non-conforming interface); boundary faces, edges, vertices.
fn grid3d(rng: &mut Rng, nx: usize, ny: usize, nz: usize, p_tet: u64, lower: bool) -> Soup {
    let id = |i: usize, j: usize, k: usize| i + (nx + 1) * (j + (ny + 1) * k);
    let mut s = Soup { nn: (nx + 1) * (ny + 1) * (nz + 1), els: vec![] };
    const PERMS: [[usize; 3]; 6] =
        [[0, 1, 2], [0, 2, 1], [1, 0, 2], [1, 2, 0], [2, 0, 1], [2, 1, 0]];
    for k in 0..nz {
        for j in 0..ny {
            for i in 0..nx {
                if rng.chance(p_tet, 8) {
                    for p in PERMS {
                        let mut c = [i, j, k];
                        let mut t = vec![id(c[0], c[1], c[2])];
                        for ax in p {
                            c[ax] += 1;
                            t.push(id(c[0], c[1], c[2]));
                        }
                        s.els.push((5, t));
                    }
                } else {
                    s.els.push((
                        6,
                        vec![
                            id(i, j, k),
                            id(i + 1, j, k),
                            id(i + 1, j + 1, k),
                            id(i, j + 1, k),
                            id(i, j, k + 1),
                            id(i + 1, j, k + 1),
                            id(i + 1, j + 1, k + 1),
                            id(i, j + 1, k + 1),
                        ],
                    ));
                }
            }
        }
    }
    if lower {
        let qc = quad_code(rng);
        for j in 0..ny {
            for i in 0..nx {
                let q = vec![id(i, j, 0), id(i + 1, j, 0), id(i + 1, j + 1, 0), id(i, j + 1, 0)];
                if rng.chance(1, 3) {
                    s.els.push((2, vec![q[0], q[1], q[2]]));
                    s.els.push((2, vec![q[0], q[2], q[3]]));
                } else {
                    s.els.push((qc, q));
                }
            }
        }
        for i in 0..nx {
            s.els.push((1, vec![id(i, 0, 0), id(i + 1, 0, 0)]));
        }
        for _ in 0..rng.usize(3) {
            s.els.push((0, vec![rng.usize(s.nn)]));
        }
    }
    s
}

/// Random non-conforming soup: elements draw distinct nodes from a small pool.
fn random_soup(rng: &mut Rng, three_d: bool, nn: usize, ne: usize, lower: usize) -> Soup {
    let mut s = Soup { nn, els: vec![] };
    let top: &[usize] = if three_d { &[5, 5, 6] } else { &[2, 2, 3, 4] };
    let low: &[usize] = if three_d { &[0, 1, 2, 3, 4] } else { &[0, 1] };
    for _ in 0..ne {
        let ty = *rng.pick(top);
        if nn >= NPE[ty] {
            s.els.push((ty, distinct(rng, nn, NPE[ty])));
        }
    }
    for _ in 0..lower {
        let ty = *rng.pick(low);
        if nn >= NPE[ty] {
            s.els.push((ty, distinct(rng, nn, NPE[ty])));
        }
    }
    s
}

/// Cut a soup into blocks: elements shuffled, each type in 1–3 blocks, blocks
/// in random order, sometimes an empty block in between.
fn to_blocks(rng: &mut Rng, mut s: Soup, allow_vertex: bool) -> (usize, Vec<Blk>) {
    rng.shuffle(&mut s.els);
    let mut blocks: Vec<Blk> = vec![];
    for ty in 0..7 {
        if ty == 0 && !allow_vertex {
            continue;
        }
        let els: Vec<&Vec<usize>> = s.els.iter().filter(|e| e.0 == ty).map(|e| &e.1).collect();
        if els.is_empty() {
            continue;
        }
        let parts = 1 + if rng.chance(1, 3) { rng.usize(3) } else { 0 };
        let mut cuts: Vec<usize> = (0..parts - 1).map(|_| rng.usize(els.len() + 1)).collect();
        cuts.push(0);
        cuts.push(els.len());
        cuts.sort_unstable();
        for w in cuts.windows(2) {
            let nodes: Vec<usize> = els[w[0]..w[1]].iter().flat_map(|e| e.iter().cloned()).collect();
            blocks.push(Blk { ty, refs: w[1] - w[0], nodes });
        }
    }
    if rng.chance(1, 6) {
        let ty = 1 + rng.usize(6);
        blocks.push(Blk { ty, refs: 0, nodes: vec![] });
    }
    rng.shuffle(&mut blocks);
    (s.nn, blocks)
}

fn emit(ctx: &mut Ctx, shape: &str, nn: usize, blocks: &[Blk]) {
    let has_vertex = blocks.iter().any(|b| b.ty == 0);
    let mode = if !has_vertex && ctx.rng.chance(1, 4) { "medit" } else { "raw" };
    let threads = *ctx.rng.pick(&POOLS);
    ctx.count(&format!("shape:{}", shape));
    ctx.count(&format!("mode:{}", mode));
    ctx.count(&format!("pool:{}", threads));
    ctx.count(&format!("blocks:{}", blocks.len().min(8)));
    let op = format_op(mode, threads, nn, blocks);
    run_op(ctx, &op);
}

pub fn generate(ctx: &mut Ctx) {
    // ---- tiny and special meshes
    let tiny: Vec<(usize, Vec<Blk>)> = vec![
        (0, vec![]),
        (3, vec![]),
        (3, vec![Blk { ty: 2, refs: 0, nodes: vec![] }]),
        (3, vec![Blk { ty: 2, refs: 1, nodes: vec![0, 1, 2] }]),
        (4, vec![Blk { ty: 2, refs: 2, nodes: vec![0, 1, 2, 1, 2, 3] }]),
        (4, vec![Blk { ty: 2, refs: 2, nodes: vec![0, 1, 2, 0, 1, 2] }]),
        // edges only / vertices only / edges + vertices
        (3, vec![Blk { ty: 1, refs: 2, nodes: vec![0, 1, 1, 2] }]),
        (3, vec![Blk { ty: 0, refs: 3, nodes: vec![0, 1, 1] }]),
        (3, vec![Blk { ty: 0, refs: 2, nodes: vec![0, 2] }, Blk { ty: 1, refs: 2, nodes: vec![0, 1, 1, 2] }]),
        // a triangle and a quad sharing an edge, edge block first
        (
            5,
            vec![
                Blk { ty: 1, refs: 1, nodes: vec![0, 1] },
                Blk { ty: 3, refs: 1, nodes: vec![1, 2, 3, 4] },
                Blk { ty: 2, refs: 1, nodes: vec![0, 1, 2] },
            ],
        ),
        // a tetrahedron and a hexahedron sharing three nodes, face block between
        (
            9,
            vec![
                Blk { ty: 5, refs: 1, nodes: vec![0, 1, 2, 8] },
                Blk { ty: 4, refs: 1, nodes: vec![0, 1, 2, 3] },
                Blk { ty: 6, refs: 1, nodes: vec![0, 1, 2, 3, 4, 5, 6, 7] },
            ],
        ),
        // same type twice with an edge block in between
        (
            5,
            vec![
                Blk { ty: 2, refs: 1, nodes: vec![0, 1, 2] },
                Blk { ty: 1, refs: 2, nodes: vec![0, 1, 3, 4] },
                Blk { ty: 2, refs: 2, nodes: vec![1, 2, 3, 2, 3, 4] },
            ],
        ),
    ];
    for (nn, blocks) in &tiny {
        for &threads in &POOLS {
            ctx.count("shape:tiny");
            let op = format_op("raw", threads, *nn, blocks);
            run_op(ctx, &op);
        }
    }

    // ---- exhaustive: every ordered tuple (length 1..=3) of cells over a small node set
    let (tri_nodes, tet_nodes) = if ctx.quick() { (4usize, 5usize) } else { (5, 6) };
    for (ty, pool_nodes) in [(2usize, tri_nodes), (5usize, tet_nodes)] {
        let k = NPE[ty];
        // all k-subsets of 0..pool_nodes
        let mut cells: Vec<Vec<usize>> = vec![];
        for mask in 0u32..(1 << pool_nodes) {
            if mask.count_ones() as usize == k {
                cells.push((0..pool_nodes).filter(|i| mask >> i & 1 == 1).collect());
            }
        }
        let m = cells.len();
        let mut n_cases = 0usize;
        for len in 1..=3usize {
            let total = m.pow(len as u32);
            for code in 0..total {
                let mut c = code;
                let mut nodes = vec![];
                for _ in 0..len {
                    nodes.extend_from_slice(&cells[c % m]);
                    c /= m;
                }
                let blocks = vec![Blk { ty, refs: len, nodes }];
                let threads = POOLS[code % 3];
                ctx.count("shape:exhaustive");
                let op = format_op("raw", threads, pool_nodes, &blocks);
                run_op(ctx, &op);
                n_cases += 1;
            }
        }
        ctx.notes.push(format!(
            "exhaustive sub-space: every ordered tuple of 1..=3 {} over {} nodes ({} cases)",
            if ty == 2 { "triangles" } else { "tetrahedra" },
            pool_nodes,
            n_cases
        ));
    }

    // ---- structured and random meshes
    let n = ctx.budget(300, 10000);
    for _ in 0..n {
        let big = ctx.rng.chance(1, 12);
        match ctx.rng.usize(6) {
            0 | 1 => {
                let m = if big { 14 } else { 5 };
                let (nx, ny) = (1 + ctx.rng.usize(m), 1 + ctx.rng.usize(m));
                let p = *ctx.rng.pick(&[0u64, 0, 3, 5, 8]);
                let lower = ctx.rng.chance(2, 3);
                let s = grid2d(&mut ctx.rng, nx, ny, p, lower);
                let (nn, blocks) = to_blocks(&mut ctx.rng, s, true);
                emit(ctx, "grid2d", nn, &blocks);
            }
            2 | 3 => {
                let m = if big { 5 } else { 3 };
                let (nx, ny, nz) = (1 + ctx.rng.usize(m), 1 + ctx.rng.usize(m), 1 + ctx.rng.usize(m));
                let p = *ctx.rng.pick(&[0u64, 0, 2, 4, 8]);
                let lower = ctx.rng.chance(2, 3);
                let s = grid3d(&mut ctx.rng, nx, ny, nz, p, lower);
                let (nn, blocks) = to_blocks(&mut ctx.rng, s, true);
                emit(ctx, "grid3d", nn, &blocks);
            }
            _ => {
                let three_d = ctx.rng.chance(1, 2);
                let nn = if three_d { 8 + ctx.rng.usize(if big { 60 } else { 12 }) } else { 4 + ctx.rng.usize(if big { 60 } else { 10 }) };
                let ne = ctx.rng.usize(if big { 120 } else { 14 });
                let lower = ctx.rng.usize(6);
                let s = random_soup(&mut ctx.rng, three_d, nn, ne, lower);
                let (nn, blocks) = to_blocks(&mut ctx.rng, s, true);
                emit(ctx, if three_d { "random3d" } else { "random2d" }, nn, &blocks);
            }
        }
    }

    // ---- degenerate elements (a node repeated inside an element): separate stream
    for _ in 0..ctx.budget(60, 1500) {
        let three_d = ctx.rng.chance(1, 2);
        let nn = if three_d { 8 + ctx.rng.usize(6) } else { 4 + ctx.rng.usize(6) };
        let ne = 2 + ctx.rng.usize(8);
        let mut s = random_soup(&mut ctx.rng, three_d, nn, ne, 2);
        let hits = 1 + ctx.rng.usize(3);
        for _ in 0..hits {
            if s.els.is_empty() {
                break;
            }
            let e = ctx.rng.usize(s.els.len());
            let k = s.els[e].1.len();
            if k >= 2 {
                let (a, b) = (ctx.rng.usize(k), ctx.rng.usize(k));
                s.els[e].1[a] = s.els[e].1[b];
            }
        }
        let (nn, blocks) = to_blocks(&mut ctx.rng, s, true);
        emit(ctx, "degenerate", nn, &blocks);
    }

    // ---- malformed: a node id outside the mesh; element lines without a reference
    for _ in 0..ctx.budget(30, 600) {
        let s = if ctx.rng.chance(1, 2) {
            grid2d(&mut ctx.rng, 2, 2, 4, true)
        } else {
            random_soup(&mut ctx.rng, true, 10, 5, 3)
        };
        let (nn, mut blocks) = to_blocks(&mut ctx.rng, s, false);
        let nonempty: Vec<usize> = (0..blocks.len()).filter(|&i| !blocks[i].nodes.is_empty()).collect();
        if nonempty.is_empty() {
            continue;
        }
        let b = *ctx.rng.pick(&nonempty);
        if ctx.rng.chance(1, 2) {
            let k = ctx.rng.usize(blocks[b].nodes.len());
            blocks[b].nodes[k] = nn + ctx.rng.usize(3);
            ctx.count("shape:malformed-node");
            let mode = if ctx.rng.chance(1, 2) { "medit" } else { "raw" };
            let threads = *ctx.rng.pick(&POOLS);
            let op = format_op(mode, threads, nn, &blocks);
            run_op(ctx, &op);
        } else {
            blocks[b].refs = ctx.rng.usize(blocks[b].refs.max(1));
            ctx.count("shape:malformed-refs");
            let threads = *ctx.rng.pick(&POOLS);
            let op = format_op("medit", threads, nn, &blocks);
            run_op(ctx, &op);
        }
    }

    generate_large(ctx);
    generate_hv(ctx);
    generate_coords(ctx);
}

/// Parameters of a regenerated (large or many-block) mesh.
#[derive(Clone, Debug)]
struct GenP {
    kind: usize,
    a: usize,
    b: usize,
    c: usize,
    p: u64,
    layout: usize,
    nb: usize,
    seed: u64,
}

/// Cut into blocks with control over the layout: the top-dimensional elements, in soup order
/// (natural numbering: row by row) or shuffled, are cut into `nb` contiguous runs (equal lengths
/// with a shorter last run, or random cut points when shuffled); inside a run the elements are
/// grouped by type (one block per type present). Lower-dimensional elements are cut into
/// `nb / 4 + 1` runs in the same way and one such run follows every fourth top run.
fn cut_blocks(rng: &mut Rng, mut s: Soup, shuffle: bool, nb: usize) -> (usize, Vec<Blk>) {
    if shuffle {
        rng.shuffle(&mut s.els);
    }
    let d = s.els.iter().map(|e| DIM[e.0]).max().unwrap_or(0);
    let nn = s.nn;
    let (top, low): (Vec<_>, Vec<_>) = s.els.into_iter().partition(|e| DIM[e.0] == d && e.0 != 1);
    let mut runs = |els: Vec<(usize, Vec<usize>)>, k: usize| -> Vec<Vec<Blk>> {
        let k = k.max(1);
        let n = els.len();
        let mut cuts: Vec<usize> = if shuffle {
            (0..k - 1).map(|_| rng.usize(n + 1)).collect()
        } else {
            let len = (n + k - 1) / k;
            (1..k).map(|i| (i * len).min(n)).collect()
        };
        cuts.push(0);
        cuts.push(n);
        cuts.sort_unstable();
        let mut out = vec![];
        for w in cuts.windows(2) {
            let mut blocks: Vec<Blk> = vec![];
            for (ty, nodes) in &els[w[0]..w[1]] {
                match blocks.iter_mut().find(|b| b.ty == *ty) {
                    Some(b) => {
                        b.nodes.extend_from_slice(nodes);
                        b.refs += 1;
                    }
                    None => blocks.push(Blk { ty: *ty, refs: 1, nodes: nodes.clone() }),
                }
            }
            out.push(blocks);
        }
        out
    };
    let top_runs = runs(top, nb);
    let mut low_runs = runs(low, nb / 4 + 1).into_iter();
    let mut blocks = vec![];
    for (i, r) in top_runs.into_iter().enumerate() {
        blocks.extend(r);
        if i % 4 == 1 {
            if let Some(l) = low_runs.next() {
                blocks.extend(l);
            }
        }
    }
    for l in low_runs {
        blocks.extend(l);
    }
    if shuffle {
        rng.shuffle(&mut blocks);
    }
    (nn, blocks)
}

fn gen_mesh(g: &GenP) -> (usize, Vec<Blk>) {
    let mut rng = Rng::new(g.seed);
    let s = if g.kind == 2 {
        grid2d(&mut rng, g.a, g.b, g.p, true)
    } else {
        grid3d(&mut rng, g.a, g.b, g.c, g.p, true)
    };
    cut_blocks(&mut rng, s, g.layout == 1, g.nb)
}

fn format_gen(threads: usize, g: &GenP) -> String {
    format!("dualgen {} {} {} {} {} {} {} {} {}", threads, g.kind, g.a, g.b, g.c, g.p, g.layout, g.nb, g.seed)
}

fn parse_gen(op: &str) -> Option<(usize, GenP)> {
    let v: Vec<u64> = op.split_whitespace().skip(1).map(|t| t.parse().ok()).collect::<Option<_>>()?;
    if !op.starts_with("dualgen ") || v.len() != 9 || v[0] == 0 || v[0] > 64 || (v[1] != 2 && v[1] != 3) {
        return None;
    }
    if v[2] == 0 || v[3] == 0 || (v[1] == 3 && v[4] == 0) || v[2].saturating_mul(v[3]).saturating_mul(v[4].max(1)) > 2_000_000 {
        return None;
    }
    Some((
        v[0] as usize,
        GenP {
            kind: v[1] as usize,
            a: v[2] as usize,
            b: v[3] as usize,
            c: v[4] as usize,
            p: v[5].min(8),
            layout: v[6] as usize,
            nb: (v[7] as usize).clamp(1, 100_000),
            seed: v[8],
        },
    ))
}

/// LARGE / CORNER stream: sizes above the usual block thresholds (2^12, 2^13, 2^14, 2^15, 36 450,
/// 2^16, 2^17) and not multiples of them, block-aligned numberings (rows of 4096 / 8192 nodes),
/// meshes stored as 100 … 600 blocks, node ids above 65 536, pools 1 / 2 / 3 / 16.
fn generate_large(ctx: &mut Ctx) {
    let g = |kind, a, b, c, p, layout, nb, seed| GenP { kind, a, b, c, p, layout, nb, seed };
    // --- many blocks and a >4096-cell mesh as EXPLICIT ops: compared exactly with the Lean model
    let mut explicit: Vec<(usize, GenP, &str)> = vec![
        (2, g(2, 35, 35, 0, 4, 0, 100, 11), "corner:blocks-100"),
        (3, g(2, 33, 37, 0, 8, 1, 255, 12), "corner:blocks-255"),
        (16, g(3, 6, 6, 5, 4, 0, 256, 13), "corner:blocks-256"),
        (1, g(2, 36, 35, 0, 0, 1, 257, 14), "corner:blocks-257"),
        (2, g(3, 7, 6, 6, 2, 1, 300, 15), "corner:blocks-300"),
        (3, g(2, 35, 36, 0, 5, 0, 600, 16), "corner:blocks-600"),
        (16, g(2, 65, 64, 0, 0, 0, 1, 17), "large:4k-model"),
    ];
    if !ctx.quick() {
        explicit.push((2, g(3, 9, 9, 9, 0, 0, 300, 18), "corner:blocks-300"));
        explicit.push((3, g(2, 41, 40, 0, 8, 1, 600, 19), "corner:blocks-600"));
        explicit.push((1, g(3, 6, 6, 6, 8, 0, 257, 20), "corner:blocks-257"));
        explicit.push((2, g(2, 67, 63, 0, 3, 1, 3, 21), "large:4k-model"));
    }
    for (threads, p, key) in explicit {
        let mut p = p;
        p.seed ^= ctx.seed.wrapping_mul(0x9E37_79B9);
        let (nn, blocks) = gen_mesh(&p);
        ctx.count(key);
        ctx.count(&format!("pool:{}", threads));
        let op = format_op("raw", threads, nn, &blocks);
        run_op(ctx, &op);
    }
    // node ids above 65 536: a strip of triangles around node 65 536 in a mesh of 70 001 nodes
    {
        let base = 65_520usize;
        let mut nodes = vec![];
        for i in 0..40 {
            nodes.extend_from_slice(&[base + i, base + i + 1, base + i + 2]);
        }
        let blocks = vec![
            Blk { ty: 1, refs: 1, nodes: vec![65_535, 65_536] },
            Blk { ty: 2, refs: 40, nodes },
        ];
        ctx.count("corner:node-ids-above-65536");
        let op = format_op("raw", 3, 70_001, &blocks);
        run_op(ctx, &op);
    }
    // --- large meshes, regenerated from parameters: oracle in full, model declines
    let mut large: Vec<(usize, GenP, &str)> = vec![
        (2, g(2, 129, 128, 0, 0, 0, 1, 31), "large:16k-quads"),
        (3, g(2, 91, 91, 0, 8, 1, 3, 32), "large:16k-triangles"),
        (16, g(2, 4095, 5, 0, 0, 0, 1, 33), "large:20k-rows-of-4096-nodes"),
        (1, g(2, 181, 182, 0, 0, 1, 100, 34), "large:32k-quads-100-blocks"),
        (3, g(2, 191, 191, 0, 4, 0, 257, 35), "large:36k-mixed2d-257-blocks"),
        (2, g(3, 14, 14, 14, 8, 1, 300, 36), "large:16k-tets-300-blocks"),
        (16, g(3, 33, 33, 34, 0, 0, 1, 37), "large:37k-hexes"),
        (1, g(3, 21, 20, 20, 3, 1, 600, 38), "large:24k-mixed3d-600-blocks"),
    ];
    if !ctx.quick() {
        large.extend(vec![
            (2, g(2, 265, 265, 0, 0, 0, 1, 41), "large:70k-quads"),
            (3, g(2, 265, 264, 0, 2, 1, 256, 42), "large:70k-mixed2d-256-blocks"),
            (16, g(2, 375, 374, 0, 0, 0, 2, 43), "large:140k-quads"),
            (1, g(2, 8191, 3, 0, 0, 0, 1, 44), "large:24k-rows-of-8192-nodes"),
            (2, g(2, 8191, 9, 0, 8, 0, 255, 45), "large:147k-triangles-rows-of-8192-nodes"),
            (3, g(3, 30, 30, 30, 8, 0, 1, 46), "large:162k-tets"),
            (16, g(3, 41, 41, 42, 0, 1, 100, 47), "large:70k-hexes-100-blocks"),
            (2, g(3, 18, 18, 17, 8, 0, 257, 48), "large:33k-tets-257-blocks"),
            (3, g(2, 128, 128, 0, 0, 0, 1, 49), "large:16384-quads-exact"),
            (1, g(2, 128, 129, 0, 0, 0, 2, 50), "large:16k-quads"),
            (16, g(3, 32, 32, 33, 5, 1, 600, 51), "large:130k-mixed3d-600-blocks"),
            (2, g(2, 190, 192, 0, 8, 1, 1, 52), "large:73k-triangles"),
        ]);
    }
    for (threads, p, key) in large {
        let mut p = p;
        p.seed ^= ctx.seed.wrapping_mul(0x9E37_79B9);
        ctx.count(key);
        ctx.count(&format!("pool:{}", threads));
        let op = format_gen(threads, &p);
        run_op(ctx, &op);
    }
}

// ------------------------------------------------------------------ high-valence meshes

const HV_NAME: [&str; 5] = ["book", "hub-soup", "handful", "fan", "grid+book"];

/// Parameters of a regenerated high-valence mesh (`dualhv`).
#[derive(Clone, Debug)]
struct HvP {
    dim: usize,
    shape: usize,
    /// number of cells of the high-valence part
    n: usize,
    /// number of hub nodes (shapes 1, 2, 3)
    h: usize,
    /// size of the pool of ordinary nodes (0 = every cell gets fresh nodes of its own)
    r: usize,
    layout: usize,
    nb: usize,
    cmode: usize,
    seed: u64,
}

/// The other nodes of a cell: fresh ones, or distinct ones out of the pool `base .. base + r`.
fn hv_fill(rng: &mut Rng, nn: &mut usize, base: usize, r: usize, k: usize) -> Vec<usize> {
    if r < k.max(1) {
        let v = (*nn..*nn + k).collect();
        *nn += k;
        v
    } else {
        distinct(rng, r, k).into_iter().map(|x| base + x).collect()
    }
}

/// Meshes in which MANY cells (more than any fixed "reasonable valence") meet in the same node, edge
/// or face. d = dimension; the threshold of the dual graph is d shared nodes.
///  0 book       `n` cells (triangles and quadrangles / tetrahedra and hexahedra) that all contain the
///               same d nodes (one edge / one face), the hubs sitting at random positions of each
///               cell; the other nodes fresh or from a pool of `r`; the facet itself and its
///               lower-dimensional parts are present as elements.
///  1 hub-soup   `h` hubs; every cell takes d-1 ..= min(h, npe) of them and its other nodes from a pool
///               of `r` ordinary nodes (or fresh): neighbours through hubs only, through ordinary
///               nodes only, and through both.
///  2 handful    every cell is a random subset of a pool of `h` nodes (all nodes are hubs, many cells
///               coincide, nearly every pair is adjacent).
///  3 fan        CONFORMING: triangles and quadrangles round one apex (open or closed) / tetrahedra
///               round one edge (h >= 2) or a cone of tetrahedra over a triangulated strip (one apex):
///               neighbours also share an ordinary node.
///  4 grid+book  a structured conforming grid with its lower-dimensional elements, and a book of `n`
///               cells attached to one of its interior edges / faces (non-manifold, non-conforming:
///               the pages' other nodes are fresh or nodes of the grid).
fn hv_soup(rng: &mut Rng, g: &HvP) -> Soup {
    let d = g.dim;
    let three_d = d == 3;
    let mut s = Soup::default();
    let qc = quad_code(rng);
    let pick_ty = |rng: &mut Rng, max_npe: usize| -> usize {
        let ty = if three_d { *rng.pick(&[5usize, 5, 5, 6]) } else { *rng.pick(&[2usize, 2, 2, qc, 7 - qc]) };
        if NPE[ty] > max_npe {
            if three_d {
                5
            } else {
                2
            }
        } else {
            ty
        }
    };
    let place = |rng: &mut Rng, hubs: Vec<usize>, others: Vec<usize>| -> Vec<usize> {
        let mut el = hubs;
        el.extend(others);
        rng.shuffle(&mut el);
        el
    };
    match g.shape {
        0 => {
            let mut nn = d + g.r;
            for _ in 0..g.n {
                let ty = pick_ty(rng, 8);
                let others = hv_fill(rng, &mut nn, d, g.r, NPE[ty] - d);
                s.els.push((ty, place(rng, (0..d).collect(), others)));
            }
            s.nn = nn;
            // the facet and its parts as lower-dimensional elements
            if three_d {
                s.els.push((2, vec![0, 1, 2]));
                s.els.push((1, vec![0, 1]));
                s.els.push((1, vec![1, 2]));
            } else {
                s.els.push((1, vec![0, 1]));
            }
            s.els.push((0, vec![0]));
        }
        1 => {
            let h = g.h.max(d);
            let mut nn = h + g.r;
            for _ in 0..g.n {
                let ty = pick_ty(rng, 8);
                let jmax = h.min(NPE[ty]);
                let j = d - 1 + rng.usize(jmax - (d - 1) + 1);
                let hubs = distinct(rng, h, j);
                let others = hv_fill(rng, &mut nn, h, g.r, NPE[ty] - j);
                s.els.push((ty, place(rng, hubs, others)));
            }
            s.nn = nn;
            s.els.push((1, vec![0, 1]));
        }
        2 => {
            let h = g.h.max(d + 1);
            for _ in 0..g.n {
                let ty = pick_ty(rng, h);
                s.els.push((ty, distinct(rng, h, NPE[ty])));
            }
            s.nn = h + rng.usize(3);
            for _ in 0..rng.usize(4) {
                s.els.push((1, distinct(rng, h, 2)));
            }
        }
        3 => {
            let closed = rng.chance(1, 2);
            if !three_d {
                // sector i between ring nodes i and i+1 round apex 0
                let ring = |i: usize| 1 + if closed { i % g.n } else { i };
                let mut nn = 1 + if closed { g.n } else { g.n + 1 };
                for i in 0..g.n {
                    if rng.chance(1, 5) {
                        s.els.push((qc, vec![0, ring(i), nn, ring(i + 1)]));
                        nn += 1;
                    } else {
                        s.els.push((2, vec![0, ring(i), ring(i + 1)]));
                    }
                    if rng.chance(1, 16) {
                        s.els.push((1, vec![0, ring(i)]));
                    }
                }
                s.nn = nn;
            } else if g.h >= 2 {
                // tetrahedra round the edge (0, 1)
                let ring = |i: usize| 2 + if closed { i % g.n } else { i };
                for i in 0..g.n {
                    s.els.push((5, place(rng, vec![0, 1], vec![ring(i), ring(i + 1)])));
                    if rng.chance(1, 16) {
                        s.els.push((2, vec![0, 1, ring(i)]));
                    }
                }
                s.nn = 2 + if closed { g.n } else { g.n + 1 };
                s.els.push((1, vec![0, 1]));
            } else {
                // cone over a strip a_0 a_1 … / b_0 b_1 …: two tetrahedra per strip cell, apex 0
                let m = (g.n + 1) / 2;
                let a = |i: usize| 1 + 2 * i;
                let b = |i: usize| 2 + 2 * i;
                for i in 0..m {
                    s.els.push((5, vec![0, a(i), a(i + 1), b(i)]));
                    s.els.push((5, vec![0, a(i + 1), b(i + 1), b(i)]));
                    if rng.chance(1, 16) {
                        s.els.push((2, vec![a(i), a(i + 1), b(i)]));
                    }
                }
                s.nn = 3 + 2 * m;
            }
            s.els.push((0, vec![0]));
        }
        _ => {
            let (a, b) = (3 + rng.usize(4), 3 + rng.usize(4));
            let grid = if three_d { grid3d(rng, a.min(4), b.min(4), 2, 4, true) } else { grid2d(rng, a, b, 4, true) };
            let gn = grid.nn;
            // an interior facet of the grid: two / three nodes of one of its cells
            let host: Vec<usize> = grid.els.iter().filter(|e| DIM[e.0] == d).nth(grid.els.len() / 3).map(|e| e.1.clone()).unwrap_or((0..8).collect());
            let hubs: Vec<usize> = if three_d { vec![host[0], host[1], host[2]] } else { vec![host[0], host[1]] };
            s = grid;
            let mut nn = gn;
            for _ in 0..g.n {
                let ty = pick_ty(rng, 8);
                let k = NPE[ty] - d;
                let others: Vec<usize> = if g.r == 0 {
                    hv_fill(rng, &mut nn, 0, 0, k)
                } else {
                    // nodes of the grid (non-conforming), none of them a hub
                    let mut v: Vec<usize> = vec![];
                    while v.len() < k {
                        let x = rng.usize(gn);
                        if !hubs.contains(&x) && !v.contains(&x) {
                            v.push(x);
                        }
                    }
                    v
                };
                s.els.push((ty, place(rng, hubs.clone(), others)));
            }
            s.nn = nn;
        }
    }
    s
}

fn hv_mesh(g: &HvP) -> (usize, Vec<Blk>) {
    let mut rng = Rng::new(g.seed ^ 0x48_56);
    let s = hv_soup(&mut rng, g);
    cut_blocks(&mut rng, s, g.layout == 1, g.nb)
}

fn format_hv(threads: usize, g: &HvP) -> String {
    format!("dualhv {} {} {} {} {} {} {} {} {} {}", threads, g.dim, g.shape, g.n, g.h, g.r, g.layout, g.nb, g.cmode, g.seed)
}

fn parse_hv(op: &str) -> Option<(usize, HvP)> {
    let v: Vec<u64> = op.split_whitespace().skip(1).map(|t| t.parse().ok()).collect::<Option<_>>()?;
    if !op.starts_with("dualhv ") || v.len() != 10 || v[0] == 0 || v[0] > 64 || (v[1] != 2 && v[1] != 3) {
        return None;
    }
    // n: the graph of a book is complete (n^2 entries); 4 500 cells keep it below 200 MB
    if v[2] as usize >= HV_NAME.len() || v[3] == 0 || v[3] > 4500 || v[4] > 64 || v[5] > 100_000 || v[8] as usize >= CMODE_NAME.len() {
        return None;
    }
    Some((
        v[0] as usize,
        HvP {
            dim: v[1] as usize,
            shape: v[2] as usize,
            n: v[3] as usize,
            h: v[4] as usize,
            r: v[5] as usize,
            layout: v[6] as usize,
            nb: (v[7] as usize).clamp(1, 2000),
            cmode: v[8] as usize,
            seed: v[9],
        },
    ))
}

/// HIGH-VALENCE stream: thousands of cells on one node / edge / face. Valences just below, at and
/// above the powers of two a candidate search might cap at (256, 1024, 2048, 4096), systematic over
/// the shapes and both dimensions, then randomised. The oracle is the literal pairwise definition.
fn generate_hv(ctx: &mut Ctx) {
    let g = |dim, shape, n, h, r, layout, nb, cmode, seed| HvP { dim, shape, n, h, r, layout, nb, cmode, seed };
    let mut fixed: Vec<(usize, HvP)> = vec![
        // books: every pair of cells is adjacent through hub nodes only
        (2, g(2, 0, 1025, 0, 0, 0, 1, 0, 101)),
        (3, g(3, 0, 1025, 0, 0, 0, 1, 6, 102)),
        (16, g(2, 0, 1100, 0, 0, 1, 7, 6, 103)),
        (1, g(3, 0, 1100, 0, 0, 1, 5, 0, 104)),
        (4, g(2, 0, 1024, 0, 0, 0, 2, 0, 105)),
        (2, g(2, 0, 1026, 0, 40, 1, 3, 6, 106)),
        (3, g(3, 0, 1300, 0, 30, 0, 257, 0, 107)),
        (2, g(2, 0, 257, 0, 0, 1, 2, 0, 108)),
        // hub soups and handfuls of nodes
        (16, g(2, 1, 1500, 3, 50, 1, 4, 6, 111)),
        (2, g(3, 1, 1500, 4, 60, 0, 3, 0, 112)),
        (3, g(2, 2, 2100, 5, 0, 1, 2, 0, 113)),
        (1, g(3, 2, 2100, 7, 0, 0, 1, 6, 114)),
        (2, g(3, 2, 1700, 9, 0, 1, 6, 0, 115)),
        // conforming fans: a hub, but neighbours also meet on an ordinary node
        (3, g(2, 3, 1200, 1, 0, 0, 1, 6, 121)),
        (16, g(3, 3, 1200, 2, 0, 1, 3, 0, 122)),
        (2, g(3, 3, 2200, 1, 0, 0, 2, 6, 123)),
        // a grid with a book attached
        (3, g(2, 4, 1100, 0, 0, 1, 5, 6, 131)),
        (2, g(3, 4, 1100, 0, 1, 0, 4, 0, 132)),
    ];
    if !ctx.quick() {
        fixed.extend(vec![
            (2, g(2, 0, 2047, 0, 0, 0, 1, 0, 141)),
            (3, g(2, 0, 2049, 0, 0, 1, 3, 6, 142)),
            (16, g(3, 0, 2050, 0, 0, 0, 2, 0, 143)),
            (1, g(2, 0, 4097, 0, 0, 0, 1, 0, 144)),
            (2, g(3, 0, 4100, 0, 100, 1, 9, 6, 145)),
            (3, g(2, 2, 4400, 6, 0, 0, 1, 0, 146)),
            (16, g(3, 2, 4200, 12, 0, 1, 300, 0, 147)),
            (2, g(2, 1, 4300, 2, 500, 1, 5, 6, 148)),
            (3, g(3, 1, 4300, 5, 0, 0, 2, 0, 149)),
            (1, g(2, 3, 4400, 1, 0, 1, 600, 6, 150)),
            (2, g(3, 3, 4400, 2, 0, 0, 1, 0, 151)),
            (3, g(2, 4, 4200, 0, 1, 1, 2, 0, 152)),
            (16, g(3, 4, 3000, 0, 0, 0, 255, 6, 153)),
        ]);
    }
    for (threads, p) in fixed {
        let mut p = p;
        p.seed ^= ctx.seed.wrapping_mul(0x9E37_79B9);
        ctx.count(&format!("hv:{}{}d", HV_NAME[p.shape], p.dim));
        ctx.count(&format!("pool:{}", threads));
        let op = format_hv(threads, &p);
        run_op(ctx, &op);
    }
    if !ctx.quick() {
        // one book just above 1024 pages as an EXPLICIT op: compared exactly with the Lean model
        // (cubic there: about 40 s)
        let mut p = g(2, 0, 1030, 0, 0, 1, 3, 0, 161);
        p.seed ^= ctx.seed.wrapping_mul(0x9E37_79B9);
        let (nn, blocks) = hv_mesh(&p);
        ctx.count("hv:model-compared");
        let op = format_op("raw", 4, nn, &blocks);
        run_op(ctx, &op);
    }
    // randomised: shape, dimension, size (valence round a power of two or anywhere), hubs, pools, layout
    // (about 3 s per mesh: eight builds of a graph with millions of entries and the O(n^2) oracle)
    for _ in 0..ctx.budget(10, 60) {
        let dim = 2 + ctx.rng.usize(2);
        let shape = ctx.rng.usize(HV_NAME.len());
        let top = if ctx.quick() { 2300 } else { 3300 };
        let n = match ctx.rng.usize(4) {
            0 => (*ctx.rng.pick(&[256usize, 1024, 2048]) + ctx.rng.usize(5)).saturating_sub(2).min(top),
            1 => 200 + ctx.rng.usize(900),
            _ => 1025 + ctx.rng.usize(top - 1025),
        };
        let h = match shape {
            1 => dim + ctx.rng.usize(4),
            2 => dim + 1 + ctx.rng.usize(if dim == 3 { 9 } else { 6 }),
            _ => 1 + ctx.rng.usize(2),
        };
        let r = if ctx.rng.chance(1, 2) { 0 } else { 8 + ctx.rng.usize(200) };
        let nb = if ctx.rng.chance(1, 8) { 100 + ctx.rng.usize(300) } else { 1 + ctx.rng.usize(8) };
        let p = HvP {
            dim,
            shape,
            n,
            h,
            r,
            layout: ctx.rng.usize(2),
            nb,
            cmode: *ctx.rng.pick(&[0usize, 0, 6, 6, 3, 4]),
            seed: ctx.rng.next() >> 16,
        };
        let threads = *ctx.rng.pick(&[1usize, 2, 3, 4, 16]);
        ctx.count(&format!("hv:{}{}d", HV_NAME[p.shape], p.dim));
        ctx.count(&format!("pool:{}", threads));
        let op = format_hv(threads, &p);
        run_op(ctx, &op);
    }
}

// ------------------------------------------------------------------ coordinates

const CMODE_NAME: [&str; 9] = [
    "default",
    "huge-all",
    "huge-boundary",
    "huge-some",
    "scale-sweep",
    "tiny",
    "distinct",
    "nonfinite",
    "huge-one-axis",
];
/// the modes in which every coordinate is finite
const CMODE_FINITE: [usize; 7] = [1, 2, 3, 4, 5, 6, 8];

/// A finite value in [2^1023, f64::MAX], either sign: two of the same sign sum to infinity.
fn huge(rng: &mut Rng) -> f64 {
    let v = f64::from_bits(0x7FE0_0000_0000_0000 | (rng.next() >> 12));
    if rng.chance(1, 4) {
        -v
    } else {
        v
    }
}

/// Node coordinates by mode (a function of `(space, nn, cmode, cseed)` only).
///  0 default        the small lattice every other stream uses
///  1 huge-all       every coordinate finite with magnitude in [2^1023, f64::MAX]
///  2 huge-boundary  every coordinate within two ulps of f64::MAX / k, k in {2, 3, 4, 8}, one sign:
///                   k equal addends land on either side of the overflow
///  3 huge-some      a quarter of the coordinates huge, the others ordinary: only some cells overflow
///  4 scale-sweep    every binary exponent from subnormal to 2^1023, random mantissa and sign
///  5 tiny           signed zeros, the smallest subnormals, MIN_POSITIVE and its half
///  6 distinct       ordinary, pairwise distinct on the first axis
///  7 nonfinite      a quarter of the coordinates inf / -inf / NaN (raw construction only)
///  8 huge-one-axis  one axis as in huge-some with probability 1/2, the other axes ordinary
fn coords_mode(space: usize, nn: usize, cmode: usize, cseed: u64) -> Vec<f64> {
    let base = coords(space, nn);
    if cmode == 0 {
        return base;
    }
    let mut rng = Rng::new(cseed.wrapping_mul(31).wrapping_add(cmode as u64));
    let axis = rng.usize(space);
    let k = *rng.pick(&[2.0f64, 3.0, 4.0, 8.0]);
    let sign = if rng.chance(1, 2) { -1.0 } else { 1.0 };
    let mut c = Vec::with_capacity(space * nn);
    for i in 0..nn {
        for a in 0..space {
            let b = base[i * space + a];
            c.push(match cmode {
                1 => huge(&mut rng),
                2 => sign * f64::from_bits((f64::MAX / k).to_bits() + rng.below(5) - 2),
                3 => {
                    if rng.chance(1, 4) {
                        huge(&mut rng)
                    } else {
                        b
                    }
                }
                4 => f64::from_bits((rng.below(2047) << 52) | (rng.next() >> 12) | (rng.below(2) << 63)),
                5 => *rng.pick(&[0.0, -0.0, 5e-324, -5e-324, f64::MIN_POSITIVE, f64::MIN_POSITIVE / 2.0, 1.5e-323, -f64::MIN_POSITIVE]),
                6 => match a {
                    0 => i as f64,
                    1 => ((i * i) % 10_007) as f64 * 0.5,
                    _ => ((i * 7) % 1_013) as f64 * 0.25,
                },
                7 => {
                    if rng.chance(1, 4) {
                        *rng.pick(&[f64::INFINITY, f64::NEG_INFINITY, f64::NAN])
                    } else {
                        b
                    }
                }
                _ => {
                    if a == axis && rng.chance(1, 2) {
                        huge(&mut rng)
                    } else {
                        b
                    }
                }
            });
        }
    }
    c
}

fn format_op_c(mode: &str, threads: usize, cmode: usize, cseed: u64, nn: usize, blocks: &[Blk]) -> String {
    let plain = format_op(mode, threads, nn, blocks);
    let mut it = plain.splitn(4, ' ');
    let (_, m, t, rest) = (it.next(), it.next().unwrap(), it.next().unwrap(), it.next().unwrap_or(""));
    format!("dualc {} {} {} {} {}", m, t, cmode, cseed, rest)
}

/// COORDINATE stream: the counts (cells of the graph, cell centres, used elements) and the graph do
/// not depend on where the nodes are. Every coordinate mode on every cell type (three cells in a
/// chain with lower-dimensional elements around them), then the generators of the main stream with a
/// random mode.
fn generate_coords(ctx: &mut Ctx) {
    // --- systematic: cell type x coordinate mode x 3 seeds
    for ty in [2usize, 3, 4, 5, 6] {
        let k = NPE[ty];
        let d = DIM[ty];
        for cmode in 1..CMODE_NAME.len() {
            for rep in 0..3u64 {
                // cell j uses nodes j*(k-d) .. j*(k-d)+k: consecutive cells share d nodes
                let step = k - d;
                let mut nodes = vec![];
                for j in 0..3 {
                    nodes.extend(j * step..j * step + k);
                }
                let nn = 2 * step + k + 1;
                let mut blocks = vec![Blk { ty: 1, refs: 2, nodes: vec![0, 1, nn - 1, 0] }];
                blocks.push(Blk { ty, refs: 3, nodes });
                if d == 3 {
                    blocks.insert(0, Blk { ty: 2, refs: 1, nodes: vec![0, 1, 2] });
                }
                if rep == 2 {
                    blocks.reverse();
                }
                let mode = if cmode != 7 && rep == 1 { "medit" } else { "raw" };
                let threads = POOLS[(cmode + rep as usize) % 3];
                let cseed = ctx.rng.next() >> 20;
                ctx.count("shape:coords-systematic");
                let op = format_op_c(mode, threads, cmode, cseed, nn, &blocks);
                run_op(ctx, &op);
            }
        }
    }
    // --- randomised: meshes of the main stream under a random coordinate mode
    for _ in 0..ctx.budget(150, 4000) {
        let (shape, s) = match ctx.rng.usize(4) {
            0 => {
                let (nx, ny) = (1 + ctx.rng.usize(5), 1 + ctx.rng.usize(5));
                let p = *ctx.rng.pick(&[0u64, 3, 5, 8]);
                ("coords-grid2d", grid2d(&mut ctx.rng, nx, ny, p, true))
            }
            1 => {
                let (nx, ny, nz) = (1 + ctx.rng.usize(3), 1 + ctx.rng.usize(3), 1 + ctx.rng.usize(2));
                let p = *ctx.rng.pick(&[0u64, 2, 4, 8]);
                ("coords-grid3d", grid3d(&mut ctx.rng, nx, ny, nz, p, true))
            }
            _ => {
                let three_d = ctx.rng.chance(1, 2);
                let nn = if three_d { 8 + ctx.rng.usize(12) } else { 4 + ctx.rng.usize(10) };
                let ne = 1 + ctx.rng.usize(14);
                let lower = ctx.rng.usize(6);
                (if three_d { "coords-random3d" } else { "coords-random2d" }, random_soup(&mut ctx.rng, three_d, nn, ne, lower))
            }
        };
        let (nn, blocks) = to_blocks(&mut ctx.rng, s, true);
        let has_vertex = blocks.iter().any(|b| b.ty == 0);
        let cmode = if ctx.rng.chance(1, 8) { 7 } else { *ctx.rng.pick(&CMODE_FINITE) };
        let mode = if !has_vertex && cmode != 7 && ctx.rng.chance(1, 4) { "medit" } else { "raw" };
        let threads = *ctx.rng.pick(&POOLS);
        let cseed = ctx.rng.next() >> 20;
        ctx.count(&format!("shape:{}", shape));
        ctx.count(&format!("mode:{}", mode));
        ctx.count(&format!("pool:{}", threads));
        let op = format_op_c(mode, threads, cmode, cseed, nn, &blocks);
        run_op(ctx, &op);
    }
}

// ------------------------------------------------------------------ protocol

fn format_op(mode: &str, threads: usize, nn: usize, blocks: &[Blk]) -> String {
    let mut s = format!("dual {} {} {} {}", mode, threads, nn, blocks.len());
    for b in blocks {
        write!(s, " {} {} {}", b.ty, b.count(), b.refs).unwrap();
        for x in &b.nodes {
            write!(s, " {}", x).unwrap();
        }
    }
    s
}

fn parse_op(op: &str) -> Option<(bool, usize, usize, Vec<Blk>)> {
    let mut it = op.split_whitespace();
    if it.next()? != "dual" {
        return None;
    }
    let medit = match it.next()? {
        "raw" => false,
        "medit" => true,
        _ => return None,
    };
    let threads: usize = it.next()?.parse().ok()?;
    if threads == 0 || threads > 64 {
        return None;
    }
    let nn: usize = it.next()?.parse().ok()?;
    let nb: usize = it.next()?.parse().ok()?;
    let mut blocks = Vec::with_capacity(nb);
    for _ in 0..nb {
        let ty: usize = it.next()?.parse().ok()?;
        if ty > 6 {
            return None;
        }
        let count: usize = it.next()?.parse().ok()?;
        let refs: usize = it.next()?.parse().ok()?;
        let mut nodes = Vec::with_capacity(count * NPE[ty]);
        for _ in 0..count * NPE[ty] {
            nodes.push(it.next()?.parse().ok()?);
        }
        blocks.push(Blk { ty, refs, nodes });
    }
    if it.next().is_some() {
        return None;
    }
    Some((medit, threads, nn, blocks))
}

fn el_type(ty: usize) -> mesh_io::ElementType {
    use mesh_io::ElementType::*;
    [Vertex, Edge, Triangle, Quadrangle, Quadrilateral, Tetrahedron, Hexahedron][ty]
}

fn coords(space: usize, nn: usize) -> Vec<f64> {
    let mut c = Vec::with_capacity(space * nn);
    for i in 0..nn {
        c.push((i % 7) as f64);
        c.push(((i / 7) % 5) as f64 * 0.5);
        if space == 3 {
            c.push((i % 3) as f64 * 0.25);
        }
    }
    c
}

/// Build the mesh the op describes. `Err` = the op cannot be built this way.
fn build_mesh(medit: bool, space: usize, nn: usize, blocks: &[Blk], c: Vec<f64>) -> Result<mesh_io::Mesh, String> {
    let wf = blocks.iter().all(|b| b.refs == b.count());
    if !medit {
        if !wf {
            return Err("raw mode needs refs == count".into());
        }
        let topo = blocks
            .iter()
            .map(|b| (el_type(b.ty), b.nodes.clone(), (0..b.refs as isize).collect::<Vec<_>>()))
            .collect();
        return Ok(mesh_io::Mesh::from_raw_parts(space, c, vec![0; nn], topo));
    }
    if blocks.iter().any(|b| b.ty == 0 || b.refs > b.count()) {
        return Err("not expressible in MEDIT ASCII".into());
    }
    let mut t = format!("MeshVersionFormatted 2\nDimension {}\n\nVertices\n{}\n", space, nn);
    for i in 0..nn {
        for k in 0..space {
            write!(t, "{} ", c[i * space + k]).unwrap();
        }
        writeln!(t, "{}", i % 3).unwrap();
    }
    for b in blocks {
        write!(t, "\n{}\n{}\n", MEDIT_NAME[b.ty], b.count()).unwrap();
        for (i, el) in b.nodes.chunks(NPE[b.ty]).enumerate() {
            for x in el {
                write!(t, "{} ", x + 1).unwrap();
            }
            if i < b.refs {
                writeln!(t, "{}", i % 4).unwrap();
            } else {
                writeln!(t).unwrap();
            }
        }
    }
    t.push_str("\nEnd\n");
    t.parse::<mesh_io::Mesh>().map_err(|e| format!("reader: {}", e))
}

struct Obs {
    rows: usize,
    cols: usize,
    indptr: Vec<usize>,
    indices: Vec<usize>,
    data_len: usize,
    data_all_one: bool,
}

fn observe(mesh: &mesh_io::Mesh, threads: usize) -> Caught<Obs> {
    catch(|| {
        with_pool(threads, || {
            let g = coupe_tools::dual(mesh);
            Obs {
                rows: g.rows(),
                cols: g.cols(),
                indptr: g.indptr().raw_storage().to_vec(),
                indices: g.indices().to_vec(),
                data_len: g.data().len(),
                data_all_one: g.data().iter().all(|&x| x == 1.0),
            }
        })
    })
}

// ------------------------------------------------------------------ oracle

/// The definition, pairwise: cells = elements of the highest dimension that are
/// not edges, in block order; `i ~ j` iff `i != j` and the node *sets* share at
/// least `d` nodes. Returns (d, cells).
fn definition(blocks: &[Blk]) -> Option<(usize, Vec<BTreeSet<usize>>, bool)> {
    let d = blocks.iter().map(|b| DIM[b.ty]).max()?;
    let mut cells = vec![];
    let mut degenerate = false;
    for b in blocks {
        if DIM[b.ty] == d && b.ty != 1 {
            for el in b.nodes.chunks(NPE[b.ty]) {
                let set: BTreeSet<usize> = el.iter().cloned().collect();
                if set.len() != el.len() {
                    degenerate = true;
                }
                cells.push(set);
            }
        }
    }
    Some((d, cells, degenerate))
}

/// The same definition in O(sum of degrees): shared nodes are counted through a
/// node -> cells index (stamp array), then compared with the threshold `d >= 1`.
fn reference_rows_fast(d: usize, cells: &[BTreeSet<usize>]) -> Vec<Vec<usize>> {
    let n = cells.len();
    let max_node = cells.iter().filter_map(|c| c.iter().next_back()).max().map(|&m| m + 1).unwrap_or(0);
    let mut n2c: Vec<Vec<u32>> = vec![Vec::new(); max_node];
    for (i, c) in cells.iter().enumerate() {
        for &x in c {
            n2c[x].push(i as u32);
        }
    }
    let mut cnt = vec![0u32; n];
    let mut touched: Vec<usize> = vec![];
    let mut rows = Vec::with_capacity(n);
    for (i, c) in cells.iter().enumerate() {
        touched.clear();
        for &x in c {
            for &j in &n2c[x] {
                let j = j as usize;
                if j != i {
                    if cnt[j] == 0 {
                        touched.push(j);
                    }
                    cnt[j] += 1;
                }
            }
        }
        let mut row: Vec<usize> = touched.iter().cloned().filter(|&j| cnt[j] as usize >= d).collect();
        row.sort_unstable();
        for &j in &touched {
            cnt[j] = 0;
        }
        rows.push(row);
    }
    rows
}

/// Structural claims: one failure signature or none. Claims that depend on the
/// shared-node count are returned separately (`semantic`), because degenerate
/// elements are outside the property (counted, not failed).
fn check(
    blocks: &[Blk],
    o: &Obs,
    bary: Option<usize>,
    used: usize,
    brute: bool,
) -> (Option<(&'static str, String)>, Option<(&'static str, String)>, bool, usize) {
    let (d, cells, degenerate) = match definition(blocks) {
        None => (usize::MAX, vec![], false),
        Some(x) => x,
    };
    let n = cells.len();
    let mut structural = None;
    let mut semantic = None;
    let fail = |slot: &mut Option<(&'static str, String)>, sig: &'static str, what: String| {
        if slot.is_none() {
            *slot = Some((sig, what));
        }
    };
    if o.rows != n || o.cols != n {
        fail(&mut structural, "dual-size", format!("shape {}x{} but {} cells", o.rows, o.cols, n));
    }
    let ptr_ok = o.indptr.len() == o.rows + 1
        && o.indptr[0] == 0
        && o.indptr.windows(2).all(|w| w[0] <= w[1])
        && *o.indptr.last().unwrap() == o.indices.len();
    if !ptr_ok {
        fail(&mut structural, "csr-malformed", format!("indptr {:?} / {} indices", o.indptr, o.indices.len()));
        return (structural, semantic, degenerate, d);
    }
    if o.data_len != o.indices.len() || !o.data_all_one {
        fail(&mut structural, "csr-data", "data is not all ones of the same length as indices".into());
    }
    let row = |i: usize| &o.indices[o.indptr[i]..o.indptr[i + 1]];
    for i in 0..o.rows {
        let r = row(i);
        if !r.windows(2).all(|w| w[0] < w[1]) {
            fail(&mut structural, "row-unsorted", format!("row {} = {:?}", i, r));
        }
        if r.contains(&i) {
            fail(&mut structural, "self-loop", format!("row {} = {:?}", i, r));
        }
        if r.iter().any(|&j| j >= o.rows) {
            fail(&mut structural, "index-range", format!("row {} = {:?}", i, r));
        }
    }
    if structural.is_none() && o.rows == n {
        let fast = if d >= 1 && d != usize::MAX { Some(reference_rows_fast(d, &cells)) } else { None };
        // high-valence stream: the literal pairwise definition on every mesh, whatever its size
        // (node lists as sorted vectors; the node -> cells index plays no part)
        let sorted: Vec<Vec<usize>> =
            if brute && n > 400 { cells.iter().map(|c| c.iter().cloned().collect()).collect() } else { vec![] };
        for i in 0..n {
            for &j in row(i) {
                if !row(j).contains(&i) {
                    fail(&mut semantic, "asymmetric", format!("{} in row {} but not conversely", j, i));
                }
            }
            if let Some(fast) = &fast {
                let want = &fast[i];
                if n <= 400 {
                    // small meshes: the literal O(n^2) definition, which also validates the fast form
                    let slow: Vec<usize> = (0..n)
                        .filter(|&j| j != i && cells[i].intersection(&cells[j]).count() >= d)
                        .collect();
                    if slow != *want {
                        fail(&mut structural, "oracle-internal", format!("row {}: {:?} vs {:?}", i, slow, want));
                    }
                } else if brute {
                    let slow: Vec<usize> =
                        (0..n).filter(|&j| j != i && shared_sorted(&sorted[i], &sorted[j]) >= d).collect();
                    if slow != *want {
                        fail(&mut structural, "oracle-internal", format!("row {}: {} vs {} entries", i, slow.len(), want.len()));
                    }
                }
                if want.as_slice() != row(i) {
                    fail(
                        &mut semantic,
                        "adjacency-mismatch",
                        if want.len() + row(i).len() <= 64 {
                            format!("row {} = {:?}, definition gives {:?}", i, row(i), want)
                        } else {
                            format!(
                                "row {} has {} entries, the definition gives {} (first difference at position {})",
                                i,
                                row(i).len(),
                                want.len(),
                                want.iter().zip(row(i)).take_while(|(a, b)| a == b).count()
                            )
                        },
                    );
                }
            }
        }
    }
    match bary {
        Some(b) if b == o.rows => {}
        Some(b) => fail(&mut structural, "centres-differ", format!("{} cell centres, {} graph vertices", b, o.rows)),
        None => fail(&mut structural, "centres-panic", "barycentres panicked although dual did not".into()),
    }
    if used != o.rows && d != 1 {
        fail(&mut structural, "used-count-differs", format!("used_element_count {} but {} graph vertices", used, o.rows));
    }
    (structural, semantic, degenerate, d)
}

/// Number of common entries of two strictly increasing lists.
fn shared_sorted(a: &[usize], b: &[usize]) -> usize {
    let (mut i, mut j, mut k) = (0, 0, 0);
    while i < a.len() && j < b.len() {
        if a[i] < b[j] {
            i += 1;
        } else if a[i] > b[j] {
            j += 1;
        } else {
            k += 1;
            i += 1;
            j += 1;
        }
    }
    k
}

/// Centre `i` must be a centre of cell `i`: on every axis it lies in the closed interval spanned by
/// the cell's node coordinates (up to rounding). A non-finite centre is accepted exactly when the sum
/// of the cell's coordinates can overflow (sum of magnitudes not below f64::MAX / 2) or a coordinate
/// of the cell is not finite. Returns (first violation, cells whose sum overflowed, cells with a
/// non-finite coordinate).
fn centres_aligned(
    mesh: &mesh_io::Mesh,
    space: usize,
    cells: &[BTreeSet<usize>],
    cs: &[Vec<f64>],
) -> (Option<String>, usize, usize) {
    let (mut bad, mut overflowed, mut nonfinite_in) = (None, 0usize, 0usize);
    for (i, (cell, c)) in cells.iter().zip(cs).enumerate() {
        let (mut any_over, mut any_nf) = (false, false);
        for k in 0..space {
            let vals: Vec<f64> = cell.iter().map(|&x| mesh.node(x)[k]).collect();
            if vals.iter().any(|v| !v.is_finite()) {
                any_nf = true;
                continue;
            }
            let lo = vals.iter().cloned().fold(f64::INFINITY, f64::min);
            let hi = vals.iter().cloned().fold(f64::NEG_INFINITY, f64::max);
            // magnitudes halved before they are added: this sum cannot overflow itself
            let half_abs: f64 = vals.iter().map(|v| v.abs() / 2.0).sum();
            if !c[k].is_finite() {
                if half_abs < f64::MAX / 4.0 {
                    bad.get_or_insert_with(|| {
                        format!("centre {} axis {}: {:e} although the cell's coordinates {:?} cannot overflow", i, k, c[k], vals)
                    });
                } else {
                    any_over = true;
                }
                continue;
            }
            let tol = 1e-12 * lo.abs().max(hi.abs()) + 1e-320;
            if c[k] < lo - tol || c[k] > hi + tol {
                bad.get_or_insert_with(|| {
                    format!("centre {} axis {}: {:e} outside [{:e}, {:e}] spanned by cell {}'s nodes", i, k, c[k], lo, hi, i)
                });
            }
        }
        overflowed += any_over as usize;
        nonfinite_in += any_nf as usize;
    }
    (bad, overflowed, nonfinite_in)
}

fn fnv(h: &mut u64, xs: &[usize]) {
    for &x in xs {
        for b in (x as u64).to_le_bytes() {
            *h ^= b as u64;
            *h = h.wrapping_mul(0x0000_0100_0000_01B3);
        }
    }
}

pub fn run_op(ctx: &mut Ctx, op: &str) {
    if ctx.hang_limit_reached() {
        return;
    }
    if op.starts_with("dualgen") {
        let Some((threads, g)) = parse_gen(op) else {
            ctx.record(op.to_string(), "bad-op".into(), false);
            return;
        };
        let (nn, blocks) = gen_mesh(&g);
        let space = if g.kind == 3 { 3 } else { 2 };
        let mesh = match catch(|| build_mesh(false, space, nn, &blocks, coords(space, nn))) {
            Caught::Ok(Ok(m)) => m,
            _ => {
                ctx.record(op.to_string(), "unbuildable".into(), false);
                return;
            }
        };
        ctx.count(&format!("large:blocks:{}", match blocks.len() { 0..=9 => "<10", 10..=255 => "10-255", 256..=999 => "256-999", _ => ">=1000" }));
        execute(ctx, op, &mesh, nn, blocks, threads, space, true, false);
        return;
    }
    if op.starts_with("dualhv") {
        let Some((threads, g)) = parse_hv(op) else {
            ctx.record(op.to_string(), "bad-op".into(), false);
            return;
        };
        let (nn, blocks) = hv_mesh(&g);
        let mesh = match catch(|| build_mesh(false, g.dim, nn, &blocks, coords_mode(g.dim, nn, g.cmode, g.seed))) {
            Caught::Ok(Ok(m)) => m,
            _ => {
                ctx.record(op.to_string(), "unbuildable".into(), false);
                return;
            }
        };
        // the class this stream is about: how many cells hang on the busiest node
        let mut val = vec![0usize; nn];
        if let Some((_, cells, _)) = definition(&blocks) {
            for c in &cells {
                for &x in c {
                    val[x] += 1;
                }
            }
        }
        let vmax = val.iter().cloned().max().unwrap_or(0);
        ctx.count(&format!("hv:max-valence:{}", match vmax { 0..=255 => "<256", 256..=1023 => "256-1023", 1024 => "1024", 1025..=2048 => "1025-2048", _ => ">2048" }));
        ctx.count(&format!("hv:nodes-above-1024:{}", match val.iter().filter(|&&v| v > 1024).count() { 0 => "0", 1 => "1", 2 => "2", 3..=8 => "3-8", _ => ">8" }));
        ctx.count(&format!("coords:{}", CMODE_NAME[g.cmode]));
        execute(ctx, op, &mesh, nn, blocks, threads, g.dim, true, true);
        return;
    }
    // `dualc`: the `dual` op with a coordinate mode and a coordinate seed after the pool size
    let (cmode, cseed, plain) = if op.starts_with("dualc ") {
        let t: Vec<&str> = op.split_whitespace().collect();
        let spec = if t.len() >= 5 { t[3].parse::<usize>().ok().zip(t[4].parse::<u64>().ok()) } else { None };
        match spec {
            Some((m, sd)) if m < CMODE_NAME.len() && (m != 7 || t[1] == "raw") => {
                (m, sd, format!("dual {} {} {}", t[1], t[2], t[5..].join(" ")))
            }
            _ => {
                ctx.record(op.to_string(), "bad-op".into(), false);
                return;
            }
        }
    } else {
        (0, 0, op.to_string())
    };
    let with_coords = op.starts_with("dualc ");
    let Some((medit, threads, nn, blocks)) = parse_op(&plain) else {
        ctx.record(op.to_string(), "bad-op".into(), false);
        return;
    };
    let space = if blocks.iter().any(|b| DIM[b.ty] == 3) { 3 } else { 2 };
    let mut blocks = blocks;
    if with_coords {
        ctx.count(&format!("coords:{}", CMODE_NAME[cmode]));
    }
    let mesh = match catch(|| build_mesh(medit, space, nn, &blocks, coords_mode(space, nn, cmode, cseed))) {
        Caught::Ok(Ok(m)) => m,
        Caught::Ok(Err(e)) => {
            ctx.count("unbuildable");
            ctx.record(op.to_string(), format!("unbuildable {}", e), false);
            return;
        }
        Caught::Panic(m) => {
            ctx.count("build-panic");
            ctx.record(op.to_string(), format!("unbuildable: build panic {}", m), false);
            return;
        }
        Caught::Hang => unreachable!(),
    };
    // The op handed to the model describes the mesh that was actually built: the number of
    // references per block is read back from it (a reader that fills in missing references
    // turns the `refs < count` ops into ordinary well-formed ones).
    let mut op = op.to_string();
    if mesh.topology().len() == blocks.len() {
        let mut changed = false;
        for (b, (_, _, r)) in blocks.iter_mut().zip(mesh.topology()) {
            if b.refs != r.len() {
                b.refs = r.len();
                changed = true;
            }
        }
        if changed {
            ctx.count("refs-filled-by-reader");
            op = format_op(if medit { "medit" } else { "raw" }, threads, nn, &blocks);
            if with_coords {
                op = format_op_c(if medit { "medit" } else { "raw" }, threads, cmode, cseed, nn, &blocks);
            }
        }
    }
    execute(ctx, op.as_str(), &mesh, nn, blocks, threads, space, false, false);
}

/// Run `dual` (and the two counts) on the built mesh, record the canonical line (`compact`: a
/// digest instead of the arrays) and evaluate the oracle.
#[allow(clippy::too_many_arguments)]
fn execute(
    ctx: &mut Ctx,
    op: &str,
    mesh: &mesh_io::Mesh,
    nn: usize,
    blocks: Vec<Blk>,
    threads: usize,
    space: usize,
    compact: bool,
    brute: bool,
) {
    let mesh = mesh;
    let wf = blocks.iter().all(|b| b.refs == b.count());
    let o = match observe(mesh, threads) {
        Caught::Ok(o) => o,
        Caught::Panic(m) => {
            // the only panic the model predicts: a node id that is not a node of the mesh
            let valid = blocks.iter().all(|b| b.nodes.iter().all(|&x| x < nn));
            ctx.count(if valid { "panic:valid-nodes" } else { "panic:node-out-of-range" });
            let idx = ctx.record(op.to_string(), format!("panic {}", m), false);
            if valid && wf {
                ctx.fail(idx, "panic", format!("{} [{}]", m, panic_sig(&m)));
            } else if valid {
                ctx.fail(idx, "medit-missing-refs", format!("panic {}", m));
            }
            return;
        }
        Caught::Hang => unreachable!(),
    };
    // the other pool sizes must give the same arrays (schedules)
    let mut pool_dep = None;
    let pools: &[usize] = if compact || !POOLS.contains(&threads) { &[1, 2, 3, 16] } else { &POOLS };
    for &t in pools {
        if t == threads {
            continue;
        }
        match observe(mesh, t) {
            Caught::Ok(o2) => {
                if o2.indptr != o.indptr || o2.indices != o.indices || o2.rows != o.rows {
                    pool_dep = Some(format!("pool {} and pool {} give different arrays", threads, t));
                }
            }
            _ => pool_dep = Some(format!("pool {} panics, pool {} does not", t, threads)),
        }
    }
    if compact || !POOLS.contains(&threads) {
        // reuse: the same pool serves this mesh, another one, and this mesh again
        ctx.count("reuse");
        let other = mesh_io::Mesh::from_raw_parts(
            2,
            coords(2, 4),
            vec![0; 4],
            vec![(mesh_io::ElementType::Triangle, vec![0, 1, 2, 1, 2, 3], vec![0, 0])],
        );
        let again = catch(|| {
            with_pool(threads, || {
                let a = coupe_tools::dual(mesh);
                let b = coupe_tools::dual(&other);
                let c = coupe_tools::dual(mesh);
                a.indptr().raw_storage() == c.indptr().raw_storage()
                    && a.indices() == c.indices()
                    && a.indices() == &o.indices[..]
                    && b.indices() == [1, 0]
            })
        });
        if !matches!(again, Caught::Ok(true)) {
            pool_dep = Some("the same pool gives different arrays on a second call".into());
        }
    }
    let centres: Option<Vec<Vec<f64>>> = match catch(|| {
        if space == 3 {
            coupe_tools::barycentres::<3>(mesh).iter().map(|p| (0..3).map(|k| p[k]).collect()).collect()
        } else {
            coupe_tools::barycentres::<2>(mesh).iter().map(|p| (0..2).map(|k| p[k]).collect()).collect()
        }
    }) {
        Caught::Ok(v) => Some(v),
        _ => None,
    };
    let bary = centres.as_ref().map(|v| v.len());
    let used = coupe_tools::used_element_count(mesh);
    let bary_s = bary.map(|n| n.to_string()).unwrap_or_else(|| "panic".into());
    let out = if compact {
        let mut h = 0xCBF2_9CE4_8422_2325u64;
        fnv(&mut h, &o.indptr);
        fnv(&mut h, &o.indices);
        format!("ok {} nnz {} h {:016x} | d{} | bary {} used {}", o.rows, o.indices.len(), h, o.data_len, bary_s, used)
    } else {
        format!(
            "ok {} | {} | {} | d{} | bary {} used {}",
            o.rows,
            join(&o.indptr),
            join(&o.indices),
            o.data_len,
            bary_s,
            used
        )
    };
    let (mut structural, semantic, degenerate, d) = check(&blocks, &o, bary, used, brute);
    // the i-th centre is a centre of the i-th cell (points line up with graph vertices)
    if let (Some(cs), Some((_, cells, _))) = (&centres, definition(&blocks)) {
        if cs.len() == cells.len() && blocks.iter().all(|b| b.nodes.iter().all(|&x| x < nn)) {
            let (bad, overflowed, nonfinite_in) = centres_aligned(mesh, space, &cells, cs);
            if overflowed > 0 {
                ctx.count("centres:some-sum-overflows-f64");
            }
            if nonfinite_in > 0 {
                ctx.count("centres:cell-with-nonfinite-coordinate");
            }
            if structural.is_none() {
                structural = bad.map(|w| ("centre-not-in-cell", w));
            }
        }
    }
    if d == 1 {
        ctx.count(if used != o.rows { "edges-only:used-count-differs" } else { "edges-only:counts-equal" });
    }
    if d == 0 {
        ctx.count("vertices-only");
    }
    ctx.count(if o.indices.is_empty() { "adjacency:none" } else { "adjacency:some" });
    let nontrivial = wf && !degenerate && o.rows >= 2 && !o.indices.is_empty() && d >= 2 && d != usize::MAX;
    let idx = ctx.record(op.to_string(), out, nontrivial);
    if !wf {
        // MEDIT element lines without a reference column: the reader builds a mesh outside
        // `Mesh::from_raw_parts`' invariant. The model still predicts the arrays; every claim of
        // the property that breaks is reported under one signature.
        ctx.count("nonwf");
        if let Some((sig, what)) = structural.or(semantic) {
            ctx.count(&format!("nonwf:{}", sig));
            ctx.fail(idx, "medit-missing-refs", format!("{}: {}", sig, what));
        }
        return;
    }
    if let Some(what) = pool_dep {
        ctx.fail(idx, "pool-dependent", what);
    }
    if let Some((sig, what)) = structural {
        ctx.fail(idx, sig, what);
    }
    if let Some((sig, what)) = semantic {
        if degenerate {
            ctx.count(&format!("degenerate:{}", sig));
        } else {
            ctx.fail(idx, sig, what);
        }
    } else if degenerate {
        ctx.count("degenerate:consistent");
    }
}
