//! C01 — every partitioner gives every element a part id below the requested count,
//! without panicking (overflow checks + debug assertions are ON in this build) and without hanging,
//! for every rayon pool size.
//!
//! All twelve partition-creating algorithms are driven through the PUBLIC API (`coupe::Partition`,
//! `coupe::Grid::rcb`; `coupe::Random` gets a `rand_pcg::Pcg64` the harness seeds itself, so that
//! its ids are also compared with the reference sequence `rng.gen_range(0..part_count)` –
//! signature `random-sequence@random` – and, in the `tools` cases, with the CLI's own constructor
//! `coupe_tools::parse_algorithm("random,<k>,<seed>")`).
//!
//! op (one line; `<Ts>` = comma separated rayon pool sizes the case is run under, `<wt>` = `i`
//! (weights are decimal `i64`) or `f` (weights are `f64` bit patterns in hex); coordinates are
//! `f64` bit patterns in hex, point-major: `x0 y0 [z0] x1 y1 [z1] …`):
//!
//! ```text
//! rcb2|rcb3|rib2|rib3 <Ts> <iter_count> <tol bits> <wt> <n> <coords…> <weights…>
//! hilbert2|hilbert3   <Ts> <part_count> <order> <n> <coords…> <weights f64 bits…>
//! zcurve2|zcurve3     <Ts> <part_count> <order> <n> <coords…>
//! mj2|mj3             <Ts> <part_count> <max_iter> <n> <coords…> <weights f64 bits…>
//! greedy              <Ts> <part_count> <wt> <n> <weights…>
//! kk                  <Ts> <part_count> <n> <weights i64…>
//! ckk                 <Ts> <tol bits> <n> <weights i64…>
//! grid2               <Ts> <w> <h> <iter_count> <wt> <weights w*h…>
//! grid3               <Ts> <w> <h> <d> <iter_count> <wt> <weights w*h*d…>
//! random              <Ts> <part_count> <n> <seed>
//! ```
//! an optional last token `m=<len>` gives the id array a length different from `n` (malformed
//! stream, only for the algorithms that validate lengths).
//!
//! A line may start with `reuse-twice` or `reuse-buf` followed by an op as above (history cases):
//! `reuse-twice`: ONE algorithm value is called first on the element-reversed input (scratch
//! array), then on the input; `reuse-buf`: the id array is first filled by a real run asking for
//! more parts (two more iterations; `2*parts+3` parts; Greedy with 7 parts for Ckk), then reused
//! for the run of the op. Both results must pass the oracle and – on a 1-thread pool, and on any
//! pool for the sequential algorithms – equal the result of a fresh value on a fresh array
//! (`history-dependent@<algo>` otherwise).
//!
//! `wscale <s> <op>` / `cscale <s> <op>` (scale cases): the op is run as written AND with all
//! weights (`wscale`; the op carries `f` weights) or all coordinates (`cscale`) multiplied by `s`
//! (`2^k`, a decimal literal such as `1e-18` or the subnormal `5e-324`, or `1e300/total` =
//! 1e300 divided by the sum of the weights). Both runs must pass the oracle; for a power of two the
//! scaled run must give the same ids as the unscaled one where the run is deterministic
//! (`scale-dependent@<algo>` otherwise: 1-thread pool, Greedy and Grid on any pool; for `cscale`
//! only Rcb and MultiJagged, whose code merely compares and halves coordinates).
//!
//! The op above is the whole INPUT (public API only; this is what the corpus holds). The line
//! RECORDED for the model driver is `<op> => <aux…>` for the three algorithms whose models take
//! the result of floating-point code as a parameter; `aux` is read from the implementation
//! through the read-only `coupe::verif` hooks (1-thread pool) and ignored when a line is replayed:
//! `rib*`: the points in the frame of their oriented bounding box (`n*D` f64 bit patterns);
//! `hilbert*`: the Hilbert indices of the points (`n` decimal `u64`);
//! `zcurve*`: per point the `order` regions it falls in (`n` digit strings, `e` = empty).
//!
//! out: `ok` (every pool size: returned `Ok`, every element written, every id < parts)
//!    | `notfound` (Ckk only: legitimate, nothing is claimed about the array)
//!    | `rejected <why>` (input outside the contract refused: `lenmismatch`, `invalidorder`, `order-assert`)
//!    | `bad-ids …` | `err …` | `panic file:line: msg` | `hang`
//!    | `mixed <T>:<verdict> …` when pool sizes disagree.
//!
//! Oracle (independent of any model): for every pool size – no panic, no watchdog expiry, `Ok`
//! (or `NotFound` for Ckk), no `usize::MAX` left of the pre-filled array, every id < parts, with
//! parts = 2^iter_count for Rcb/Rib/Grid, 2 for Ckk, part_count otherwise.

use crate::common::*;
use coupe::rayon::prelude::*;
use coupe::Partition as _;
use std::collections::HashMap;
use std::sync::Mutex;

const HANG_SECS: u64 = 60;
/// after this many watchdog expiries of one algorithm the remaining runs of it are not started
/// (every hang leaves a spinning thread behind)
const HANG_LIMIT: u32 = 4;

static HANGS: Mutex<Option<HashMap<String, u32>>> = Mutex::new(None);

fn hang_count(algo: &str) -> u32 {
    HANGS.lock().ok().and_then(|g| g.as_ref().and_then(|m| m.get(algo).copied())).unwrap_or(0)
}

fn hang_bump(algo: &str) {
    if let Ok(mut g) = HANGS.lock() {
        *g.get_or_insert_with(HashMap::new).entry(algo.to_string()).or_insert(0) += 1;
    }
}

/// Above this many elements the model driver does not run the models (`skip large-n (oracle
/// only)`; same constant in Driver/C01.lean) and no `=> aux` part is exported.
const MODEL_MAX_N: usize = 21_000;

/// `with_pool` of common.rs with 64 MiB worker stacks: `ckk_bipart_rec` recurses once per element,
/// and a stack overflow of a worker would take the whole harness process down.
fn with_big_pool<T: Send>(threads: usize, f: impl FnOnce() -> T + Send) -> T {
    let pool = coupe::rayon::ThreadPoolBuilder::new()
        .num_threads(threads)
        .stack_size(64 << 20)
        .build()
        .expect("pool");
    pool.install(f)
}

// ------------------------------------------------------------------ cases

#[derive(Clone, Debug)]
enum Wts {
    I(Vec<i64>),
    F(Vec<f64>),
}

impl Wts {
    fn len(&self) -> usize {
        match self {
            Wts::I(v) => v.len(),
            Wts::F(v) => v.len(),
        }
    }
    fn tag(&self) -> &'static str {
        match self {
            Wts::I(_) => "i",
            Wts::F(_) => "f",
        }
    }
    fn fmt(&self) -> String {
        match self {
            Wts::I(v) => join(v),
            Wts::F(v) => hexes(v),
        }
    }
    /// finite, non-negative, positive total unless empty
    fn in_contract(&self) -> bool {
        match self {
            Wts::I(v) => v.iter().all(|&w| w >= 0) && (v.is_empty() || v.iter().any(|&w| w > 0)),
            Wts::F(v) => {
                v.iter().all(|&w| w.is_finite() && w >= 0.0)
                    && (v.is_empty() || v.iter().any(|&w| w > 0.0))
                    && v.iter().sum::<f64>().is_finite()
            }
        }
    }
}

#[derive(Clone, Debug)]
enum Case {
    /// Rcb / Rib
    Bisect { rib: bool, dim: usize, iter: usize, tol: f64, pts: Vec<f64>, w: Wts },
    Hilbert { dim: usize, parts: usize, order: u32, pts: Vec<f64>, w: Vec<f64> },
    ZCurve { dim: usize, parts: usize, order: u32, pts: Vec<f64> },
    Mj { dim: usize, parts: usize, max_iter: usize, pts: Vec<f64>, w: Vec<f64> },
    Greedy { parts: usize, w: Wts },
    Kk { parts: usize, w: Vec<i64> },
    Ckk { tol: f64, w: Vec<i64> },
    Grid { dims: Vec<usize>, iter: usize, w: Wts },
    Random { parts: usize, n: usize, seed: u64 },
}

fn hexes(v: &[f64]) -> String {
    let mut s = String::with_capacity(v.len() * 17);
    for (i, x) in v.iter().enumerate() {
        if i > 0 {
            s.push(' ');
        }
        s.push_str(&format!("{:x}", x.to_bits()));
    }
    s
}

impl Case {
    fn algo(&self) -> String {
        match self {
            Case::Bisect { rib, dim, .. } => format!("{}{}", if *rib { "rib" } else { "rcb" }, dim),
            Case::Hilbert { dim, .. } => format!("hilbert{}", dim),
            Case::ZCurve { dim, .. } => format!("zcurve{}", dim),
            Case::Mj { dim, .. } => format!("mj{}", dim),
            Case::Greedy { .. } => "greedy".into(),
            Case::Kk { .. } => "kk".into(),
            Case::Ckk { .. } => "ckk".into(),
            Case::Grid { dims, .. } => format!("grid{}", dims.len()),
            Case::Random { .. } => "random".into(),
        }
    }

    /// number of elements
    fn n(&self) -> usize {
        match self {
            Case::Bisect { dim, pts, .. }
            | Case::Hilbert { dim, pts, .. }
            | Case::ZCurve { dim, pts, .. }
            | Case::Mj { dim, pts, .. } => pts.len() / dim,
            Case::Greedy { w, .. } => w.len(),
            Case::Kk { w, .. } | Case::Ckk { w, .. } => w.len(),
            Case::Grid { dims, .. } => dims.iter().product(),
            Case::Random { n, .. } => *n,
        }
    }

    /// the bound the property names: ids must be below this
    fn parts(&self) -> usize {
        match self {
            Case::Bisect { iter, .. } | Case::Grid { iter, .. } => 1usize << (*iter).min(40),
            Case::Ckk { .. } => 2,
            Case::Hilbert { parts, .. }
            | Case::ZCurve { parts, .. }
            | Case::Mj { parts, .. }
            | Case::Greedy { parts, .. }
            | Case::Kk { parts, .. }
            | Case::Random { parts, .. } => *parts,
        }
    }

    /// The same elements in reverse order (a different input of the same size).
    fn reversed(&self) -> Case {
        fn rev_pts(p: &[f64], dim: usize) -> Vec<f64> {
            p.chunks(dim).rev().flat_map(|c| c.to_vec()).collect()
        }
        fn rev_w(w: &Wts) -> Wts {
            match w {
                Wts::I(v) => Wts::I(v.iter().rev().copied().collect()),
                Wts::F(v) => Wts::F(v.iter().rev().copied().collect()),
            }
        }
        let mut c = self.clone();
        match &mut c {
            Case::Bisect { dim, pts, w, .. } => {
                *pts = rev_pts(pts, *dim);
                *w = rev_w(w);
            }
            Case::Hilbert { dim, pts, w, .. } | Case::Mj { dim, pts, w, .. } => {
                *pts = rev_pts(pts, *dim);
                w.reverse();
            }
            Case::ZCurve { dim, pts, .. } => *pts = rev_pts(pts, *dim),
            Case::Greedy { w, .. } | Case::Grid { w, .. } => *w = rev_w(w),
            Case::Kk { w, .. } | Case::Ckk { w, .. } => w.reverse(),
            Case::Random { .. } => {}
        }
        c
    }

    /// `w<k>` / `c<k>` (`k` a count or `all`): that many of the +0.0 `f64` weights / coordinates
    /// become -0.0 (fewer if there are fewer). → (twin, number flipped)
    fn with_negzeros(&self, spec: &str) -> Option<(Case, usize)> {
        let (on_w, k) = (spec.starts_with('w'), &spec[1.min(spec.len())..]);
        if !(spec.starts_with('w') || spec.starts_with('c')) {
            return None;
        }
        let k: usize = if k == "all" { usize::MAX } else { k.parse().ok()? };
        let mut c = self.clone();
        let mut done = 0usize;
        let mut flip = |v: &mut Vec<f64>| {
            for x in v.iter_mut() {
                if done < k && x.to_bits() == 0 {
                    *x = -0.0;
                    done += 1;
                }
            }
        };
        if on_w {
            match &mut c {
                Case::Bisect { w: Wts::F(w), .. } | Case::Greedy { w: Wts::F(w), .. } | Case::Grid { w: Wts::F(w), .. } => {
                    flip(w)
                }
                Case::Hilbert { w, .. } | Case::Mj { w, .. } => flip(w),
                _ => return None,
            }
        } else {
            match &mut c {
                Case::Bisect { pts, .. } | Case::Hilbert { pts, .. } | Case::ZCurve { pts, .. } | Case::Mj { pts, .. } => {
                    flip(pts)
                }
                _ => return None,
            }
        }
        Some((c, done))
    }

    /// Sum of the `f64` weights (`None`: the case has no `f64` weights).
    fn f_total(&self) -> Option<f64> {
        match self {
            Case::Bisect { w: Wts::F(w), .. } | Case::Greedy { w: Wts::F(w), .. } | Case::Grid { w: Wts::F(w), .. } => {
                Some(w.iter().sum())
            }
            Case::Hilbert { w, .. } | Case::Mj { w, .. } => Some(w.iter().sum()),
            _ => None,
        }
    }

    /// All `f64` weights multiplied by `s` (`None`: the case has no `f64` weights).
    fn scale_weights(&self, s: f64) -> Option<Case> {
        let mut c = self.clone();
        match &mut c {
            Case::Bisect { w: Wts::F(w), .. } | Case::Greedy { w: Wts::F(w), .. } | Case::Grid { w: Wts::F(w), .. } => {
                w.iter_mut().for_each(|x| *x *= s)
            }
            Case::Hilbert { w, .. } | Case::Mj { w, .. } => w.iter_mut().for_each(|x| *x *= s),
            _ => return None,
        }
        Some(c)
    }

    /// All coordinates multiplied by `s` (`None`: the case has no coordinates).
    fn scale_coords(&self, s: f64) -> Option<Case> {
        let mut c = self.clone();
        match &mut c {
            Case::Bisect { pts, .. } | Case::Hilbert { pts, .. } | Case::ZCurve { pts, .. } | Case::Mj { pts, .. } => {
                pts.iter_mut().for_each(|x| *x *= s)
            }
            _ => return None,
        }
        Some(c)
    }

    /// A run on the same elements that asks for more parts (its ids fill the array that
    /// `reuse-buf` hands to the real run).
    fn more_parts(&self) -> Case {
        let mut c = self.clone();
        match &mut c {
            Case::Bisect { iter, .. } | Case::Grid { iter, .. } => *iter = (*iter + 2).min(40),
            Case::Hilbert { parts, .. }
            | Case::ZCurve { parts, .. }
            | Case::Mj { parts, .. }
            | Case::Greedy { parts, .. }
            | Case::Kk { parts, .. }
            | Case::Random { parts, .. } => *parts = parts.saturating_mul(2).saturating_add(3),
            Case::Ckk { w, .. } => return Case::Greedy { parts: 7, w: Wts::I(w.clone()) },
        }
        c
    }

    /// `<algo> <Ts> …`
    fn format(&self, ts: &[usize], m: Option<usize>) -> String {
        let ts = ts.iter().map(|t| t.to_string()).collect::<Vec<_>>().join(",");
        let body = match self {
            Case::Bisect { iter, tol, pts, w, .. } => {
                format!("{} {:x} {} {} {} {}", iter, tol.to_bits(), w.tag(), self.n(), hexes(pts), w.fmt())
            }
            Case::Hilbert { parts, order, pts, w, .. } => {
                format!("{} {} {} {} {}", parts, order, self.n(), hexes(pts), hexes(w))
            }
            Case::ZCurve { parts, order, pts, .. } => format!("{} {} {} {}", parts, order, self.n(), hexes(pts)),
            Case::Mj { parts, max_iter, pts, w, .. } => {
                format!("{} {} {} {} {}", parts, max_iter, self.n(), hexes(pts), hexes(w))
            }
            Case::Greedy { parts, w } => format!("{} {} {} {}", parts, w.tag(), w.len(), w.fmt()),
            Case::Kk { parts, w } => format!("{} {} {}", parts, w.len(), join(w)),
            Case::Ckk { tol, w } => format!("{:x} {} {}", tol.to_bits(), w.len(), join(w)),
            Case::Grid { dims, iter, w } => format!("{} {} {} {}", join(dims), iter, w.tag(), w.fmt()),
            Case::Random { parts, n, seed } => format!("{} {} {}", parts, n, seed),
        };
        let mut s = format!("{} {} {}", self.algo(), ts, body);
        if let Some(m) = m {
            s.push_str(&format!(" m={}", m));
        }
        s.split_whitespace().collect::<Vec<_>>().join(" ")
    }

    /// `None` when inside the usage contract, else the reason. (`m` = length of the id array.)
    fn out_of_contract(&self, m: usize) -> Option<&'static str> {
        if m != self.n() {
            return Some("lenmismatch");
        }
        let finite = |pts: &Vec<f64>, as_f32: bool| {
            pts.iter().all(|x| x.is_finite() && (!as_f32 || (*x as f32).is_finite()))
        };
        match self {
            Case::Bisect { tol, pts, w, iter, .. } => {
                if !finite(pts, true) || !w.in_contract() || !tol.is_finite() || *iter > 40 {
                    return Some("contract");
                }
            }
            Case::Hilbert { dim, parts, order, pts, w } => {
                if *order > if *dim == 2 { 32 } else { 21 } {
                    return Some("invalidorder");
                }
                if !finite(pts, false) || !Wts::F(w.clone()).in_contract() || *parts == 0 {
                    return Some("contract");
                }
            }
            Case::ZCurve { dim, parts, order, pts } => {
                // z_curve.rs: max_order = log_{2^D}(u128::MAX)
                if *order > if *dim == 2 { 64 } else { 42 } {
                    return Some("order-assert");
                }
                if !finite(pts, false) || *parts == 0 {
                    return Some("contract");
                }
            }
            Case::Mj { parts, max_iter, pts, w, .. } => {
                if !finite(pts, false) || !Wts::F(w.clone()).in_contract() || *parts == 0 {
                    return Some("contract");
                }
                // zero iterations cannot produce more than one part (the scheme's root is
                // part_count^(1/max_iter)); the CLI and the C API pass max_iter >= 1
                if *max_iter == 0 {
                    return Some("contract");
                }
            }
            Case::Greedy { parts, w } => {
                if !w.in_contract() || *parts == 0 {
                    return Some("contract");
                }
            }
            Case::Kk { parts, w } => {
                if !Wts::I(w.clone()).in_contract() || *parts == 0 {
                    return Some("contract");
                }
            }
            Case::Ckk { tol, w } => {
                if !Wts::I(w.clone()).in_contract() || !tol.is_finite() || *tol < 0.0 {
                    return Some("contract");
                }
            }
            Case::Grid { w, iter, .. } => {
                if !w.in_contract() || *iter > 40 {
                    return Some("contract");
                }
            }
            Case::Random { parts, .. } => {
                if *parts == 0 {
                    return Some("contract");
                }
            }
        }
        None
    }
}

// ------------------------------------------------------------------ parsing

struct Tok<'a>(std::iter::Peekable<std::str::SplitWhitespace<'a>>);

impl<'a> Tok<'a> {
    fn word(&mut self) -> Option<&'a str> {
        self.0.next()
    }
    fn usize(&mut self) -> Option<usize> {
        self.word()?.parse().ok()
    }
    fn u32(&mut self) -> Option<u32> {
        self.word()?.parse().ok()
    }
    fn f64(&mut self) -> Option<f64> {
        Some(f64::from_bits(u64::from_str_radix(self.word()?, 16).ok()?))
    }
    fn f64s(&mut self, n: usize) -> Option<Vec<f64>> {
        let mut v = Vec::with_capacity(n.min(1 << 20));
        for _ in 0..n {
            v.push(self.f64()?);
        }
        Some(v)
    }
    fn i64s(&mut self, n: usize) -> Option<Vec<i64>> {
        let mut v = Vec::with_capacity(n.min(1 << 20));
        for _ in 0..n {
            v.push(self.word()?.parse().ok()?);
        }
        Some(v)
    }
    fn wts(&mut self, tag: &str, n: usize) -> Option<Wts> {
        match tag {
            "i" => Some(Wts::I(self.i64s(n)?)),
            "f" => Some(Wts::F(self.f64s(n)?)),
            _ => None,
        }
    }
}

macro_rules! points {
    ($D:literal, $pts:expr) => {
        $pts.chunks($D).map(|c| coupe::PointND::<$D>::from_column_slice(c)).collect::<Vec<coupe::PointND<$D>>>()
    };
}

/// The input part of a recorded line (everything before the ` => ` marker).
fn public_part(op: &str) -> &str {
    match op.find(" => ") {
        Some(i) => &op[..i],
        None => op.strip_suffix(" =>").unwrap_or(op),
    }
}

/// Float-derived data for the model driver, from the read-only hooks (see the module doc).
/// `None`: not needed, nothing to export (no point), or the hook itself failed.
fn aux_for(case: &Case) -> Option<String> {
    let c = case.clone();
    let r = catch_timeout(HANG_SECS, move || {
        with_pool(1, move || match c {
            Case::Bisect { rib: true, dim, pts, .. } => {
                let flat: Option<Vec<f64>> = if dim == 2 {
                    coupe::verif::geometry::obb_frame::<2>(&points!(2, pts))
                        .map(|(m, _)| m.iter().flat_map(|p| p.iter().copied().collect::<Vec<f64>>()).collect())
                } else {
                    coupe::verif::geometry::obb_frame::<3>(&points!(3, pts))
                        .map(|(m, _)| m.iter().flat_map(|p| p.iter().copied().collect::<Vec<f64>>()).collect())
                };
                flat.map(|f| hexes(&f))
            }
            Case::Hilbert { dim, order, pts, .. } => {
                if pts.is_empty() {
                    return None;
                }
                let idx = if dim == 2 {
                    coupe::verif::hilbert::indices_2d(&points!(2, pts), order as usize)
                } else {
                    coupe::verif::hilbert::indices_3d(&points!(3, pts), order as usize)
                };
                Some(join(&idx))
            }
            Case::ZCurve { dim, order, pts, .. } => {
                if pts.is_empty() {
                    return None;
                }
                let codes = if dim == 2 {
                    coupe::verif::z_curve::codes::<2>(&points!(2, pts), order)
                } else {
                    coupe::verif::z_curve::codes::<3>(&points!(3, pts), order)
                };
                let toks: Vec<String> = codes
                    .iter()
                    .map(|c| if c.is_empty() { "e".to_string() } else { c.iter().map(|d| char::from(b'0' + *d)).collect() })
                    .collect();
                Some(toks.join(" "))
            }
            _ => None,
        })
    });
    match r {
        Caught::Ok(v) => v,
        _ => None,
    }
}

/// → (case, pool sizes, length of the id array)
fn parse_op(op: &str) -> Option<(Case, Vec<usize>, usize)> {
    let op = public_part(op);
    let mut t = Tok(op.split_whitespace().peekable());
    let algo = t.word()?;
    let ts: Vec<usize> = t.word()?.split(',').map(|x| x.parse().ok()).collect::<Option<_>>()?;
    if ts.is_empty() || ts.iter().any(|&x| x == 0 || x > 64) {
        return None;
    }
    let (name, dim) = match algo {
        "rcb2" | "rib2" | "hilbert2" | "zcurve2" | "mj2" | "grid2" => (&algo[..algo.len() - 1], 2usize),
        "rcb3" | "rib3" | "hilbert3" | "zcurve3" | "mj3" | "grid3" => (&algo[..algo.len() - 1], 3usize),
        _ => (algo, 0usize),
    };
    let case = match name {
        "rcb" | "rib" => {
            let iter = t.usize()?;
            let tol = t.f64()?;
            let tag = t.word()?;
            let n = t.usize()?;
            let pts = t.f64s(n.checked_mul(dim)?)?;
            let w = t.wts(tag, n)?;
            Case::Bisect { rib: name == "rib", dim, iter, tol, pts, w }
        }
        "hilbert" => {
            let parts = t.usize()?;
            let order = t.u32()?;
            let n = t.usize()?;
            let pts = t.f64s(n.checked_mul(dim)?)?;
            let w = t.f64s(n)?;
            Case::Hilbert { dim, parts, order, pts, w }
        }
        "zcurve" => {
            let parts = t.usize()?;
            let order = t.u32()?;
            let n = t.usize()?;
            let pts = t.f64s(n.checked_mul(dim)?)?;
            Case::ZCurve { dim, parts, order, pts }
        }
        "mj" => {
            let parts = t.usize()?;
            let max_iter = t.usize()?;
            let n = t.usize()?;
            let pts = t.f64s(n.checked_mul(dim)?)?;
            let w = t.f64s(n)?;
            Case::Mj { dim, parts, max_iter, pts, w }
        }
        "greedy" => {
            let parts = t.usize()?;
            let tag = t.word()?;
            let n = t.usize()?;
            let w = t.wts(tag, n)?;
            Case::Greedy { parts, w }
        }
        "kk" => {
            let parts = t.usize()?;
            let n = t.usize()?;
            Case::Kk { parts, w: t.i64s(n)? }
        }
        "ckk" => {
            let tol = t.f64()?;
            let n = t.usize()?;
            Case::Ckk { tol, w: t.i64s(n)? }
        }
        "grid" => {
            let mut dims = Vec::new();
            for _ in 0..dim {
                let d = t.usize()?;
                if d == 0 || d > 1 << 20 {
                    return None;
                }
                dims.push(d);
            }
            let iter = t.usize()?;
            let tag = t.word()?;
            let n = dims.iter().try_fold(1usize, |a, &d| a.checked_mul(d))?;
            if n > 1 << 24 {
                return None;
            }
            let w = t.wts(tag, n)?;
            Case::Grid { dims, iter, w }
        }
        "random" => {
            let parts = t.usize()?;
            let n = t.usize()?;
            let seed = t.word()?.parse().ok()?;
            Case::Random { parts, n, seed }
        }
        _ => return None,
    };
    let mut m = case.n();
    if let Some(tok) = t.word() {
        m = tok.strip_prefix("m=")?.parse().ok()?;
        // a different array length only where the algorithm validates it (the others write
        // through raw pointers and trust the caller)
        match case {
            Case::Bisect { .. } | Case::Greedy { .. } | Case::Kk { .. } | Case::Ckk { .. } => {}
            _ => return None,
        }
    }
    if t.word().is_some() || m > 1 << 24 {
        return None;
    }
    Some((case, ts, m))
}

// ------------------------------------------------------------------ running the implementation

/// What one call returned (when it returned).
#[derive(Clone, Debug, PartialEq)]
enum Ret {
    Ok,
    NotFound,
    LenMismatch,
    InvalidOrder,
    Other(String),
    /// `<kind>|<what>`: a comparison made inside the run failed (signature `<kind>@<algo>`)
    Mismatch(String),
}

fn map_err(e: coupe::Error) -> Ret {
    match e {
        coupe::Error::NotFound => Ret::NotFound,
        coupe::Error::InputLenMismatch { .. } => Ret::LenMismatch,
        e => Ret::Other(format!("{:?}", e)),
    }
}

fn to_ret(r: Result<(), coupe::Error>) -> Ret {
    match r {
        Ok(()) => Ret::Ok,
        Err(e) => map_err(e),
    }
}

macro_rules! bisect {
    ($D:literal, $ids:expr, $rcb:expr, $rib:expr, $is_rib:expr, $pts:expr, $w:expr) => {{
        let p = points!($D, $pts);
        match ($is_rib, $w) {
            (false, Wts::I(w)) => to_ret($rcb.partition($ids, (p.par_iter().cloned(), w))),
            (false, Wts::F(w)) => to_ret($rcb.partition($ids, (p.par_iter().cloned(), w))),
            (true, Wts::I(w)) => to_ret($rib.partition($ids, (&p[..], w))),
            (true, Wts::F(w)) => to_ret($rib.partition($ids, (&p[..], w))),
        }
    }};
}

/// `rand_pcg::Pcg64::from_seed` of the decimal seed's bytes, zero-padded to 32 (what
/// `coupe_tools::parse_algorithm("random,<k>,<seed>")` builds).
fn random_rng(seed: u64) -> rand_pcg::Pcg64 {
    use rand::SeedableRng as _;
    let mut bytes = seed.to_string().into_bytes();
    bytes.resize(32, 0);
    let arr: [u8; 32] = bytes.try_into().unwrap();
    rand_pcg::Pcg64::from_seed(arr)
}

/// The real implementation on the id array `ids` (fresh ones are pre-filled with `usize::MAX`).
/// With `twice` the SAME algorithm value is first called on the element-reversed input and a
/// scratch array (its result is dropped; a panic there is a panic of the case). Runs inside the
/// pool / watchdog of the caller.
fn call(case: Case, mut ids: Vec<usize>, twice: bool) -> (Ret, Vec<usize>) {
    let mut scratch = vec![usize::MAX; if twice { ids.len() } else { 0 }];
    let warm = if twice { Some(case.reversed()) } else { None };
    let ret = match case {
        Case::Bisect { rib, dim, iter, tol, pts, w } => {
            let mut rcb = coupe::Rcb { iter_count: iter, tolerance: tol };
            let mut ribv = coupe::Rib { iter_count: iter, tolerance: tol };
            if let Some(Case::Bisect { pts: p0, w: w0, .. }) = warm {
                let _ = if dim == 2 {
                    bisect!(2, &mut scratch, rcb, ribv, rib, p0, w0)
                } else {
                    bisect!(3, &mut scratch, rcb, ribv, rib, p0, w0)
                };
            }
            if dim == 2 {
                bisect!(2, &mut ids, rcb, ribv, rib, pts, w)
            } else {
                bisect!(3, &mut ids, rcb, ribv, rib, pts, w)
            }
        }
        Case::Hilbert { dim, parts, order, pts, w } => {
            let mut algo = coupe::HilbertCurve { part_count: parts, order };
            let mut go = |pts: &[f64], w: &[f64], buf: &mut [usize]| {
                if dim == 2 {
                    let p = points!(2, pts);
                    algo.partition(buf, (&p[..], w))
                } else {
                    let p = points!(3, pts);
                    algo.partition(buf, (&p[..], w))
                }
            };
            if let Some(Case::Hilbert { pts: p0, w: w0, .. }) = &warm {
                let _ = go(p0, w0, &mut scratch);
            }
            match go(&pts, &w, &mut ids) {
                Ok(()) => Ret::Ok,
                Err(coupe::HilbertCurveError::InvalidOrder { .. }) => Ret::InvalidOrder,
                #[allow(unreachable_patterns)]
                Err(e) => Ret::Other(format!("{:?}", e)),
            }
        }
        Case::ZCurve { dim, parts, order, pts } => {
            let mut algo = coupe::ZCurve { part_count: parts, order };
            let mut go = |pts: &[f64], buf: &mut [usize]| {
                if dim == 2 {
                    let p = points!(2, pts);
                    algo.partition(buf, &p[..]).unwrap();
                } else {
                    let p = points!(3, pts);
                    algo.partition(buf, &p[..]).unwrap();
                }
            };
            if let Some(Case::ZCurve { pts: p0, .. }) = &warm {
                go(p0, &mut scratch);
            }
            go(&pts, &mut ids);
            Ret::Ok
        }
        Case::Mj { dim, parts, max_iter, pts, w } => {
            let mut algo = coupe::MultiJagged { part_count: parts, max_iter };
            let mut go = |pts: &[f64], w: &[f64], buf: &mut [usize]| {
                if dim == 2 {
                    let p = points!(2, pts);
                    algo.partition(buf, (&p[..], w)).unwrap();
                } else {
                    let p = points!(3, pts);
                    algo.partition(buf, (&p[..], w)).unwrap();
                }
            };
            if let Some(Case::Mj { pts: p0, w: w0, .. }) = &warm {
                go(p0, w0, &mut scratch);
            }
            go(&pts, &w, &mut ids);
            Ret::Ok
        }
        Case::Greedy { parts, w } => {
            let mut algo = coupe::Greedy { part_count: parts };
            let mut go = |w: Wts, buf: &mut [usize]| match w {
                Wts::I(w) => to_ret(algo.partition(buf, w)),
                Wts::F(w) => to_ret(algo.partition(buf, w)),
            };
            if let Some(Case::Greedy { w: w0, .. }) = warm {
                let _ = go(w0, &mut scratch);
            }
            go(w, &mut ids)
        }
        Case::Kk { parts, w } => {
            let mut algo = coupe::KarmarkarKarp { part_count: parts };
            if let Some(Case::Kk { w: w0, .. }) = warm {
                let _ = algo.partition(&mut scratch, w0);
            }
            to_ret(algo.partition(&mut ids, w))
        }
        Case::Ckk { tol, w } => {
            let mut algo = coupe::CompleteKarmarkarKarp { tolerance: tol };
            if let Some(Case::Ckk { w: w0, .. }) = warm {
                let _ = algo.partition(&mut scratch, w0);
            }
            to_ret(algo.partition(&mut ids, w))
        }
        Case::Grid { dims, iter, w } => {
            let nz = |x: usize| std::num::NonZeroUsize::new(x).unwrap();
            let w0 = match warm {
                Some(Case::Grid { w: w0, .. }) => Some(w0),
                _ => None,
            };
            if dims.len() == 2 {
                let g = coupe::Grid::new_2d(nz(dims[0]), nz(dims[1]));
                let go = |w: Wts, buf: &mut [usize]| match w {
                    Wts::I(w) => g.rcb(buf, &w[..], iter),
                    Wts::F(w) => g.rcb(buf, &w[..], iter),
                };
                if let Some(w0) = w0 {
                    go(w0, &mut scratch);
                }
                go(w, &mut ids);
            } else {
                let g = coupe::Grid::new_3d(nz(dims[0]), nz(dims[1]), nz(dims[2]));
                let go = |w: Wts, buf: &mut [usize]| match w {
                    Wts::I(w) => g.rcb(buf, &w[..], iter),
                    Wts::F(w) => g.rcb(buf, &w[..], iter),
                };
                if let Some(w0) = w0 {
                    go(w0, &mut scratch);
                }
                go(w, &mut ids);
            }
            Ret::Ok
        }
        Case::Random { parts, seed, .. } => {
            // an rng the harness controls: Pcg64 seeded as the CLI seeds it (the bytes of the decimal
            // seed, zero-padded), and a second one in the same state for the reference sequence
            // `gen_range(0..part_count)`, one draw per element in order
            use rand::Rng as _;
            let mut algo = coupe::Random { rng: random_rng(seed), part_count: parts };
            let mut reference = random_rng(seed);
            if twice {
                algo.partition(&mut scratch, ()).unwrap();
                for _ in 0..scratch.len() {
                    let _ = reference.gen_range(0..parts);
                }
            }
            algo.partition(&mut ids, ()).unwrap();
            let mut ret = Ret::Ok;
            for (i, &id) in ids.iter().enumerate() {
                let want = reference.gen_range(0..parts);
                if id != want {
                    ret = Ret::Mismatch(format!(
                        "random-sequence|element {} got id {}, the reference rng.gen_range(0..{}) sequence gives {}",
                        i, id, parts, want
                    ));
                    break;
                }
            }
            ret
        }
    };
    (ret, ids)
}

/// verdict of one pool size: (canonical word(s), oracle failure)
fn verdict(
    case: &Case,
    algo: &str,
    t: usize,
    m: usize,
    ooc: Option<&'static str>,
    res: &Caught<(Ret, Vec<usize>)>,
) -> (String, Option<(String, String)>) {
    let parts = case.parts();
    match res {
        Caught::Hang => (
            "hang".into(),
            Some((format!("hang@{} T={}", algo, t), format!("no return within {} s on a {}-thread pool", HANG_SECS, t))),
        ),
        Caught::Panic(msg) => {
            if ooc == Some("order-assert") && msg.contains("Cannot use the z-curve partition algorithm") {
                return ("rejected order-assert".into(), None);
            }
            let sig = panic_sig(&msg);
            let fail = if ooc.is_none() { Some((sig, format!("{} (T={})", msg, t))) } else { None };
            (format!("panic {}", msg), fail)
        }
        Caught::Ok((ret, ids)) => match ret {
            Ret::Ok => {
                if let Some(why) = ooc {
                    // outside the contract nothing is claimed; the line still shows what happened
                    return (format!("accepted {}", why), None);
                }
                debug_assert_eq!(ids.len(), m);
                if let Some(i) = ids.iter().position(|&x| x == usize::MAX) {
                    return (
                        "bad-ids unwritten".into(),
                        Some((
                            format!("unwritten@{}", algo),
                            format!("element {} of {} still holds usize::MAX after Ok (T={})", i, m, t),
                        )),
                    );
                }
                if let Some(i) = ids.iter().position(|&x| x >= parts) {
                    return (
                        "bad-ids out-of-range".into(),
                        Some((
                            format!("id-out-of-range@{}", algo),
                            format!("element {} got id {} but {} parts were asked for (T={})", i, ids[i], parts, t),
                        )),
                    );
                }
                ("ok".into(), None)
            }
            Ret::NotFound => {
                if matches!(case, Case::Ckk { .. }) {
                    ("notfound".into(), None)
                } else {
                    (
                        "err notfound".into(),
                        ooc.is_none().then(|| (format!("unexpected-error@{}", algo), format!("NotFound (T={})", t))),
                    )
                }
            }
            Ret::LenMismatch => {
                if ooc == Some("lenmismatch") {
                    let touched = ids.iter().any(|&x| x != usize::MAX);
                    if touched {
                        ("rejected lenmismatch after-writing".into(), None)
                    } else {
                        ("rejected lenmismatch".into(), None)
                    }
                } else {
                    (
                        "err lenmismatch".into(),
                        ooc.is_none().then(|| {
                            (format!("unexpected-error@{}", algo), format!("InputLenMismatch on matching lengths (T={})", t))
                        }),
                    )
                }
            }
            Ret::InvalidOrder => {
                if ooc == Some("invalidorder") {
                    ("rejected invalidorder".into(), None)
                } else {
                    (
                        "err invalidorder".into(),
                        ooc.is_none().then(|| {
                            (format!("unexpected-error@{}", algo), format!("InvalidOrder on an order within the maximum (T={})", t))
                        }),
                    )
                }
            }
            Ret::Mismatch(e) => {
                let mut it = e.splitn(2, '|');
                let kind = it.next().unwrap_or("mismatch");
                let what = it.next().unwrap_or("");
                (kind.to_string(), Some((format!("{}@{}", kind, algo), format!("{} (T={})", what, t))))
            }
            Ret::Other(e) => (
                format!("err {}", e),
                ooc.is_none().then(|| (format!("unexpected-error@{}", algo), format!("{} (T={})", e, t))),
            ),
        },
    }
}

// ------------------------------------------------------------------ special variants (types, contexts, tools)

use coupe::nalgebra::allocator::Allocator;
use coupe::nalgebra::{ArrayStorage, Const, DefaultAllocator, DimDiff, DimSub, ToTypenum};

/// A weight type reachable from a small non-negative integer.
trait FromSmall: Copy + Send + Sync + 'static {
    fn from_small(x: i64) -> Self;
}
macro_rules! from_small {
    ($($t:ty),*) => { $(impl FromSmall for $t { fn from_small(x: i64) -> Self { x as $t } })* };
}
from_small!(i64, i32, u32, u64, usize, f32, f64);
impl FromSmall for coupe::Real {
    fn from_small(x: i64) -> Self {
        coupe::Real::from(x as f64)
    }
}

fn conv<T: FromSmall>(w: &[i64]) -> Vec<T> {
    w.iter().map(|&x| T::from_small(x)).collect()
}

impl Wts {
    /// the weights as small integers (`None`: some weight is not one – above 2^22 the `f32` and
    /// `i32` instantiations would no longer carry the sums exactly)
    fn small_ints(&self) -> Option<Vec<i64>> {
        let v: Vec<i64> = match self {
            Wts::I(v) => v.clone(),
            Wts::F(v) => {
                if v.iter().any(|x| x.fract() != 0.0 || x.abs() > 1e15) {
                    return None;
                }
                v.iter().map(|&x| x as i64).collect()
            }
        };
        if v.iter().any(|&x| x < 0) || v.iter().sum::<i64>() >= 1 << 22 {
            return None;
        }
        Some(v)
    }
}

const WEIGHT_TYPES: usize = 7;
const WEIGHT_TYPE_NAMES: [&str; WEIGHT_TYPES] = ["i64", "i32", "u32", "u64", "usize", "f32", "f64"];

/// Instantiate `$body` with `$T` bound to the `$k`-th weight type.
macro_rules! with_weight_type {
    ($k:expr, $T:ident => $body:expr) => {
        match $k % WEIGHT_TYPES {
            0 => { type $T = i64; $body }
            1 => { type $T = i32; $body }
            2 => { type $T = u32; $body }
            3 => { type $T = u64; $body }
            4 => { type $T = usize; $body }
            5 => { type $T = f32; $body }
            _ => { type $T = f64; $body }
        }
    };
}

/// Rcb with the point container / parallel-iterator adaptor `pform` and the weight form `wform`.
fn rcb_forms<const D: usize, W>(algo: &mut coupe::Rcb, ids: &mut [usize], p: Vec<coupe::PointND<D>>, w: Vec<W>, pform: usize, wform: usize) -> Ret
where
    W: coupe::RcbWeight + 'static,
{
    macro_rules! with_w {
        ($pts:expr) => {
            match wform % 4 {
                0 => to_ret(algo.partition(ids, ($pts, w))),
                1 => to_ret(algo.partition(ids, ($pts, w.par_iter().cloned()))),
                2 => to_ret(algo.partition(ids, ($pts, w.par_iter().map(|x| *x).with_max_len(1)))),
                _ => to_ret(algo.partition(ids, ($pts, w.clone().into_par_iter().with_min_len(5)))),
            }
        };
    }
    match pform % 5 {
        0 => with_w!(p),
        1 => with_w!(p.par_iter().copied()),
        2 => with_w!(p.par_iter().map(|x| *x)),
        3 => with_w!(p.par_iter().cloned().with_min_len(7)),
        _ => with_w!(p.par_iter().cloned().with_max_len(3)),
    }
}

fn rib_forms<const D: usize, W>(algo: &mut coupe::Rib, ids: &mut [usize], p: &[coupe::PointND<D>], w: Vec<W>, wform: usize) -> Ret
where
    W: coupe::RcbWeight + 'static,
    Const<D>: DimSub<Const<1>> + ToTypenum,
    DefaultAllocator: Allocator<f64, Const<D>, Const<D>, Buffer = ArrayStorage<f64, D, D>> + Allocator<f64, DimDiff<Const<D>, Const<1>>>,
{
    match wform % 4 {
        0 => to_ret(algo.partition(ids, (p, w))),
        1 => to_ret(algo.partition(ids, (p, w.par_iter().cloned()))),
        2 => to_ret(algo.partition(ids, (p, w.par_iter().map(|x| *x).with_max_len(1)))),
        _ => to_ret(algo.partition(ids, (p, w.clone().into_par_iter().with_min_len(5)))),
    }
}

/// Greedy / Ckk: `IntoIterator` without `ExactSizeIterator` – exact and inexact size hints.
macro_rules! iter_forms {
    ($algo:expr, $ids:expr, $w:expr, $form:expr) => {{
        let w = $w;
        match $form % 8 {
            0 => $algo.partition($ids, w),
            1 => $algo.partition($ids, w.iter().copied()),
            2 => $algo.partition($ids, w.into_iter().map(|x| x)),
            3 => $algo.partition($ids, w.into_iter().filter(|_| true)),
            4 => $algo.partition($ids, w.iter().flat_map(|x| Some(*x))),
            5 => {
                let mut i = 0;
                $algo.partition(
                    $ids,
                    std::iter::from_fn(move || {
                        i += 1;
                        w.get(i - 1).copied()
                    }),
                )
            }
            6 => {
                let h = w.len() / 2;
                $algo.partition($ids, w[..h].iter().copied().chain(w[h..].iter().copied()))
            }
            _ => $algo.partition($ids, w.into_boxed_slice().into_vec().into_iter().rev().rev()),
        }
    }};
}

/// KarmarkarKarp: `IntoIterator` WITH `ExactSizeIterator`.
macro_rules! exact_iter_forms {
    ($algo:expr, $ids:expr, $w:expr, $form:expr) => {{
        let w = $w;
        match $form % 5 {
            0 => $algo.partition($ids, w),
            1 => $algo.partition($ids, w.iter().copied()),
            2 => $algo.partition($ids, w.into_iter().map(|x| x)),
            3 => $algo.partition($ids, (0..w.len()).map(|i| w[i])),
            _ => $algo.partition($ids, w.into_iter().rev().rev()),
        }
    }};
}

/// The case through another legal input type of the same `Partition` impl (`k` selects the
/// container / adaptor and the weight type). `None`: this algorithm has a single input type, or
/// the weights are not small integers.
fn call_plumb(case: Case, mut ids: Vec<usize>, k: usize) -> Option<(Ret, Vec<usize>, String)> {
    let (ret, name) = match case {
        Case::Bisect { rib, dim, iter, tol, pts, w } => {
            let wi = w.small_ints()?;
            let (pform, wform, wt) = (k % 5, (k / 5) % 4, k / 20);
            let name = format!("{}:p{}:w{}:{}", if rib { "rib" } else { "rcb" }, if rib { 0 } else { pform }, wform, WEIGHT_TYPE_NAMES[wt % WEIGHT_TYPES]);
            let mut rcb = coupe::Rcb { iter_count: iter, tolerance: tol };
            let mut ribv = coupe::Rib { iter_count: iter, tolerance: tol };
            let ret = with_weight_type!(wt, T => {
                let w: Vec<T> = conv(&wi);
                match (rib, dim) {
                    (false, 2) => rcb_forms::<2, T>(&mut rcb, &mut ids, points!(2, pts), w, pform, wform),
                    (false, _) => rcb_forms::<3, T>(&mut rcb, &mut ids, points!(3, pts), w, pform, wform),
                    (true, 2) => rib_forms::<2, T>(&mut ribv, &mut ids, &points!(2, pts), w, wform),
                    (true, _) => rib_forms::<3, T>(&mut ribv, &mut ids, &points!(3, pts), w, wform),
                }
            });
            (ret, name)
        }
        Case::Hilbert { dim, parts, order, pts, w } => {
            let mut algo = coupe::HilbertCurve { part_count: parts, order };
            let form = k % 6;
            macro_rules! go {
                ($p:expr) => {
                    match form {
                        0 => algo.partition(&mut ids, ($p, w.clone())),
                        1 => algo.partition(&mut ids, ($p, &w)),
                        2 => algo.partition(&mut ids, ($p, w.clone().into_boxed_slice())),
                        3 => algo.partition(&mut ids, ($p, std::rc::Rc::<[f64]>::from(w.clone()))),
                        4 => algo.partition(&mut ids, ($p, std::borrow::Cow::Borrowed(&w[..]))),
                        _ => algo.partition(&mut ids, ($p, std::sync::Arc::new(w.clone()).as_ref())),
                    }
                };
            }
            let r = if dim == 2 {
                let p = points!(2, pts);
                go!(&p[..])
            } else {
                let p = points!(3, pts);
                go!(&p[..])
            };
            let ret = match r {
                Ok(()) => Ret::Ok,
                Err(coupe::HilbertCurveError::InvalidOrder { .. }) => Ret::InvalidOrder,
                #[allow(unreachable_patterns)]
                Err(e) => Ret::Other(format!("{:?}", e)),
            };
            (ret, format!("hilbert:w{}", form))
        }
        Case::Greedy { parts, w } => {
            let wi = w.small_ints()?;
            let (form, wt) = (k % 8, k / 8);
            let mut algo = coupe::Greedy { part_count: parts };
            let ret = with_weight_type!(wt, T => to_ret(iter_forms!(algo, &mut ids, conv::<T>(&wi), form)));
            (ret, format!("greedy:it{}:{}", form, WEIGHT_TYPE_NAMES[wt % WEIGHT_TYPES]))
        }
        Case::Kk { parts, w } => {
            let wi = Wts::I(w).small_ints()?;
            let (form, wt) = (k % 5, (k / 5) % 6);
            let mut algo = coupe::KarmarkarKarp { part_count: parts };
            // `Ord` weights: the integer types and `coupe::Real`
            let (ret, tn) = match wt {
                0 => (to_ret(exact_iter_forms!(algo, &mut ids, conv::<i64>(&wi), form)), "i64"),
                1 => (to_ret(exact_iter_forms!(algo, &mut ids, conv::<i32>(&wi), form)), "i32"),
                2 => (to_ret(exact_iter_forms!(algo, &mut ids, conv::<u32>(&wi), form)), "u32"),
                3 => (to_ret(exact_iter_forms!(algo, &mut ids, conv::<u64>(&wi), form)), "u64"),
                4 => (to_ret(exact_iter_forms!(algo, &mut ids, conv::<usize>(&wi), form)), "usize"),
                _ => (to_ret(exact_iter_forms!(algo, &mut ids, conv::<coupe::Real>(&wi), form)), "Real"),
            };
            (ret, format!("kk:it{}:{}", form, tn))
        }
        Case::Ckk { tol, w } => {
            let wi = Wts::I(w).small_ints()?;
            let (form, wt) = (k % 8, (k / 8) % 4);
            let mut algo = coupe::CompleteKarmarkarKarp { tolerance: tol };
            // the weights are integers, so `w <= tol` agrees for the truncated and the exact bound
            let (ret, tn) = match wt {
                0 => (to_ret(iter_forms!(algo, &mut ids, conv::<i64>(&wi), form)), "i64"),
                1 => (to_ret(iter_forms!(algo, &mut ids, conv::<i32>(&wi), form)), "i32"),
                2 => (to_ret(iter_forms!(algo, &mut ids, conv::<u64>(&wi), form)), "u64"),
                _ => (to_ret(iter_forms!(algo, &mut ids, conv::<f64>(&wi), form)), "f64"),
            };
            (ret, format!("ckk:it{}:{}", form, tn))
        }
        Case::Grid { dims, iter, w } => {
            let wi = w.small_ints()?;
            let nz = |x: usize| std::num::NonZeroUsize::new(x).unwrap();
            // the thresholds are converted to the weight type (`as_()`): truncated for the integer
            // types, kept for the float types – so a type of the same class as the op's weights
            // (f32 rounds the thresholds once more: oracle only, see `run_op`)
            let k = match w {
                Wts::I(_) => k % 5,
                Wts::F(_) => 5 + k % 2,
            };
            with_weight_type!(k, T => {
                let w: Vec<T> = conv(&wi);
                if dims.len() == 2 {
                    coupe::Grid::new_2d(nz(dims[0]), nz(dims[1])).rcb(&mut ids, &w[..], iter)
                } else {
                    coupe::Grid::new_3d(nz(dims[0]), nz(dims[1]), nz(dims[2])).rcb(&mut ids, &w[..], iter)
                }
            });
            (Ret::Ok, format!("grid:{}", WEIGHT_TYPE_NAMES[k % WEIGHT_TYPES]))
        }
        _ => return None,
    };
    Some((ret, ids, name))
}

/// The case through the tools entry point: `coupe_tools::parse_algorithm("<name>,<args>")` on a
/// `Problem` whose mesh is one vertex element per point (its barycentre is the point itself) and
/// whose weight array has one criterion. `None`: the tools do not expose this algorithm.
fn call_tools(case: Case, mut ids: Vec<usize>) -> Option<(Ret, Vec<usize>)> {
    fn weights(w: &Wts) -> mesh_io::weight::Array {
        match w {
            Wts::I(v) => mesh_io::weight::Array::Integers(v.iter().map(|&x| vec![x]).collect()),
            Wts::F(v) => mesh_io::weight::Array::Floats(v.iter().map(|&x| vec![x]).collect()),
        }
    }
    fn run<const D: usize>(spec: &str, pts: Option<&[f64]>, w: mesh_io::weight::Array, ids: &mut [usize]) -> Ret
    where
        Const<D>: DimSub<Const<1>> + ToTypenum,
        DefaultAllocator: Allocator<f64, Const<D>, Const<D>, Buffer = ArrayStorage<f64, D, D>> + Allocator<f64, DimDiff<Const<D>, Const<1>>>,
    {
        let problem = match pts {
            None => coupe_tools::Problem::<D>::without_mesh(w),
            Some(p) => {
                let n = p.len() / D;
                let mesh = mesh_io::Mesh::from_raw_parts(
                    D,
                    p.to_vec(),
                    vec![0; n],
                    vec![(mesh_io::ElementType::Vertex, (0..n).collect(), vec![0; n])],
                );
                coupe_tools::Problem::<D>::new(mesh, w, coupe_tools::EdgeWeightDistribution::Uniform)
            }
        };
        match coupe_tools::parse_algorithm::<D>(spec) {
            Err(e) => Ret::Other(format!("parse_algorithm: {}", e)),
            Ok(mut algo) => {
                let mut runner = algo.to_runner(&problem);
                match runner(ids) {
                    Ok(_) => Ret::Ok,
                    Err(e) => match e.downcast_ref::<coupe::Error>() {
                        Some(coupe::Error::NotFound) => Ret::NotFound,
                        Some(coupe::Error::InputLenMismatch { .. }) => Ret::LenMismatch,
                        _ => Ret::Other(format!("{}", e)),
                    },
                }
            }
        }
    }
    let ret = match case {
        Case::Bisect { rib: false, dim, iter, tol, pts, w } => {
            let spec = format!("rcb,{},{}", iter, tol);
            if dim == 2 {
                run::<2>(&spec, Some(&pts), weights(&w), &mut ids)
            } else {
                run::<3>(&spec, Some(&pts), weights(&w), &mut ids)
            }
        }
        Case::Hilbert { dim, parts, order, pts, w } => {
            let spec = format!("hilbert,{},{}", parts, order);
            if dim == 2 {
                run::<2>(&spec, Some(&pts), weights(&Wts::F(w)), &mut ids)
            } else {
                run::<3>(&spec, Some(&pts), weights(&Wts::F(w)), &mut ids)
            }
        }
        Case::Greedy { parts, w } => run::<2>(&format!("greedy,{}", parts), None, weights(&w), &mut ids),
        // float weights reach KarmarkarKarp as `coupe::Real`
        Case::Kk { parts, w } => {
            let w = if parts % 2 == 0 { Wts::I(w) } else { Wts::F(as_f(&w)) };
            run::<3>(&format!("kk,{}", parts), None, weights(&w), &mut ids)
        }
        Case::Ckk { tol, w } => run::<2>(&format!("ckk,{}", tol), None, weights(&Wts::I(w)), &mut ids),
        Case::Random { parts, seed, .. } => {
            run::<2>(&format!("random,{},{}", parts, seed), None, mesh_io::weight::Array::Integers(Vec::new()), &mut ids)
        }
        _ => return None,
    };
    Some((ret, ids))
}

/// brute-force statement of the property on one id array (used inside the concurrent runs)
fn ids_ok(ids: &[usize], parts: usize) -> bool {
    ids.iter().all(|&x| x != usize::MAX && x < parts)
}

/// `calls` concurrent calls from one parallel loop of the current pool, alternately on the case
/// and on its element-reversed twin (two different inputs in flight at once); every result must
/// pass the oracle and – `exact` – equal the result of the same call made alone in the same pool.
fn call_many(case: Case, m: usize, calls: usize, exact: bool) -> (Ret, Vec<usize>) {
    let twin = case.reversed();
    let parts = case.parts();
    let (r_a, ids_a) = call(case.clone(), vec![usize::MAX; m], false);
    let (r_b, ids_b) = call(twin.clone(), vec![usize::MAX; m], false);
    let results: Vec<(Ret, Vec<usize>)> = (0..calls)
        .into_par_iter()
        .with_max_len(1)
        .map(|i| call(if i % 2 == 0 { case.clone() } else { twin.clone() }, vec![usize::MAX; m], false))
        .collect();
    for (i, (r, ids)) in results.into_iter().enumerate() {
        let (r0, ids0) = if i % 2 == 0 { (&r_a, &ids_a) } else { (&r_b, &ids_b) };
        if r == Ret::Ok && !ids_ok(&ids, parts) && i % 2 == 0 {
            return (r, ids); // judged by the oracle of the caller
        }
        if r != *r0 || (r == Ret::Ok && (!ids_ok(&ids, parts) || (exact && ids != *ids0))) {
            let at = (0..m).find(|&j| ids[j] != ids0[j]);
            return (
                Ret::Mismatch(format!(
                    "context-dependent|concurrent call #{} of {} ({} input) returned {:?}, alone {:?}; first differing element {:?}",
                    i, calls, if i % 2 == 0 { "the" } else { "the reversed" }, r, r0, at
                )),
                ids,
            );
        }
    }
    (r_a, ids_a)
}

#[derive(Clone, Copy, PartialEq, Debug)]
enum Reuse {
    No,
    Twice,
    Buf,
    /// weights × s (`pow2`: s is a power of two)
    WScale { pow2: bool },
    /// coordinates × s
    CScale { pow2: bool },
    /// some +0.0 weights / coordinates replaced by -0.0
    NegZero,
    /// another legal input type of the same `Partition` impl
    Plumb(usize),
    /// through `coupe_tools::parse_algorithm`
    Tools,
    /// on the global rayon pool (no `install`)
    CtxGlobal,
    /// from inside a rayon task of the pool
    CtxTask,
    /// that many concurrent calls from one parallel loop of the pool
    CtxMany(usize),
    /// member of a first-call sequence (its id hash is logged)
    Seq,
}

/// FNV-1a of an id array (sequence cases: compared between a fresh child process and this one)
fn ids_hash(ids: &[usize]) -> u64 {
    let mut h = 0xcbf29ce484222325u64;
    for &x in ids {
        for b in (x as u64).to_le_bytes() {
            h = (h ^ b as u64).wrapping_mul(0x100000001b3);
        }
    }
    h
}

static SEQ_LOG: Mutex<Vec<String>> = Mutex::new(Vec::new());

fn seq_log(line: String) {
    if let Ok(path) = std::env::var("C01_SEQ_OUT") {
        use std::io::Write as _;
        if let Ok(mut f) = std::fs::OpenOptions::new().create(true).append(true).open(path) {
            let _ = writeln!(f, "{}", line);
        }
    }
    if let Ok(mut g) = SEQ_LOG.lock() {
        g.push(line);
    }
}

/// A run of `f` under a `t`-thread pool (`t = 0`: no pool of ours, i.e. rayon's global pool) and
/// the watchdog.
fn exec_with(
    t: usize,
    f: impl FnOnce() -> (Ret, Vec<usize>) + Send + 'static,
) -> Caught<(Ret, Vec<usize>)> {
    catch_timeout(HANG_SECS, move || if t == 0 { f() } else { with_big_pool(t, f) })
}

/// `2^k` | `1e300/total` | a decimal literal → (factor, is a power of two)
fn parse_scale(spec: &str, case: &Case) -> Option<(f64, bool)> {
    if let Some(k) = spec.strip_prefix("2^") {
        let k: i32 = k.parse().ok()?;
        if k.abs() > 1000 {
            return None;
        }
        return Some((2f64.powi(k), true));
    }
    if spec == "1e300/total" {
        let t = case.f_total()?;
        return if t > 0.0 && t.is_finite() { Some((1e300 / t, false)) } else { None };
    }
    let v: f64 = spec.parse().ok()?;
    if v.is_finite() && v > 0.0 {
        Some((v, false))
    } else {
        None
    }
}

/// `4 n max|c|^2` is not finite: the sums of squares of the centred coordinates (bounding-box
/// inertia) can overflow although every coordinate is finite.
fn coords_squares_may_overflow(case: &Case) -> bool {
    match case {
        Case::Bisect { dim, pts, .. } | Case::Hilbert { dim, pts, .. } | Case::ZCurve { dim, pts, .. } | Case::Mj { dim, pts, .. } => {
            let n = (pts.len() / (*dim).max(1)).max(1) as f64;
            let m = pts.iter().fold(0.0f64, |a, &x| a.max(x.abs()));
            !(4.0 * n * m * m).is_finite()
        }
        _ => false,
    }
}

/// One run under a `t`-thread pool and the watchdog.
fn exec(case: &Case, t: usize, ids: Vec<usize>, twice: bool) -> Caught<(Ret, Vec<usize>)> {
    let c = case.clone();
    catch_timeout(HANG_SECS, move || with_big_pool(t, move || call(c, ids, twice)))
}

pub fn run_op(ctx: &mut Ctx, op: &str) {
    if ctx.hang_limit_reached() {
        return;
    }
    let mut scale_spec: Option<(&str, bool)> = None; // (spec, weights?)
    let mut negzero_spec: Option<&str> = None;
    let (mut reuse, inner) = if let Some(r) = op.strip_prefix("reuse-twice ") {
        (Reuse::Twice, r)
    } else if let Some(r) = op.strip_prefix("reuse-buf ") {
        (Reuse::Buf, r)
    } else if let Some(r) = op.strip_prefix("wscale ").or_else(|| op.strip_prefix("cscale ")) {
        let mut it = r.splitn(2, ' ');
        let spec = it.next().unwrap_or("");
        scale_spec = Some((spec, op.starts_with("wscale ")));
        (Reuse::No, it.next().unwrap_or(""))
    } else if let Some(r) = op.strip_prefix("negzero ") {
        let mut it = r.splitn(2, ' ');
        negzero_spec = it.next();
        (Reuse::NegZero, it.next().unwrap_or(""))
    } else if let Some(r) = op.strip_prefix("plumb ") {
        let mut it = r.splitn(2, ' ');
        let k = it.next().and_then(|x| x.parse().ok()).unwrap_or(0);
        (Reuse::Plumb(k), it.next().unwrap_or(""))
    } else if let Some(r) = op.strip_prefix("ctx-many ") {
        let mut it = r.splitn(2, ' ');
        let k: usize = it.next().and_then(|x| x.parse().ok()).unwrap_or(8);
        (Reuse::CtxMany(k.clamp(2, 64)), it.next().unwrap_or(""))
    } else if let Some(r) = op.strip_prefix("tools ") {
        (Reuse::Tools, r)
    } else if let Some(r) = op.strip_prefix("ctx-global ") {
        (Reuse::CtxGlobal, r)
    } else if let Some(r) = op.strip_prefix("ctx-task ") {
        (Reuse::CtxTask, r)
    } else if let Some(r) = op.strip_prefix("seq ") {
        (Reuse::Seq, r)
    } else {
        (Reuse::No, op)
    };
    let Some((case, mut ts, m)) = parse_op(inner) else {
        ctx.record(op.to_string(), "bad-op".into(), false);
        return;
    };
    if reuse == Reuse::CtxGlobal {
        // compared with a pool of ours of the global pool's size (Grid::rcb reads the size)
        ts = vec![coupe::rayon::current_num_threads().clamp(1, 64)];
    }
    let mut negzero: Option<Case> = None;
    if reuse == Reuse::NegZero {
        match negzero_spec.and_then(|sp| case.with_negzeros(sp)) {
            Some((c, flipped)) => {
                ctx.count(if flipped == 0 { "special:negzero:none-to-flip" } else if flipped % 2 == 1 { "special:negzero:odd" } else { "special:negzero:even" });
                negzero = Some(c);
            }
            None => {
                ctx.record(op.to_string(), "bad-op".into(), false);
                return;
            }
        }
    }
    // the scaled twin of a scale case
    let mut scaled: Option<Case> = None;
    if let Some((spec, weights)) = scale_spec {
        let twin = parse_scale(spec, &case).and_then(|(f, pow2)| {
            if weights {
                case.scale_weights(f).map(|c| (c, Reuse::WScale { pow2 }))
            } else {
                case.scale_coords(f).map(|c| (c, Reuse::CScale { pow2 }))
            }
        });
        match twin {
            Some((c, r)) => {
                scaled = Some(c);
                reuse = r;
            }
            None => {
                ctx.record(op.to_string(), "bad-op".into(), false);
                return;
            }
        }
    }
    let ooc_scaled = scaled.as_ref().and_then(|c| c.out_of_contract(m));
    if scaled.is_some() && ooc_scaled.is_some() {
        ctx.count("scale_twin_outside_contract");
    }
    let algo = case.algo();
    let ooc = case.out_of_contract(m);
    let n = case.n();
    let parts = case.parts();
    let mut verdicts: Vec<(usize, String)> = Vec::with_capacity(ts.len());
    let mut fails: Vec<(String, String)> = Vec::new();
    for &t in &ts {
        if hang_count(&algo) >= HANG_LIMIT {
            verdicts.push((t, "not-run hang-limit".into()));
            ctx.count("not_run_after_hangs");
            continue;
        }
        let fresh = exec(&case, t, vec![usize::MAX; m], false);
        ctx.count("pool_runs");
        ctx.count(&format!("pool_size_{:02}", t));
        let (mut v, mut f) = verdict(&case, &algo, t, m, ooc, &fresh);
        let mut hung = matches!(fresh, Caught::Hang);
        let mut plumb_exact = true;
        if reuse == Reuse::Seq {
            let h = match &fresh {
                Caught::Ok((Ret::Ok, ids)) => format!("{:016x}", ids_hash(ids)),
                _ => "-".into(),
            };
            seq_log(format!("{} T={} {} {}", algo, t, v, h));
        }
        if reuse != Reuse::No && reuse != Reuse::Seq && f.is_none() && ooc.is_none() {
            // the history run: same value twice / reused array
            let second = match reuse {
                Reuse::Twice => Some(exec(&case, t, vec![usize::MAX; m], true)),
                Reuse::WScale { .. } | Reuse::CScale { .. } => match (&scaled, ooc_scaled) {
                    (Some(c), None) => Some(exec(c, t, vec![usize::MAX; m], false)),
                    _ => None,
                },
                Reuse::NegZero => negzero.as_ref().map(|c| exec(c, t, vec![usize::MAX; m], false)),
                Reuse::Plumb(k) => {
                    let c = case.clone();
                    let name = std::sync::Arc::new(Mutex::new(None::<String>));
                    let name2 = name.clone();
                    let r = exec_with(t, move || match call_plumb(c, vec![usize::MAX; m], k) {
                        Some((r, ids, nm)) => {
                            if let Ok(mut g) = name2.lock() {
                                *g = Some(nm);
                            }
                            (r, ids)
                        }
                        None => (Ret::Other("plumb-not-applicable".into()), Vec::new()),
                    });
                    if let Some(nm) = name.lock().ok().and_then(|g| g.clone()) {
                        plumb_exact = nm != "grid:f32";
                        for part in nm.split(':').skip(1) {
                            ctx.count(&format!("plumbing:{}:{}", nm.split(':').next().unwrap_or(""), part));
                        }
                    }
                    match r {
                        Caught::Ok((Ret::Other(e), _)) if e == "plumb-not-applicable" => {
                            ctx.count("plumbing:not-applicable");
                            None
                        }
                        r => Some(r),
                    }
                }
                Reuse::Tools => {
                    let c = case.clone();
                    let r = exec_with(t, move || match call_tools(c, vec![usize::MAX; m]) {
                        Some(x) => x,
                        None => (Ret::Other("tools-not-applicable".into()), Vec::new()),
                    });
                    match r {
                        Caught::Ok((Ret::Other(e), _)) if e == "tools-not-applicable" => {
                            ctx.count("plumbing:tools-not-applicable");
                            None
                        }
                        r => Some(r),
                    }
                }
                Reuse::CtxGlobal => {
                    let c = case.clone();
                    Some(exec_with(0, move || call(c, vec![usize::MAX; m], false)))
                }
                Reuse::CtxTask => {
                    let c = case.clone();
                    Some(exec_with(t, move || {
                        let (r, _) = coupe::rayon::join(|| call(c, vec![usize::MAX; m], false), || std::hint::black_box(1usize));
                        r
                    }))
                }
                Reuse::CtxMany(calls) => {
                    let c = case.clone();
                    // MultiJagged numbers its leaves in completion order: no exact claim off one thread
                    let exact = !matches!(case, Case::Mj { .. }) || t == 1;
                    ctx.count_n("pool_runs", calls as u64 + 1);
                    Some(exec_with(t, move || call_many(c, m, calls, exact)))
                }
                Reuse::Seq | Reuse::No => None,
                _ => {
                    let pre_case = case.more_parts();
                    match exec(&pre_case, t, vec![usize::MAX; m], false) {
                        Caught::Ok((_, buf)) => Some(exec(&case, t, buf, false)),
                        // the filling run is another case of the stream's; it is not judged here
                        _ => None,
                    }
                }
            };
            ctx.count("pool_runs");
            if let Some(second) = second {
                hung |= matches!(second, Caught::Hang);
                let (v2, f2) = verdict(&case, &algo, t, m, ooc, &second);
                if f2.is_some() {
                    v = format!("{} [{:?}]", v2, reuse);
                    // a failure of the scaled twin in the regime where the SQUARES of the coordinates can
                    // overflow f64 (4 n max|c|^2 not finite) carries that regime in its signature
                    let regime = match (&reuse, &scaled) {
                        (Reuse::CScale { .. }, Some(c)) if coords_squares_may_overflow(c) => " @coords-squares-overflow",
                        _ => "",
                    };
                    let f2 = f2.map(|(sig, what)| (format!("{}{}", sig, regime), what));
                    f = f2.map(|(sig, what)| (sig, format!("{} [second run {:?} of {}]", what, reuse, op.split(" 1,").next().unwrap_or("").chars().take(40).collect::<String>())));
                } else if let (Caught::Ok((r1, ids1)), Caught::Ok((r2, ids2))) = (&fresh, &second) {
                    // same input ⇒ same output: compared where the run is deterministic (1-thread
                    // pool; sequential algorithms on any pool; not the second draw of one rng)
                    let sequential =
                        matches!(case, Case::Greedy { .. } | Case::Kk { .. } | Case::Ckk { .. } | Case::Random { .. });
                    let (comparable, word) = match reuse {
                        Reuse::Twice => ((t == 1 || sequential) && !matches!(case, Case::Random { .. }), "history"),
                        Reuse::Buf => (t == 1 || sequential, "history"),
                        // exact only for a power of two; Grid's result depends on the pool size but
                        // not on the schedule
                        Reuse::WScale { pow2 } => {
                            // products and quotients round differently in the subnormal range: there
                            // only Greedy (sums and comparisons, exact) is scale-free
                            let sub = |c: &Case| {
                                let chk = |v: &Vec<f64>| v.iter().any(|&x| x != 0.0 && x.abs() < f64::MIN_POSITIVE);
                                match c {
                                    Case::Bisect { w: Wts::F(w), .. } | Case::Grid { w: Wts::F(w), .. } => chk(w),
                                    Case::Hilbert { w, .. } | Case::Mj { w, .. } => chk(w),
                                    _ => false,
                                }
                            };
                            let subnormal = sub(&case) || scaled.as_ref().map(|c| sub(c)).unwrap_or(false);
                            // weighted_quantiles computes `(p + 1) * total / n`: the product overflows
                            // for totals above f64::MAX / part_count and the split targets become
                            // infinite (ids stay valid, the balance and scale-freedom are lost; reported
                            // as an observation): no exact claim there
                            let hil_overflow = |c: &Case| match c {
                                Case::Hilbert { parts, w, .. } => !(*parts as f64 * w.iter().sum::<f64>()).is_finite(),
                                _ => false,
                            };
                            if hil_overflow(&case) || scaled.as_ref().map(|c| hil_overflow(c)).unwrap_or(false) {
                                ctx.count("scale_not_compared:hilbert-parts-x-total-overflows");
                            }
                            let subnormal = subnormal
                                || hil_overflow(&case)
                                || scaled.as_ref().map(|c| hil_overflow(c)).unwrap_or(false);
                            (
                                pow2 && !subnormal && (t == 1 || sequential || matches!(case, Case::Grid { .. })),
                                "scale",
                            )
                        }
                        Reuse::CScale { pow2 } => (
                            pow2 && t == 1 && matches!(case, Case::Bisect { rib: false, .. } | Case::Mj { .. }),
                            "scale",
                        ),
                        Reuse::NegZero => (t == 1 || sequential || matches!(case, Case::Grid { .. }), "negzero"),
                        Reuse::Plumb(_) => {
                            (plumb_exact && (t == 1 || sequential || matches!(case, Case::Grid { .. })), "input-type")
                        }
                        Reuse::Tools => (t == 1 || sequential, "tools"),
                        Reuse::CtxGlobal | Reuse::CtxTask | Reuse::CtxMany(_) => {
                            (!matches!(case, Case::Mj { .. }) || t == 1, "context")
                        }
                        Reuse::Seq | Reuse::No => (false, ""),
                    };
                    if comparable && *r1 == Ret::Ok && *r2 == Ret::Ok {
                        ctx.count(&format!("{}_compared", if word == "history" { "reuse" } else { word }));
                        if let Some(i) = (0..m).find(|&i| ids1[i] != ids2[i]) {
                            v = format!("{}-dependent {:?}", word, reuse);
                            f = Some((
                                format!("{}-dependent@{}", word, algo),
                                format!(
                                    "element {}: id {} in the plain run, id {} in the {:?} run (T={})",
                                    i, ids1[i], ids2[i], reuse, t
                                ),
                            ));
                        }
                    } else if r1 != r2 && word == "history" {
                        v = format!("history-dependent {:?}", reuse);
                        f = Some((
                            format!("history-dependent@{}", algo),
                            format!("returned {:?} fresh but {:?} in the {:?} run (T={})", r1, r2, reuse, t),
                        ));
                    }
                }
            }
        }
        if hung {
            hang_bump(&algo);
        }
        verdicts.push((t, v));
        if let Some(f) = f {
            fails.push(f);
        }
    }
    let out = if verdicts.iter().all(|(_, v)| *v == verdicts[0].1) {
        verdicts[0].1.clone()
    } else {
        let mut s = String::from("mixed");
        for (t, v) in &verdicts {
            s.push_str(&format!(" {}:{}", t, v));
        }
        s
    };
    ctx.count(&format!("algo_{}", algo));
    ctx.count(&format!("out_{}", out.split(' ').next().unwrap_or("")));
    if ooc.is_some() {
        ctx.count("outside_contract");
    }
    if parts > n && n > 0 {
        ctx.count("shape_parts_gt_n");
    }
    match n {
        0 => ctx.count("shape_n0"),
        1 => ctx.count("shape_n1"),
        2 => ctx.count("shape_n2"),
        x if x >= 4096 => ctx.count("shape_n_ge_4096"),
        _ => {}
    }
    let nontrivial = ooc.is_none() && n >= 2 && parts >= 2;
    let mut line = public_part(op).to_string();
    match reuse {
        Reuse::Twice | Reuse::Buf => ctx.count("reuse"),
        Reuse::WScale { .. } => ctx.count("wscale"),
        Reuse::CScale { .. } => ctx.count("cscale"),
        Reuse::NegZero => ctx.count("special:negzero"),
        Reuse::Plumb(_) => ctx.count("plumbing:input-type"),
        Reuse::Tools => ctx.count("plumbing:tools-entry"),
        Reuse::CtxGlobal => ctx.count("context:global-pool"),
        Reuse::CtxTask => ctx.count("context:inside-task"),
        Reuse::CtxMany(_) => ctx.count("context:concurrent-calls"),
        Reuse::Seq => ctx.count("context:first-call-sequence"),
        Reuse::No => {}
    }
    if ooc.is_none() && n > 0 && n <= MODEL_MAX_N {
        let needs = matches!(case, Case::Bisect { rib: true, .. } | Case::Hilbert { .. } | Case::ZCurve { .. });
        if needs {
            match aux_for(&case) {
                Some(aux) => {
                    line.push_str(" => ");
                    line.push_str(&aux);
                }
                None => ctx.count("aux_missing"),
            }
        }
    }
    let idx = ctx.record(line, out, nontrivial);
    // one failure per distinct signature per op
    fails.dedup_by(|a, b| a.0 == b.0);
    for (sig, what) in fails {
        ctx.fail(idx, &sig, what);
    }
}

// ------------------------------------------------------------------ generator

const TOLS: [f64; 3] = [0.0, 0.05, 0.5];
const POINT_MODES: [&str; 8] =
    ["uniform", "duplicates", "coincident", "collinear", "clustered", "lattice", "wide", "tiny"];
const WEIGHT_MODES: [&str; 6] = ["unit", "spread", "one-heavy", "zeros", "small", "heavy-tail"];

fn frac(rng: &mut Rng, lo: i64, hi: i64) -> f64 {
    // dyadic rationals: exact in f64 and (for this range) in f32
    rng.range(lo * 64, hi * 64) as f64 / 64.0
}

/// `n` points of dimension `dim`, flattened. All finite, also after the `as f32` of Rcb.
fn gen_points(rng: &mut Rng, dim: usize, n: usize, mode: &str) -> Vec<f64> {
    let mut v = Vec::with_capacity(n * dim);
    match mode {
        "uniform" => {
            for _ in 0..n * dim {
                v.push(frac(rng, -1000, 1000));
            }
        }
        "duplicates" => {
            // few distinct sites, every site used several times
            let sites = 1 + rng.usize((n / 4).max(1));
            let pool: Vec<f64> = (0..sites * dim).map(|_| frac(rng, -50, 50)).collect();
            for _ in 0..n {
                let s = rng.usize(sites);
                v.extend_from_slice(&pool[s * dim..(s + 1) * dim]);
            }
        }
        "coincident" => {
            let p: Vec<f64> = (0..dim).map(|_| frac(rng, -5, 5)).collect();
            for _ in 0..n {
                v.extend_from_slice(&p);
            }
        }
        "collinear" => {
            // axis-parallel, diagonal or general direction; sometimes with repeated abscissae
            let kind = rng.usize(3);
            let dir: Vec<f64> = match kind {
                0 => {
                    let a = rng.usize(dim);
                    (0..dim).map(|i| if i == a { 1.0 } else { 0.0 }).collect()
                }
                1 => vec![1.0; dim],
                _ => (0..dim).map(|_| rng.range(-4, 4) as f64).collect(),
            };
            let org: Vec<f64> = (0..dim).map(|_| frac(rng, -10, 10)).collect();
            let rep = rng.chance(1, 3);
            for _ in 0..n {
                let t = if rep { rng.range(0, 6) as f64 } else { frac(rng, -100, 100) };
                for i in 0..dim {
                    v.push(org[i] + t * dir[i]);
                }
            }
        }
        "clustered" => {
            let k = 1 + rng.usize(4);
            let centres: Vec<f64> = (0..k * dim).map(|_| rng.range(-100_000, 100_000) as f64).collect();
            for _ in 0..n {
                let c = rng.usize(k);
                for i in 0..dim {
                    v.push(centres[c * dim + i] + rng.range(-512, 512) as f64 / 1_048_576.0);
                }
            }
        }
        "lattice" => {
            // integer lattice: many equal coordinates on every axis
            let side = 1 + rng.range(1, 6);
            for _ in 0..n * dim {
                v.push(rng.range(0, side) as f64);
            }
        }
        "tiny" => {
            // a box of subnormal / near-underflow width (2^order / width overflows f64: the
            // segment_to_segment hang fixed by 524abd8), around zero or around an offset
            let unit = *rng.pick(&[5e-324, 1e-310, 1e-300, 1e-292]);
            let org = if rng.chance(1, 2) { 0.0 } else { frac(rng, -3, 3) * unit * 16.0 };
            for _ in 0..n * dim {
                v.push(org + rng.range(0, 9) as f64 * unit);
            }
        }
        _ => {
            // "wide": magnitudes from 2^-20 to 2^30, both signs, a few exact zeros
            for _ in 0..n * dim {
                let e = rng.range(-20, 30) as i32;
                let mant = rng.range(-1024, 1024) as f64 / 1024.0;
                v.push(mant * 2f64.powi(e));
            }
        }
    }
    v
}

/// `n` integer weights ≥ 0 with positive total (when n > 0).
fn gen_weights(rng: &mut Rng, n: usize, mode: &str) -> Vec<i64> {
    let mut w: Vec<i64> = match mode {
        "unit" => vec![1; n],
        "spread" => (0..n).map(|_| rng.range(1, 100)).collect(),
        "one-heavy" => {
            let mut w: Vec<i64> = (0..n).map(|_| rng.range(1, 3)).collect();
            if n > 0 {
                let k = rng.usize(n);
                w[k] = 1000 * n as i64 + rng.range(0, 50);
            }
            w
        }
        "zeros" => (0..n).map(|_| if rng.chance(2, 3) { 0 } else { rng.range(1, 9) }).collect(),
        "small" => (0..n).map(|_| rng.range(0, 4)).collect(),
        _ => (0..n).map(|_| if rng.chance(1, 8) { rng.range(100, 10_000) } else { rng.range(0, 5) }).collect(),
    };
    if n > 0 && w.iter().all(|&x| x == 0) {
        let k = rng.usize(n);
        w[k] = rng.range(1, 9);
    }
    w
}

fn as_f(w: &[i64]) -> Vec<f64> {
    w.iter().map(|&x| x as f64).collect()
}

fn wts(rng: &mut Rng, w: Vec<i64>) -> Wts {
    if rng.chance(1, 2) {
        Wts::I(w)
    } else {
        Wts::F(as_f(&w))
    }
}

/// a size in 3..=max, skewed to the small end
fn gen_n(rng: &mut Rng, max: usize) -> usize {
    let r = rng.usize(100);
    let hi = if r < 45 { 20 } else if r < 80 { 100 } else { max };
    3 + rng.usize(hi.min(max).max(4) - 2)
}

/// a part count: small, around n, above n, or up to 65
fn gen_parts(ctx: &mut Ctx, n: usize) -> usize {
    if n >= 4096 {
        // large inputs: enough parts for every level of the parallel code to run
        let span = if ctx.rng.chance(1, 4) { 1000 } else { 63 };
        return 2 + ctx.rng.usize(span);
    }
    match ctx.rng.usize(6) {
        0 => 1 + ctx.rng.usize(2),
        1 | 2 => 2 + ctx.rng.usize(8),
        3 => n.saturating_sub(1).max(1) + ctx.rng.usize(3),
        4 => n + 1 + ctx.rng.usize(n + 4),
        _ => 1 + ctx.rng.usize(65),
    }
}

fn emit(ctx: &mut Ctx, case: &Case, ts: &[usize]) {
    let op = case.format(ts, None);
    run_op(ctx, &op);
}

/// Every algorithm on one geometric / weight input.
fn one_random_case(ctx: &mut Ctx, which: usize, n: usize, large: bool, ts: &[usize]) {
    let case = random_case(ctx, which, n, large);
    emit(ctx, &case, ts);
}

fn random_case(ctx: &mut Ctx, which: usize, n: usize, large: bool) -> Case {
    let pm = *ctx.rng.pick(&POINT_MODES);
    let wm = *ctx.rng.pick(&WEIGHT_MODES);
    let dim = 2 + ctx.rng.usize(2);
    let w = gen_weights(&mut ctx.rng, n, wm);
    let case = match which {
        0 | 1 => {
            let pts = gen_points(&mut ctx.rng, dim, n, pm);
            let iter = if large { 3 + ctx.rng.usize(4) } else { ctx.rng.usize(7) };
            let tol = *ctx.rng.pick(&TOLS);
            let w = wts(&mut ctx.rng, w);
            ctx.count(&format!("points_{}", pm));
            ctx.count(&format!("weights_{}", wm));
            ctx.count(&format!("iter_count_{}", iter));
            ctx.count(&format!("wtype_{}", w.tag()));
            Case::Bisect { rib: which == 1, dim, iter, tol, pts, w }
        }
        2 => {
            let pts = gen_points(&mut ctx.rng, dim, n, pm);
            let parts = gen_parts(ctx, n);
            // orders 1..=32 (2-D) / 1..=21 (3-D); order 0 (a single cell) now and then
            let max = if dim == 2 { 32 } else { 21 };
            let order = match ctx.rng.usize(10) {
                0 => 0,
                1 => max,
                2 => max - 1,
                _ => 1 + ctx.rng.usize(max as usize) as u32,
            };
            ctx.count(&format!("points_{}", pm));
            ctx.count(&format!("weights_{}", wm));
            ctx.count(&format!("hilbert{}_order_{:02}", dim, order));
            Case::Hilbert { dim, parts, order, pts, w: as_f(&w) }
        }
        3 => {
            let pts = gen_points(&mut ctx.rng, dim, n, pm);
            let parts = gen_parts(ctx, n);
            // orders 0..=12 mostly; up to the assert's maximum now and then
            let order = match ctx.rng.usize(12) {
                0 => {
                    if dim == 2 {
                        64
                    } else {
                        42
                    }
                }
                1 => 13 + ctx.rng.usize(20) as u32,
                _ => ctx.rng.usize(13) as u32,
            };
            ctx.count(&format!("points_{}", pm));
            ctx.count(&format!("zcurve_order_{}", if order <= 12 { format!("{:02}", order) } else { "13+".into() }));
            Case::ZCurve { dim, parts, order, pts }
        }
        4 => {
            let pts = gen_points(&mut ctx.rng, dim, n, pm);
            let parts = gen_parts(ctx, n);
            let max_iter = 1 + ctx.rng.usize(6);
            ctx.count(&format!("points_{}", pm));
            ctx.count(&format!("weights_{}", wm));
            ctx.count(&format!("mj_max_iter_{}", max_iter));
            Case::Mj { dim, parts, max_iter, pts, w: as_f(&w) }
        }
        5 => {
            let parts = gen_parts(ctx, n);
            let w = wts(&mut ctx.rng, w);
            ctx.count(&format!("weights_{}", wm));
            ctx.count(&format!("wtype_{}", w.tag()));
            Case::Greedy { parts, w }
        }
        6 => {
            // the list-based Kk model costs n^2 k^2: moderate sizes (the algorithm is sequential,
            // large inputs add nothing for this property)
            let n = n.min(120);
            let w = gen_weights(&mut ctx.rng, n, wm);
            let parts = gen_parts(ctx, n);
            ctx.count(&format!("weights_{}", wm));
            Case::Kk { parts, w }
        }
        7 => {
            // the search is exponential in the worst case: short vectors
            let n = n.min(3 + ctx.rng.usize(12));
            let w = gen_weights(&mut ctx.rng, n, wm);
            let tol = *ctx.rng.pick(&TOLS);
            ctx.count(&format!("weights_{}", wm));
            Case::Ckk { tol, w }
        }
        8 => {
            // grid with about n cells
            let iter = if large { 3 + ctx.rng.usize(4) } else { ctx.rng.usize(7) };
            let dims: Vec<usize> = if dim == 2 {
                let a = 1 + ctx.rng.usize(((n as f64).sqrt() as usize * 2).max(1));
                vec![a, (n / a).max(1)]
            } else {
                let s = ((n as f64).cbrt() as usize * 2).max(1);
                let a = 1 + ctx.rng.usize(s);
                let b = 1 + ctx.rng.usize(s);
                vec![a, b, (n / (a * b)).max(1)]
            };
            let cells: usize = dims.iter().product();
            let w = gen_weights(&mut ctx.rng, cells, wm);
            let w = wts(&mut ctx.rng, w);
            ctx.count(&format!("weights_{}", wm));
            ctx.count(&format!("iter_count_{}", iter));
            ctx.count(&format!("wtype_{}", w.tag()));
            Case::Grid { dims, iter, w }
        }
        _ => {
            let parts = gen_parts(ctx, n);
            Case::Random { parts, n, seed: ctx.rng.below(1 << 40) }
        }
    };
    case
}

// ------------------------------------------------------------------ large / corner / reuse streams

/// part counts around the word size and the byte range
const PARTS_CORNERS: [usize; 7] = [63, 64, 65, 128, 255, 256, 257];
const LARGE_POINT_MODES: [&str; 6] = ["uniform", "lattice", "clustered", "sorted", "sorted-blocks-4096", "sorted-blocks-8192"];

/// Points for the large stream. Besides random order: coordinate 0 ascending over the whole input
/// (`sorted`), or ascending inside blocks of 4096 / 8192 consecutive points with the blocks
/// themselves in descending order (`sorted-blocks-*`) – what a per-block reduction, a sortedness
/// shortcut or a seam between blocks would trip over.
fn gen_points_large(rng: &mut Rng, dim: usize, n: usize, mode: &str) -> Vec<f64> {
    let block = match mode {
        "sorted" => n.max(1),
        "sorted-blocks-4096" => 4096,
        "sorted-blocks-8192" => 8192,
        _ => return gen_points(rng, dim, n, mode),
    };
    let nblocks = (n + block - 1) / block.max(1);
    let mut v = Vec::with_capacity(n * dim);
    for i in 0..n {
        let b = i / block;
        v.push(((nblocks - 1 - b) * block + i % block) as f64 * 0.5);
        for c in 1..dim {
            v.push(if c == 1 { frac(rng, -100, 100) } else { (i % 7) as f64 });
        }
    }
    v
}

fn large_parts(ctx: &mut Ctx, thousands: bool) -> usize {
    match ctx.rng.usize(4) {
        0 | 1 => *ctx.rng.pick(&PARTS_CORNERS),
        2 => 2 + ctx.rng.usize(63),
        _ => {
            if thousands {
                1000 + ctx.rng.usize(4000)
            } else {
                *ctx.rng.pick(&PARTS_CORNERS)
            }
        }
    }
}

fn size_class(n: usize) -> &'static str {
    match n {
        x if x >= 131_072 => "large:n>=131072",
        x if x >= 65_536 => "large:n>=65536",
        x if x >= 16_384 => "large:n>=16384",
        x if x >= 8_192 => "large:n>=8192",
        _ => "large:n>=4096",
    }
}

/// One large case of kind `which` (the ten kinds of `random_case`) on about `n` elements.
fn large_case(ctx: &mut Ctx, which: usize, n: usize, pm: &str) -> Case {
    let dim = 2 + ctx.rng.usize(2);
    let wm = *ctx.rng.pick(&WEIGHT_MODES);
    ctx.count(&format!("large:points_{}", pm));
    match which {
        0 | 1 => {
            let pts = gen_points_large(&mut ctx.rng, dim, n, pm);
            let w = gen_weights(&mut ctx.rng, n, wm);
            let w = wts(&mut ctx.rng, w);
            Case::Bisect { rib: which == 1, dim, iter: 3 + ctx.rng.usize(6), tol: *ctx.rng.pick(&TOLS), pts, w }
        }
        2 => {
            let pts = gen_points_large(&mut ctx.rng, dim, n, pm);
            let w = gen_weights(&mut ctx.rng, n, wm);
            let order = if dim == 2 { 8 + ctx.rng.usize(25) } else { 6 + ctx.rng.usize(16) } as u32;
            // the settle loop of weighted_quantiles is quadratic in the part count
            let parts = large_parts(ctx, n <= 20_001);
            Case::Hilbert { dim, parts, order, pts, w: as_f(&w) }
        }
        3 => {
            let pts = gen_points_large(&mut ctx.rng, dim, n, pm);
            // z_curve_partition_recurse recomputes the region of every point of the input in every
            // call (quadratic for well-spread points): a shallow order bounds the number of calls
            let order = 1 + ctx.rng.usize(if dim == 2 { 5 } else { 4 }) as u32;
            let parts = large_parts(ctx, true);
            Case::ZCurve { dim, parts, order, pts }
        }
        4 => {
            let pts = gen_points_large(&mut ctx.rng, dim, n, pm);
            let w = gen_weights(&mut ctx.rng, n, wm);
            let parts = large_parts(ctx, true);
            Case::Mj { dim, parts, max_iter: 1 + ctx.rng.usize(4), pts, w: as_f(&w) }
        }
        5 => {
            let w = gen_weights(&mut ctx.rng, n, wm);
            let parts = large_parts(ctx, n <= 20_001);
            Case::Greedy { parts, w: wts(&mut ctx.rng, w) }
        }
        6 => {
            // k-way Kk keeps a k-tuple per element: moderate k, two-way above 70 001 elements
            let parts = if n > 70_001 { 2 + ctx.rng.usize(2) } else { *ctx.rng.pick(&[2usize, 3, 63, 64, 65]) };
            Case::Kk { parts, w: gen_weights(&mut ctx.rng, n, wm) }
        }
        7 => {
            // a tolerance the first leaf of the search meets (the complete search is exponential)
            let wm = *ctx.rng.pick(&["unit", "spread", "small"]);
            let w = gen_weights(&mut ctx.rng, n, wm);
            Case::Ckk { tol: *ctx.rng.pick(&[0.05, 0.5]), w }
        }
        8 => {
            // rows of 4096 / 8192 cells (numbered row by row), or sides that are no power of two
            let dims: Vec<usize> = if dim == 2 {
                let w = match ctx.rng.usize(3) {
                    0 if n >= 2 * 4096 => 4096,
                    1 if n >= 2 * 8192 => 8192,
                    _ => 200 + ctx.rng.usize(100),
                };
                vec![w, (n / w).max(1)]
            } else {
                let a = (n as f64).cbrt() as usize;
                vec![a.max(1), a + 1, (n / (a.max(1) * (a + 1))).max(1)]
            };
            let cells: usize = dims.iter().product();
            let w = gen_weights(&mut ctx.rng, cells, wm);
            Case::Grid { dims, iter: 3 + ctx.rng.usize(6), w: wts(&mut ctx.rng, w) }
        }
        _ => Case::Random { parts: large_parts(ctx, true), n, seed: ctx.rng.below(1 << 40) },
    }
}

/// LARGE stream: all twelve partitioners at sizes just above and far above 2^12 … 2^17 that are no
/// multiples of powers of two, random and block-aligned / pre-sorted inputs, varying pool sizes.
/// The oracle (linear) is applied in full; the model driver declines above MODEL_MAX_N elements.
fn large_stream(ctx: &mut Ctx) {
    let pools = [1usize, 2, 3, 16];
    let sizes: Vec<usize> = if ctx.quick() {
        vec![4097, 8193, 16_385 + 37, 20_001, 65_537 + 11, 70_001]
    } else {
        vec![4097, 8193, 16_385 + 37, 20_001, 65_537 + 11, 70_001, 131_077, 140_003]
    };
    let mut k = ctx.rng.usize(64);
    let run = |ctx: &mut Ctx, case: Case, ts: &[usize]| {
        ctx.count(size_class(case.n()));
        ctx.count("large_cases");
        emit(ctx, &case, ts);
    };
    // every kind at every size (thorough) / every kind at one size, all sizes used (quick)
    for which in 0..10usize {
        let picked: Vec<usize> = if ctx.quick() { vec![sizes[(which + k) % sizes.len()]] } else { sizes.clone() };
        for n in picked {
            k += 1;
            let pm = LARGE_POINT_MODES[k % LARGE_POINT_MODES.len()];
            let case = large_case(ctx, which, n, pm);
            let ts: Vec<usize> = pools.to_vec();
            run(ctx, case, &ts);
        }
    }
    // Grid::rcb above 65 536 cells with sides that are no powers of two
    for (i, dims) in [vec![300usize, 300], vec![45, 45, 45]].into_iter().enumerate() {
        let cells: usize = dims.iter().product();
        let wm = *ctx.rng.pick(&WEIGHT_MODES);
        let w = gen_weights(&mut ctx.rng, cells, wm);
        let case = Case::Grid { dims, iter: 4 + ctx.rng.usize(5), w: wts(&mut ctx.rng, w) };
        let _ = i;
        let ts: Vec<usize> = pools.to_vec();
        ctx.count("corner:grid-above-65536-cells");
        run(ctx, case, &ts);
    }
    // MultiJagged and Rcb on block-aligned pre-sorted coordinates
    for (i, n) in [16_385 + 37usize, 65_537 + 11].into_iter().enumerate() {
        for which in [0usize, 4] {
            let pm = if (i + which + k) % 2 == 0 { "sorted-blocks-4096" } else { "sorted-blocks-8192" };
            let case = large_case(ctx, which, n, pm);
            let ts: Vec<usize> = pools.to_vec();
            ctx.count("corner:block-aligned-presorted");
            run(ctx, case, &ts);
        }
    }
    if !ctx.quick() {
        // ZCurve with a deep order: quadratic, so 8193 points is the largest feasible size
        for dim in [2usize, 3] {
            let pts = gen_points_large(&mut ctx.rng, dim, 8193, "uniform");
            ctx.count("corner:zcurve-deep-order-8193");
            run(ctx, Case::ZCurve { dim, parts: 257, order: 12, pts }, &[1, 16]);
        }
    }
}

/// CORNER stream: part counts around 64 / 128 / 256 and in the thousands, with more and with fewer
/// elements than parts; 128 and 256 leaves for the bisections; weights at the edge of the types.
fn corner_stream(ctx: &mut Ctx, ts: &[usize]) {
    let mut all_parts: Vec<usize> = PARTS_CORNERS.to_vec();
    all_parts.extend([1000, 4099]);
    for &parts in &all_parts {
        for n in [40usize, 300 + ctx.rng.usize(40)] {
            let dim = 2 + ctx.rng.usize(2);
            let pm = *ctx.rng.pick(&POINT_MODES);
            let wm = *ctx.rng.pick(&WEIGHT_MODES);
            let pts = gen_points(&mut ctx.rng, dim, n, pm);
            let w = gen_weights(&mut ctx.rng, n, wm);
            let cases = [
                Case::Greedy { parts, w: wts(&mut ctx.rng, w.clone()) },
                Case::Kk { parts, w: w.clone() },
                Case::Mj { dim, parts, max_iter: 1 + ctx.rng.usize(4), pts: pts.clone(), w: as_f(&w) },
                Case::Hilbert { dim, parts, order: if dim == 2 { 16 } else { 10 }, pts: pts.clone(), w: as_f(&w) },
                Case::ZCurve { dim, parts, order: 1 + ctx.rng.usize(8) as u32, pts: pts.clone() },
                Case::Random { parts, n, seed: ctx.rng.below(1 << 40) },
            ];
            for c in cases {
                ctx.count(&format!("corner:parts={}", parts));
                if parts > n {
                    ctx.count("corner:parts>n");
                }
                emit(ctx, &c, ts);
            }
        }
    }
    for iter in [7usize, 8] {
        for n in [40usize, 300 + ctx.rng.usize(40)] {
            let dim = 2 + ctx.rng.usize(2);
            let pm = *ctx.rng.pick(&POINT_MODES);
            let wm = *ctx.rng.pick(&WEIGHT_MODES);
            let pts = gen_points(&mut ctx.rng, dim, n, pm);
            let w = gen_weights(&mut ctx.rng, n, wm);
            for rib in [false, true] {
                ctx.count(&format!("corner:iter_count={}", iter));
                let c = Case::Bisect { rib, dim, iter, tol: 0.05, pts: pts.clone(), w: wts(&mut ctx.rng, w.clone()) };
                emit(ctx, &c, ts);
            }
            let side = (n as f64).sqrt() as usize;
            let gw = gen_weights(&mut ctx.rng, side * side, "spread");
            ctx.count(&format!("corner:iter_count={}", iter));
            let gw = wts(&mut ctx.rng, gw);
            emit(ctx, &Case::Grid { dims: vec![side, side], iter, w: gw }, ts);
        }
    }
    // Random: part counts around and beyond 2^32 (a narrowing cast of the count), few elements
    let random_parts: [usize; 14] = [
        1 << 32,
        1 << 33,
        3 << 32,
        1 << 40,
        1 << 63,
        usize::MAX,
        (1 << 32) - 1,
        (1 << 32) + 1,
        1 << 31,
        1 << 16,
        255,
        256,
        257,
        (1 << 48) + (1 << 32),
    ];
    for &parts in &random_parts {
        let n = 1 + ctx.rng.usize(50);
        ctx.count("corner:random-huge-part-count");
        let seed = ctx.rng.below(1 << 40);
        emit(ctx, &Case::Random { parts, n, seed }, ts);
        let seed = ctx.rng.below(1 << 40);
        run_op(ctx, &format!("tools {}", Case::Random { parts, n, seed }.format(&[1], None)));
    }
    // the same for the partitioners whose cost does not grow with the count (ZCurve: chunk arithmetic
    // only) or grows linearly and stays cheap (Hilbert: one split per part; MultiJagged: one scheme
    // leaf per part, 10^6 leaves = 100 MB: thorough only). Greedy and KarmarkarKarp allocate per
    // part and scan all parts per element: their counts stop at 4099 above.
    let big: Vec<usize> = if ctx.quick() { vec![100_000] } else { vec![100_000, 1_000_000] };
    for &parts in &big {
        for dim in [2usize, 3] {
            let n = 5 + ctx.rng.usize(60);
            let pm = *ctx.rng.pick(&POINT_MODES);
            let wm = *ctx.rng.pick(&WEIGHT_MODES);
            let pts = gen_points(&mut ctx.rng, dim, n, pm);
            let w = gen_weights(&mut ctx.rng, n, wm);
            let one = [*ctx.rng.pick(&[1usize, 2, 3, 16]), 1];
            ctx.count("corner:huge-part-count");
            emit(ctx, &Case::Hilbert { dim, parts, order: if dim == 2 { 20 } else { 12 }, pts: pts.clone(), w: as_f(&w) }, &one);
            ctx.count("corner:huge-part-count");
            let max_iter = 1 + ctx.rng.usize(3);
            emit(ctx, &Case::Mj { dim, parts, max_iter, pts: pts.clone(), w: as_f(&w) }, &one[..1]);
        }
    }
    for &parts in &[100_000usize, 1_000_000, 1 << 32, (1 << 32) + 1, 1 << 40, 1 << 63, usize::MAX] {
        let dim = 2 + ctx.rng.usize(2);
        let n = 1 + ctx.rng.usize(60);
        let pm = *ctx.rng.pick(&POINT_MODES);
        let pts = gen_points(&mut ctx.rng, dim, n, pm);
        ctx.count("corner:huge-part-count");
        let order = 1 + ctx.rng.usize(8) as u32;
        emit(ctx, &Case::ZCurve { dim, parts, order, pts }, ts);
    }
    // 2^32, 2^33, 2^40 leaves for the bisections (the recursion only follows non-empty sides)
    for iter in [31usize, 32, 33, 40] {
        let dim = 2 + ctx.rng.usize(2);
        let n = 2 + ctx.rng.usize(40);
        let pm = *ctx.rng.pick(&POINT_MODES);
        let wm = *ctx.rng.pick(&WEIGHT_MODES);
        let pts = gen_points(&mut ctx.rng, dim, n, pm);
        let w = gen_weights(&mut ctx.rng, n, wm);
        for rib in [false, true] {
            ctx.count("corner:huge-part-count");
            let wv = wts(&mut ctx.rng, w.clone());
            emit(ctx, &Case::Bisect { rib, dim, iter, tol: 0.05, pts: pts.clone(), w: wv }, ts);
        }
        let gw = gen_weights(&mut ctx.rng, 6 * 7, "spread");
        let gw = wts(&mut ctx.rng, gw);
        ctx.count("corner:huge-part-count");
        emit(ctx, &Case::Grid { dims: vec![6, 7], iter, w: gw }, ts);
    }
    // weights at the edge of the types, totals still inside them (the contract's "sums that do not
    // overflow"): i64 near 2^61 (total 5·2^60 < 2^63), f64 near 2^52 (total 1.75·2^52 < 2^53, exact)
    let big_i: Vec<i64> = vec![1 << 61, (1 << 61) - 1, (1 << 60) + 5];
    let big_f: Vec<f64> = vec![(1u64 << 52) as f64, (1u64 << 51) as f64, (1u64 << 50) as f64];
    for dim in [2usize, 3] {
        let pts = gen_points(&mut ctx.rng, dim, 3, "uniform");
        let cases = [
            Case::Bisect { rib: false, dim, iter: 2, tol: 0.05, pts: pts.clone(), w: Wts::I(big_i.clone()) },
            Case::Bisect { rib: true, dim, iter: 2, tol: 0.0, pts: pts.clone(), w: Wts::F(big_f.clone()) },
            Case::Hilbert { dim, parts: 2, order: 8, pts: pts.clone(), w: big_f.clone() },
            Case::Mj { dim, parts: 3, max_iter: 2, pts: pts.clone(), w: big_f.clone() },
        ];
        for c in cases {
            ctx.count("corner:weights-near-type-range");
            emit(ctx, &c, ts);
        }
    }
    let cases = [
        Case::Greedy { parts: 2, w: Wts::I(big_i.clone()) },
        Case::Greedy { parts: 2, w: Wts::F(big_f.clone()) },
        Case::Kk { parts: 2, w: big_i.clone() },
        Case::Kk { parts: 3, w: big_i.clone() },
        Case::Ckk { tol: 0.5, w: big_i.clone() },
        Case::Grid { dims: vec![3, 1], iter: 1, w: Wts::I(big_i.clone()) },
        Case::Grid { dims: vec![1, 3, 1], iter: 2, w: Wts::F(big_f.clone()) },
    ];
    for c in cases {
        ctx.count("corner:weights-near-type-range");
        emit(ctx, &c, ts);
    }
}

const W_SCALES: [&str; 11] =
    ["1e-300", "1e-30", "1e-18", "1e-10", "1e10", "1e30", "1e300/total", "2^-60", "2^60", "5e-324", "1e-310"];
/// for the algorithms that read coordinates as `f64`; the points of these cases stay within ±1000,
/// so the squares the bounding-box inertia sums stay finite (they overflow above about 1e153)
const C_SCALES_F64: [&str; 8] = ["1e-300", "1e-150", "1e-30", "1e30", "1e100", "1e140", "2^-40", "2^40"];
/// Rcb / Rib convert to `f32`: scaled coordinates must stay finite there
const C_SCALES_F32: [&str; 6] = ["1e-300", "1e-150", "1e-30", "1e20", "2^-40", "2^40"];

fn force_f(case: &mut Case) {
    match case {
        Case::Bisect { w, .. } | Case::Greedy { w, .. } | Case::Grid { w, .. } => {
            if let Wts::I(v) = w {
                *w = Wts::F(as_f(v));
            }
        }
        _ => {}
    }
}

/// SCALE stream: the unit of the weights / of the coordinates must not matter. Every algorithm
/// taking `f64` weights at every weight scale (incl. subnormal weights), every geometric algorithm
/// at every coordinate scale; see the module doc for what is compared.
fn scale_stream(ctx: &mut Ctx, ts: &[usize]) {
    for _ in 0..ctx.budget(1, 6) {
        for which in [0usize, 1, 2, 4, 5, 8] {
            for spec in W_SCALES {
                // N6 hung on about a quarter of 100-point inputs with 5 parts: sizes around that
                let n = if ctx.rng.chance(1, 2) { 60 + ctx.rng.usize(80) } else { gen_n(&mut ctx.rng, 300) };
                let mut case = random_case(ctx, which, n, false);
                force_f(&mut case);
                ctx.count(&format!("wscale:{}", spec));
                let op = format!("wscale {} {}", spec, case.format(ts, None));
                run_op(ctx, &op);
            }
        }
        for which in [0usize, 1, 2, 3, 4] {
            let specs: &[&str] = if which <= 1 { &C_SCALES_F32 } else { &C_SCALES_F64 };
            // HUGE finite coordinates (every algorithm that takes points): beyond the f32 range and up
            // to where the squares of the coordinates overflow f64 (about 1e153) and beyond. "Finite
            // coordinates" is all the contract asks for.
            let huge: &[&str] = &["1e39", "1e150", "1e154", "1e200", "1e300"];
            for spec in specs.iter().chain(huge.iter()) {
                let n = gen_n(&mut ctx.rng, 300);
                let mut case = random_case(ctx, which, n, false);
                let pm = *ctx.rng.pick(&["uniform", "duplicates", "coincident", "collinear", "lattice"]);
                match &mut case {
                    Case::Bisect { dim, pts, .. }
                    | Case::Hilbert { dim, pts, .. }
                    | Case::ZCurve { dim, pts, .. }
                    | Case::Mj { dim, pts, .. } => *pts = gen_points(&mut ctx.rng, *dim, n, pm),
                    _ => {}
                }
                ctx.count(&format!("cscale:{}", spec));
                let op = format!("cscale {} {}", spec, case.format(ts, None));
                run_op(ctx, &op);
            }
        }
    }
}

fn set_f_weights(case: &mut Case, w: Vec<f64>) {
    match case {
        Case::Bisect { w: cw, .. } | Case::Greedy { w: cw, .. } | Case::Grid { w: cw, .. } => *cw = Wts::F(w),
        Case::Hilbert { w: cw, .. } | Case::Mj { w: cw, .. } => *cw = w,
        _ => {}
    }
}

fn set_points(ctx: &mut Ctx, case: &mut Case, f: impl Fn(&mut Rng, usize, usize) -> Vec<f64>) {
    match case {
        Case::Bisect { dim, pts, .. } | Case::Hilbert { dim, pts, .. } | Case::ZCurve { dim, pts, .. } | Case::Mj { dim, pts, .. } => {
            let n = pts.len() / *dim;
            *pts = f(&mut ctx.rng, *dim, n);
        }
        _ => {}
    }
}

/// One case of kind `which` on exactly `n` elements (grids: `n` x 1 [x 1]).
fn sized_case(ctx: &mut Ctx, which: usize, n: usize) -> Case {
    let mut case = random_case(ctx, which, n.max(3), false);
    if let Case::Grid { dims, w, .. } = &mut case {
        let d = dims.len();
        *dims = if d == 2 { vec![n, 1] } else { vec![1, n, 1] };
        let wv = gen_weights(&mut ctx.rng, n, "spread");
        *w = Wts::F(as_f(&wv));
    }
    case
}

/// SPECIAL-VALUES / PLUMBING / CONTEXT stream (see the module doc for the op prefixes).
fn special_stream(ctx: &mut Ctx) {
    let rounds = ctx.budget(1, 4);
    let t13: [usize; 2] = [1, 3];
    for _ in 0..rounds {
        // --- signed zero: as a weight …
        for which in [0usize, 1, 2, 4, 5, 8] {
            for spec in ["w1", "w2", "wall"] {
                let n = gen_n(&mut ctx.rng, 120);
                let mut case = random_case(ctx, which, n, false);
                let cells = case.n();
                let w = gen_weights(&mut ctx.rng, cells, "zeros");
                set_f_weights(&mut case, as_f(&w));
                let op = format!("negzero {} {}", spec, case.format(&t13, None));
                run_op(ctx, &op);
            }
        }
        // … and as a coordinate, between negative and positive ones (a lattice around the origin)
        for which in [0usize, 1, 2, 3, 4] {
            for spec in ["c1", "c2", "call"] {
                let n = gen_n(&mut ctx.rng, 120);
                let mut case = random_case(ctx, which, n, false);
                set_points(ctx, &mut case, |rng, dim, n| {
                    gen_points(rng, dim, n, "lattice").into_iter().map(|x| x - 2.0).collect()
                });
                let op = format!("negzero {} {}", spec, case.format(&t13, None));
                run_op(ctx, &op);
            }
        }
        // --- extreme magnitudes of f64 weights, each compared with its twin scaled by a power of two
        // into the middle of the range: totals just below overflow (total x 1.01 overflows), the
        // smallest normal number from both sides, subnormal totals
        let max = f64::MAX;
        let mp = f64::MIN_POSITIVE;
        let extremes: [(&str, Vec<f64>, &str); 4] = [
            ("total-near-overflow-3", vec![max / 2.0, 5e307, 3.9e307], "2^-600"),
            ("total-near-overflow-40", vec![4.46e306; 40], "2^-600"),
            ("around-min-normal", vec![mp, mp - 5e-324, mp + 5e-324, 2.0 * mp, 0.0, 3.0 * mp], "2^600"),
            ("subnormal-64", vec![1e-310; 64], "2^600"),
        ];
        for (name, w, spec) in &extremes {
            for which in [0usize, 1, 2, 4, 5, 8] {
                let mut case = sized_case(ctx, which, w.len());
                let mut w = w.clone();
                if which != 5 && ctx.rng.chance(1, 2) {
                    w.reverse();
                }
                set_f_weights(&mut case, w);
                ctx.count(&format!("special:weights:{}", name));
                let op = format!("wscale {} {}", spec, case.format(&t13, None));
                run_op(ctx, &op);
            }
        }
        // --- f32 collisions: coordinates distinct as f64, equal after `as f32` (Rcb / Rib convert);
        // and the edge of the f32 range on the legal side ("finite after the conversion")
        for which in [0usize, 1, 2, 3, 4] {
            let n = gen_n(&mut ctx.rng, 200);
            let mut case = random_case(ctx, which, n, false);
            set_points(ctx, &mut case, |rng, dim, n| {
                gen_points(rng, dim, n, "lattice")
                    .into_iter()
                    .map(|x| x + 1.0 + rng.range(0, 7) as f64 * 2f64.powi(-45))
                    .collect()
            });
            ctx.count("special:f32-collisions");
            emit(ctx, &case, &[1, 2, 3, 16]);
        }
        for _ in 0..2 {
            let n = gen_n(&mut ctx.rng, 60);
            let mut case = random_case(ctx, 0, n, false);
            let edge = [f32::MAX as f64, -(f32::MAX as f64), 3.0e38, 3.2e38, -3.3e38, 1e38, 0.0, 3.4028235e38];
            set_points(ctx, &mut case, |rng, dim, n| (0..n * dim).map(|_| *rng.pick(&edge)).collect());
            ctx.count("special:f32-range-edge");
            emit(ctx, &case, &[1, 2, 3, 16]);
        }
        // --- input types: every container / adaptor / weight type the impl accepts
        for which in [0usize, 1, 2, 5, 6, 7, 8] {
            for _ in 0..ctx.budget(6, 12) {
                let n = gen_n(&mut ctx.rng, 150);
                let case = random_case(ctx, which, n, false);
                let k = ctx.rng.usize(5 * 4 * 7 * 8);
                let op = format!("plumb {} {}", k, case.format(&t13, None));
                run_op(ctx, &op);
            }
        }
        // --- the tools entry point (names: rcb, hilbert, greedy, kk, ckk; random is always run through it)
        for which in [0usize, 2, 5, 6, 7] {
            for _ in 0..3 {
                let n = gen_n(&mut ctx.rng, 150);
                let case = random_case(ctx, which, n, false);
                let op = format!("tools {}", case.format(&t13, None));
                run_op(ctx, &op);
            }
        }
        // --- calling contexts
        for which in 0..10usize {
            let n = gen_n(&mut ctx.rng, 120);
            let case = random_case(ctx, which, n, false);
            run_op(ctx, &format!("ctx-global {}", case.format(&[1], None)));
            let case = random_case(ctx, which, n, false);
            run_op(ctx, &format!("ctx-task {}", case.format(&[2, 16], None)));
            let case = random_case(ctx, which, n, false);
            let calls = 8 + ctx.rng.usize(25);
            run_op(ctx, &format!("ctx-many {} {}", calls, case.format(&[4, 16], None)));
        }
    }
    first_call_sequences(ctx);
}

/// Process-level state: each sequence is run FIRST THING in a fresh child process (`replay` mode of
/// this binary) and again here, in a process that has already called everything; the id hashes of
/// the two must agree and every member must pass the oracle in both.
fn first_call_sequences(ctx: &mut Ctx) {
    // /proc/self/exe keeps working when the file of the running binary is replaced by a rebuild
    let proc_exe = std::path::PathBuf::from("/proc/self/exe");
    let exe = if proc_exe.exists() {
        proc_exe
    } else {
        match std::env::current_exe() {
            Ok(e) => e,
            Err(_) => {
                ctx.count("context:first-call-sequence:no-exe");
                return;
            }
        }
    };
    // (dimension, kind) orders; the curve orders are the maxima of each dimension, so a maximum
    // cached by the first instantiation would refuse (or mis-encode) the second
    let mut mk = |ctx: &mut Ctx, which: usize, dim: usize, n: usize| -> Case {
        let mut case = random_case(ctx, which, n, false);
        let pm = *ctx.rng.pick(&["uniform", "lattice", "clustered"]);
        let pts2 = gen_points(&mut ctx.rng, dim, n, pm);
        match &mut case {
            Case::Bisect { dim: d, pts, .. } | Case::Mj { dim: d, pts, .. } => {
                *d = dim;
                *pts = pts2;
            }
            Case::Hilbert { dim: d, pts, order, .. } => {
                *d = dim;
                *pts = pts2;
                *order = if dim == 2 { 32 } else { 21 };
            }
            Case::ZCurve { dim: d, pts, order, .. } => {
                *d = dim;
                *pts = pts2;
                *order = if dim == 2 { 64 } else { 42 };
            }
            Case::Grid { dims, w, .. } => {
                let side = 5;
                *dims = vec![side; dim];
                let cells = side.pow(dim as u32);
                let wv = gen_weights(&mut ctx.rng, cells, "spread");
                *w = if dim == 2 { Wts::I(wv) } else { Wts::F(as_f(&wv)) };
            }
            _ => {}
        }
        case
    };
    let plans: [&[(usize, usize)]; 7] = [
        &[(2, 3), (2, 2), (2, 3)],                 // Hilbert 3-D (order 21) first, then 2-D order 32
        &[(2, 2), (2, 3), (2, 2)],                 // and the other way round
        &[(3, 3), (3, 2), (3, 3)],                 // ZCurve 3-D (order 42) first, then 2-D order 64
        &[(3, 2), (3, 3)],
        &[(0, 3), (1, 2), (0, 2), (1, 3), (4, 3), (4, 2)], // Rcb / Rib / MultiJagged, 3-D first
        &[(8, 3), (8, 2), (5, 2), (6, 2), (7, 2), (9, 2)], // Grid f64 3-D, Grid i64 2-D, then the number partitioners
        &[(7, 2), (6, 2), (5, 2), (2, 2), (3, 3), (0, 2)], // the number partitioners first
    ];
    for (pi, plan) in plans.iter().enumerate() {
        let ops: Vec<String> = plan
            .iter()
            .map(|&(which, dim)| {
                let n = 20 + ctx.rng.usize(60);
                format!("seq {}", mk(ctx, which, dim, n).format(&[1], None))
            })
            .collect();
        let dir = std::env::temp_dir().join(format!("c01-seq-{}-{}-{}", std::process::id(), ctx.seed, pi));
        let _ = std::fs::create_dir_all(&dir);
        let ops_file = dir.join("ops.txt");
        let log_file = dir.join("seq.log");
        let text: String = ops.iter().map(|o| format!("C01 {}\n", o)).collect();
        let child_ok = std::fs::write(&ops_file, text).is_ok()
            && std::process::Command::new(&exe)
                .args(["replay", "C01", "--ops"])
                .arg(&ops_file)
                .arg("--out")
                .arg(dir.join("out"))
                .env("C01_SEQ_OUT", &log_file)
                .stdout(std::process::Stdio::null())
                .stderr(std::process::Stdio::null())
                .status()
                .map(|st| st.success())
                .unwrap_or(false);
        let child_log: Vec<String> =
            std::fs::read_to_string(&log_file).map(|t| t.lines().map(|l| l.to_string()).collect()).unwrap_or_default();
        // the same ops here
        let start = SEQ_LOG.lock().map(|g| g.len()).unwrap_or(0);
        let first_idx = ctx.ops.len();
        for o in &ops {
            run_op(ctx, o);
        }
        let here: Vec<String> = SEQ_LOG.lock().map(|g| g[start..].to_vec()).unwrap_or_default();
        let _ = std::fs::remove_dir_all(&dir);
        if !child_ok || child_log.len() != ops.len() {
            // the child could not be run (or died): nothing to compare; a crash on these inputs
            // would show here as well
            ctx.count("context:first-call-sequence:child-unavailable");
            if child_log.len() < ops.len() && child_ok {
                continue;
            }
        }
        for (i, (a, b)) in child_log.iter().zip(here.iter()).enumerate() {
            ctx.count("sequence_compared");
            if a != b && first_idx + i < ctx.ops.len() {
                let algo = a.split(' ').next().unwrap_or("?").to_string();
                ctx.fail(
                    first_idx + i,
                    &format!("first-call-dependent@{}", algo),
                    format!("as call #{} of a fresh process: `{}`; in this process: `{}` (sequence {})", i + 1, a, b, pi),
                );
            }
        }
    }
}

/// REUSE stream: the same algorithm value called twice, and an id array reused after a run with
/// more parts (see the module doc).
fn reuse_stream(ctx: &mut Ctx) {
    let rounds = ctx.budget(2, 12);
    for _ in 0..rounds {
        for which in 0..10usize {
            for mode in ["reuse-twice", "reuse-buf"] {
                let n = gen_n(&mut ctx.rng, 300);
                let case = random_case(ctx, which, n, false);
                let ts: &[usize] = if ctx.rng.chance(1, 2) { &[1, 3] } else { &[1, 16] };
                let op = format!("{} {}", mode, case.format(ts, None));
                run_op(ctx, &op);
            }
        }
    }
    // one large case per mode: the history must not show above the block sizes either
    for (mode, which) in [("reuse-twice", 4usize), ("reuse-buf", 0), ("reuse-buf", 5), ("reuse-twice", 8)] {
        let case = large_case(ctx, which, 8193 + 37, "sorted-blocks-4096");
        ctx.count(size_class(case.n()));
        let op = format!("{} {}", mode, case.format(&[1], None));
        run_op(ctx, &op);
    }
}

/// The small sub-space, enumerated: n ∈ {0,1,2}, every algorithm and dimension, part counts
/// 1..=4 (iteration counts 0..=2), coincident / distinct points, weights over {0,1,3} with a
/// positive total, both weight types.
fn corners(ctx: &mut Ctx, ts: &[usize]) {
    let mut count = 0usize;
    let weight_sets: [&[&[i64]]; 3] = [&[&[]], &[&[1], &[5]], &[&[1, 1], &[0, 1], &[3, 0], &[3, 1]]];
    for n in 0..=2usize {
        // point sets for n points: all coincident, or spread along one axis
        let layouts: Vec<Vec<[f64; 3]>> = match n {
            0 => vec![vec![]],
            1 => vec![vec![[0.0, 0.0, 0.0]], vec![[-2.5, 7.0, 1.0]]],
            _ => vec![
                vec![[1.0, 1.0, 1.0], [1.0, 1.0, 1.0]],
                vec![[0.0, 0.0, 0.0], [1.0, 0.0, 0.0]],
                vec![[0.0, 5.0, 0.0], [0.0, -5.0, 0.0]],
                vec![[3.0, 1.0, 2.0], [-1.0, 2.0, -2.0]],
            ],
        };
        for ws in weight_sets[n] {
            for layout in &layouts {
                for dim in [2usize, 3] {
                    let pts: Vec<f64> = layout.iter().flat_map(|p| p[..dim].to_vec()).collect();
                    for parts in 1..=4usize {
                        let iter = parts - 1; // 0..=3 → 1, 2, 4, 8 parts
                        for f in [false, true] {
                            let w = if f { Wts::F(as_f(ws)) } else { Wts::I(ws.to_vec()) };
                            for rib in [false, true] {
                                let c = Case::Bisect { rib, dim, iter, tol: TOLS[parts % 3], pts: pts.clone(), w: w.clone() };
                                emit(ctx, &c, ts);
                                count += 1;
                            }
                        }
                        let order = [1u32, 4, 12, if dim == 2 { 32 } else { 21 }][parts - 1];
                        emit(ctx, &Case::Hilbert { dim, parts, order, pts: pts.clone(), w: as_f(ws) }, ts);
                        emit(ctx, &Case::ZCurve { dim, parts, order: order.min(12) - 1, pts: pts.clone() }, ts);
                        emit(ctx, &Case::Mj { dim, parts, max_iter: 1 + parts % 3, pts: pts.clone(), w: as_f(ws) }, ts);
                        count += 3;
                    }
                }
            }
            for parts in 1..=4usize {
                emit(ctx, &Case::Greedy { parts, w: Wts::I(ws.to_vec()) }, ts);
                emit(ctx, &Case::Greedy { parts, w: Wts::F(as_f(ws)) }, ts);
                emit(ctx, &Case::Kk { parts, w: ws.to_vec() }, ts);
                emit(ctx, &Case::Ckk { tol: TOLS[parts % 3], w: ws.to_vec() }, ts);
                emit(ctx, &Case::Random { parts, n, seed: parts as u64 }, ts);
                count += 5;
                if n >= 1 {
                    // grids of n cells in every orientation
                    let shapes2: Vec<Vec<usize>> = if n == 1 { vec![vec![1, 1]] } else { vec![vec![2, 1], vec![1, 2]] };
                    let shapes3: Vec<Vec<usize>> =
                        if n == 1 { vec![vec![1, 1, 1]] } else { vec![vec![2, 1, 1], vec![1, 2, 1], vec![1, 1, 2]] };
                    for dims in shapes2.into_iter().chain(shapes3) {
                        emit(ctx, &Case::Grid { dims: dims.clone(), iter: parts - 1, w: Wts::I(ws.to_vec()) }, ts);
                        emit(ctx, &Case::Grid { dims, iter: parts - 1, w: Wts::F(as_f(ws)) }, ts);
                        count += 2;
                    }
                }
            }
        }
    }
    ctx.count_n("corner_cases", count as u64);
    ctx.notes.push(format!(
        "enumerated sub-space: n in 0..=2 x every algorithm/dimension x part counts 1..=4 (iteration counts 0..=3) x \
         coincident/distinct layouts x weights over {{0,1,3,5}} with positive total x both weight types: {} cases, each under pool sizes {:?}",
        count, ts
    ));
}

trait CountN {
    fn count_n(&mut self, key: &str, n: u64);
}

impl CountN for Ctx {
    fn count_n(&mut self, key: &str, n: u64) {
        *self.hist.entry(key.to_string()).or_insert(0) += n;
    }
}

// ------------------------------------------------------------------ FLOAT stream
//
// Two input classes whose trouble is rounding, not size or shape:
// (a) INEXACT f64 WEIGHTS (k/997, tenths, thirds, random doubles …) with ZERO-weight elements at the
//     ends of the curve / at random places and a part count of n/2 … 2n: running sums that go up
//     and come back down (`(a+b+c)-c-b-a`) need not return to the exact value, so any code that
//     believes "a prefix minus the parts it contains is >= 0" / "a prefix is <= the total" breaks;
// (b) points in the f32 SUBNORMAL range (Rcb / Rib convert to f32; halving an odd subnormal is
//     inexact): zero-width axes at an odd multiple of 2^-149, coincident points, adjacent
//     subnormals, spread subnormal lattices, the normal/subnormal border, decimal literals such
//     as 1e-44 — for every partitioner that takes points.
// The oracle is the ordinary one (no panic, no hang, ids in range). The stream draws from its own
// generator (derived from the run's seed), so the other streams see the same numbers as before.

const INEXACT_KINDS: [&str; 7] = ["k/997", "tenths", "thirds", "unit-doubles", "wide-doubles", "all-0.1", "near-third"];
const ZERO_PLACES: [&str; 6] = ["low", "low", "high", "ends", "random", "none"];
/// non-dyadic factors for `wscale` (integer weights as written, so the model predicts the case)
const INEXACT_SCALES: [&str; 6] = ["0.1", "0.001003009027081244", "0.3333333333333333", "0.7", "1e-3", "1.1"];

fn gen_inexact_weights(rng: &mut Rng, n: usize, kind: &str) -> Vec<f64> {
    let unit = |rng: &mut Rng| ((rng.next() >> 11) + 1) as f64 / (1u64 << 53) as f64;
    (0..n)
        .map(|_| match kind {
            "k/997" => rng.range(1, 999) as f64 / 997.0,
            "tenths" => rng.range(1, 99) as f64 * 0.1,
            "thirds" => rng.range(1, 30) as f64 / 3.0,
            "unit-doubles" => unit(rng),
            "wide-doubles" => unit(rng) * 2f64.powi(rng.range(-30, 30) as i32),
            "all-0.1" => 0.1,
            _ => 1.0 / 3.0 + rng.range(0, 8) as f64 * f64::EPSILON,
        })
        .collect()
}

/// Zero weights at the low end / high end / both ends of `order` (element numbers in ascending
/// order of the key the algorithm sorts by), at random places, or nowhere. The total stays positive.
fn place_zeros<T: Copy + PartialEq + Default>(rng: &mut Rng, w: &mut [T], order: &[usize], place: &str, keep: T) {
    let n = w.len();
    if n < 2 || order.len() != n {
        return;
    }
    let k = 1 + rng.usize((n / 3).max(1));
    match place {
        "low" => order.iter().take(k).for_each(|&i| w[i] = T::default()),
        "high" => order.iter().rev().take(k).for_each(|&i| w[i] = T::default()),
        "ends" => {
            order.iter().take(k).for_each(|&i| w[i] = T::default());
            order.iter().rev().take(1 + rng.usize(k)).for_each(|&i| w[i] = T::default());
        }
        "random" => {
            for i in 0..n {
                if rng.chance(1, 5) {
                    w[i] = T::default();
                }
            }
            w[rng.usize(n)] = T::default();
        }
        _ => {}
    }
    if w.iter().all(|x| *x == T::default()) {
        w[order[n / 2]] = keep;
    }
}

/// element numbers in ascending order of `key`
fn order_by<K: PartialOrd>(key: &[K]) -> Vec<usize> {
    let mut o: Vec<usize> = (0..key.len()).collect();
    o.sort_by(|&a, &b| key[a].partial_cmp(&key[b]).unwrap_or(std::cmp::Ordering::Equal));
    o
}

/// a part count between n/2 and 2n+1
fn parts_about(rng: &mut Rng, n: usize) -> usize {
    (n / 2).max(1) + rng.usize(n + n / 2 + 2)
}

/// (a) for HilbertCurve: tiny inputs, low orders, zero weights at the ends of the curve.
fn inexact_hilbert(ctx: &mut Ctx, ts: &[usize]) {
    let dim = 2 + ctx.rng.usize(2);
    let n = if ctx.rng.chance(3, 4) { 3 + ctx.rng.usize(12) } else { 15 + ctx.rng.usize(40) };
    let pm = *ctx.rng.pick(&["uniform", "uniform", "duplicates", "collinear", "clustered", "lattice", "wide"]);
    let pts = gen_points(&mut ctx.rng, dim, n, pm);
    let parts = if ctx.rng.chance(1, 8) { gen_parts(ctx, n) } else { parts_about(&mut ctx.rng, n) };
    let max = if dim == 2 { 32u32 } else { 21 };
    let order = (*ctx.rng.pick(&[1u32, 2, 2, 3, 4, 6, 8, 12, 12, 32])).min(max);
    // the curve order of the points, as the implementation computes it (read-only hook)
    let p2 = pts.clone();
    let idx: Vec<u64> = match catch(move || {
        if dim == 2 {
            coupe::verif::hilbert::indices_2d(&points!(2, p2), order as usize)
        } else {
            coupe::verif::hilbert::indices_3d(&points!(3, p2), order as usize)
        }
    }) {
        Caught::Ok(v) if v.len() == n => v,
        _ => (0..n as u64).collect(),
    };
    let ord = order_by(&idx);
    let place = *ctx.rng.pick(&ZERO_PLACES);
    ctx.count(&format!("float:hilbert:zeros-{}", place));
    if ctx.rng.chance(1, 4) {
        // integer weights as written, a non-dyadic unit through `wscale`
        let mut w: Vec<i64> = (0..n).map(|_| ctx.rng.range(1, 999)).collect();
        place_zeros(&mut ctx.rng, &mut w, &ord, place, 7);
        let spec = *ctx.rng.pick(&INEXACT_SCALES);
        ctx.count("float:hilbert:inexact-unit");
        let case = Case::Hilbert { dim, parts, order, pts, w: as_f(&w) };
        run_op(ctx, &format!("wscale {} {}", spec, case.format(ts, None)));
    } else {
        let kind = *ctx.rng.pick(&INEXACT_KINDS);
        let mut w = gen_inexact_weights(&mut ctx.rng, n, kind);
        place_zeros(&mut ctx.rng, &mut w, &ord, place, 0.1);
        ctx.count(&format!("float:hilbert:{}", kind));
        emit(ctx, &Case::Hilbert { dim, parts, order, pts, w }, ts);
    }
}

/// (a) for the other algorithms taking f64 weights (Rcb, Rib, MultiJagged, Greedy, Grid).
fn inexact_other(ctx: &mut Ctx, which: usize, ts: &[usize]) {
    let n = if ctx.rng.chance(2, 3) { 3 + ctx.rng.usize(14) } else { 17 + ctx.rng.usize(80) };
    let mut case = random_case(ctx, which, n, false);
    let cells = case.n();
    let kind = *ctx.rng.pick(&INEXACT_KINDS);
    let mut w = gen_inexact_weights(&mut ctx.rng, cells, kind);
    // zero weights at the ends of the first axis (points) / of the sequence
    let ord = match &case {
        Case::Bisect { dim, pts, .. } | Case::Mj { dim, pts, .. } => {
            order_by(&pts.chunks(*dim).map(|c| c[0]).collect::<Vec<f64>>())
        }
        _ => (0..cells).collect(),
    };
    let place = *ctx.rng.pick(&ZERO_PLACES);
    place_zeros(&mut ctx.rng, &mut w, &ord, place, 0.1);
    let about = parts_about(&mut ctx.rng, cells);
    match &mut case {
        Case::Mj { parts, .. } | Case::Greedy { parts, .. } => *parts = about,
        Case::Bisect { iter, .. } | Case::Grid { iter, .. } => {
            // 2^iter between n/2 and 4n
            let lg = (usize::BITS - cells.max(1).leading_zeros()) as usize;
            *iter = (lg + ctx.rng.usize(3)).saturating_sub(1).min(8);
        }
        _ => {}
    }
    set_f_weights(&mut case, w);
    ctx.count(&format!("float:inexact:{}", case.algo()));
    emit(ctx, &case, ts);
}

const F32_SUB_MODES: [&str; 8] =
    ["line", "coincident", "lattice", "decimal-line", "adjacent", "min-normal-edge", "signed", "mixed-scale"];

/// `n` points of dimension `dim` in the f32 subnormal range (|x| < 2^-126; every multiple of
/// 2^-149 is exact in f64 and converts exactly). All finite, inside the contract.
fn gen_points_f32_sub(rng: &mut Rng, dim: usize, n: usize, mode: &str) -> Vec<f64> {
    let u = 2f64.powi(-149);
    // an odd significand: tiny, anywhere in the subnormal range, just below the smallest normal
    let odd = |rng: &mut Rng| -> f64 {
        let k = match rng.usize(4) {
            0 => 1 + 2 * rng.range(0, 7),
            1 => 1 + 2 * rng.range(0, (1 << 22) - 1),
            2 => (1 << 23) - 1 - 2 * rng.range(0, 3),
            _ => rng.range(1, (1 << 23) - 1),
        };
        let s = if rng.chance(1, 4) { -1.0 } else { 1.0 };
        s * k as f64 * u
    };
    let mut v = Vec::with_capacity(n * dim);
    match mode {
        "line" => {
            // one (or two) axes of zero width at an odd subnormal; the others spread, in the
            // subnormal range or in the ordinary one
            let a = rng.usize(dim);
            let b = if rng.chance(1, 3) { rng.usize(dim) } else { a };
            let shared: Vec<f64> = (0..dim).map(|_| odd(rng)).collect();
            let sub = rng.chance(1, 2);
            let rep = rng.chance(1, 3);
            for _ in 0..n {
                for i in 0..dim {
                    if i == a || (i == b && dim == 3) {
                        v.push(shared[i]);
                    } else if sub {
                        v.push(rng.range(0, if rep { 3 } else { 60 }) as f64 * u);
                    } else {
                        v.push(frac(rng, -100, 100));
                    }
                }
            }
        }
        "coincident" => {
            let mut p: Vec<f64> = (0..dim)
                .map(|_| match rng.usize(4) {
                    0 => 0.0,
                    1 => frac(rng, -5, 5),
                    _ => odd(rng),
                })
                .collect();
            let a = rng.usize(dim);
            p[a] = odd(rng);
            for _ in 0..n {
                v.extend_from_slice(&p);
            }
        }
        "lattice" => {
            let side = 1 + rng.range(1, 7);
            let step = *rng.pick(&[1.0, 1.0, 3.0, 1000.0, 1048576.0]);
            let org = if rng.chance(1, 2) { 0.0 } else { rng.range(-9, 9) as f64 * u };
            for _ in 0..n * dim {
                v.push(org + rng.range(0, side) as f64 * step * u);
            }
        }
        "decimal-line" => {
            // decimal literals: not multiples of 2^-149 as f64, rounded by the conversion
            let lits = [1e-44, 4.2e-45, 1e-45, 7e-45, 9.8e-45, 1e-40, 5e-39, 1.1e-38, -1e-44, -4.2e-45, 1.4e-45, 2.1e-45];
            let a = rng.usize(dim);
            let x = *rng.pick(&lits);
            let unit = *rng.pick(&[1e-44, 1e-45, 3e-42, 1.0]);
            for _ in 0..n {
                for i in 0..dim {
                    v.push(if i == a { x } else { rng.range(-8, 8) as f64 * unit });
                }
            }
        }
        "adjacent" => {
            // two sites per axis, neighbouring subnormals (sometimes one site: zero width)
            let base: Vec<i64> = (0..dim).map(|_| rng.range(0, (1 << 23) - 2)).collect();
            let wide: Vec<i64> = (0..dim).map(|_| rng.range(0, 2)).collect();
            for _ in 0..n {
                for i in 0..dim {
                    v.push((base[i] + rng.range(0, wide[i])) as f64 * u);
                }
            }
        }
        "min-normal-edge" => {
            for _ in 0..n * dim {
                v.push(((1i64 << 23) + rng.range(-3, 3)) as f64 * u);
            }
        }
        "signed" => {
            for _ in 0..n * dim {
                v.push(rng.range(-5, 5) as f64 * u);
            }
        }
        _ => {
            // "mixed-scale": one axis of zero width at an odd subnormal, one far below f32 (all
            // +-0 after the conversion), the third ordinary
            let x = odd(rng);
            for _ in 0..n {
                for i in 0..dim {
                    v.push(match i {
                        0 => x,
                        1 => rng.range(-9, 9) as f64 * 1e-300,
                        _ => frac(rng, -10, 10),
                    });
                }
            }
        }
    }
    v
}

/// (b) every partitioner that takes points on point sets in the f32 subnormal range.
fn f32_subnormal_points(ctx: &mut Ctx, which: usize, mode: &str, ts: &[usize]) {
    let n = if ctx.rng.chance(2, 3) { 2 + ctx.rng.usize(14) } else { 16 + ctx.rng.usize(120) };
    let mut case = random_case(ctx, which, n.max(3), false);
    match &mut case {
        Case::Bisect { dim, pts, iter, .. } => {
            *pts = gen_points_f32_sub(&mut ctx.rng, *dim, n.max(3), mode);
            *iter = 1 + ctx.rng.usize(5);
        }
        Case::Hilbert { dim, pts, .. } | Case::ZCurve { dim, pts, .. } | Case::Mj { dim, pts, .. } => {
            *pts = gen_points_f32_sub(&mut ctx.rng, *dim, n.max(3), mode);
        }
        _ => {}
    }
    ctx.count(&format!("float:f32-subnormal:{}", mode));
    ctx.count(&format!("float:f32-subnormal@{}", case.algo()));
    emit(ctx, &case, ts);
}

fn float_stream(ctx: &mut Ctx) {
    let own = Rng::new(ctx.seed ^ 0xC01F_10A7_5EED_0001);
    let saved = std::mem::replace(&mut ctx.rng, own);
    let t1: [usize; 1] = [1];
    let t13: [usize; 2] = [1, 3];
    let t4: [usize; 4] = [1, 2, 3, 16];
    // (a) HilbertCurve: the bulk on one thread (the trigger is arithmetic), every 16th under four pools
    let bulk = ctx.budget(6000, 40_000);
    for i in 0..bulk {
        inexact_hilbert(ctx, if i % 16 == 0 { &t4 } else { &t1 });
    }
    for i in 0..ctx.budget(60, 600) {
        for which in [0usize, 1, 4, 5, 8] {
            inexact_other(ctx, which, if i % 4 == 0 { &t4 } else { &t13 });
        }
    }
    // (b) the f32 subnormal range: Rcb / Rib (the f32 readers) more often than the f64 readers
    for i in 0..ctx.budget(6, 40) {
        for mode in F32_SUB_MODES {
            for which in [0usize, 0, 1, 1, 2, 3, 4] {
                f32_subnormal_points(ctx, which, mode, if i % 3 == 0 { &t4 } else { &t13 });
            }
        }
    }
    ctx.rng = saved;
}

pub fn generate(ctx: &mut Ctx) {
    let ts: Vec<usize> = if ctx.quick() { vec![1, 2, 3, 16] } else { (1..=16).collect() };
    ctx.notes.push(format!(
        "every case is run once per rayon pool size in {:?} on an id array pre-filled with usize::MAX, each run under a {} s watchdog; \
         'evaluations' counts cases, 'pool_runs' in the distribution counts implementation runs",
        ts, HANG_SECS
    ));

    // 1. the enumerated corners
    corners(ctx, &ts);

    // 1b. FLOAT stream: inexact f64 weights with zero-weight elements and about as many parts as
    //     elements; point sets in the f32 subnormal range (own generator, see float_stream)
    float_stream(ctx);

    // 2. random cases, every algorithm in turn (ten kinds)
    let per_algo = ctx.budget(100, 800);
    let max_n = 300;
    for _ in 0..per_algo {
        for which in 0..10 {
            let n = gen_n(&mut ctx.rng, max_n);
            one_random_case(ctx, which, n, false, &ts);
        }
    }

    // 3. inputs large enough for rayon to split the parallel iterators (with_min_len(4096) in
    //    the Rcb scan, par_sort, par_chunks …): the data-parallel algorithms only
    for _ in 0..ctx.budget(2, 12) {
        for which in [0usize, 1, 2, 3, 4, 8] {
            let mut n = 4500 + ctx.rng.usize(5000);
            if which == 3 {
                // z_curve_partition_recurse recomputes the region of *every* point in every
                // call: quadratic in n, so the large ZCurve inputs stay just above 4096
                n = 4200 + n % 600;
            }
            ctx.count("large_cases");
            one_random_case(ctx, which, n, true, &ts);
        }
    }

    // 3b. LARGE / CORNER / REUSE streams (size-gated and corner-gated code paths, object reuse)
    large_stream(ctx);
    let corner_ts: Vec<usize> = vec![1, 2, 3, 16];
    corner_stream(ctx, &corner_ts);
    reuse_stream(ctx);
    scale_stream(ctx, &corner_ts);
    special_stream(ctx);

    // 4. malformed stream (outside the contract; nothing claimed, but the refusal is recorded and
    //    compared): array length ≠ element count, curve orders above the maximum
    for _ in 0..ctx.budget(4, 30) {
        let n = 1 + ctx.rng.usize(6);
        let m = if ctx.rng.chance(1, 2) { n + 1 + ctx.rng.usize(3) } else { ctx.rng.usize(n) };
        let dim = 2 + ctx.rng.usize(2);
        let w = gen_weights(&mut ctx.rng, n, "small");
        let pts = gen_points(&mut ctx.rng, dim, n, "uniform");
        let one = [*ctx.rng.pick(&ts)];
        let cases = [
            Case::Bisect { rib: false, dim, iter: 2, tol: 0.05, pts: pts.clone(), w: Wts::I(w.clone()) },
            Case::Bisect { rib: true, dim, iter: 2, tol: 0.05, pts: pts.clone(), w: Wts::F(as_f(&w)) },
            Case::Greedy { parts: 3, w: Wts::I(w.clone()) },
            Case::Kk { parts: 3, w: w.clone() },
            Case::Ckk { tol: 0.5, w: w.clone() },
        ];
        for c in cases {
            ctx.count("malformed_len");
            let op = c.format(&one, Some(m));
            run_op(ctx, &op);
        }
        let ho = if dim == 2 { 33 } else { 22 } + ctx.rng.usize(8) as u32;
        ctx.count("malformed_order");
        emit(ctx, &Case::Hilbert { dim, parts: 2, order: ho, pts: pts.clone(), w: as_f(&w) }, &one);
        let zo = if dim == 2 { 65 } else { 43 } + ctx.rng.usize(8) as u32;
        ctx.count("malformed_order");
        emit(ctx, &Case::ZCurve { dim, parts: 2, order: zo, pts, }, &one);
    }
}
