//! C08 — the Hilbert index is a bijective, continuous curve at every accepted order;
//! the quantisation of coordinates to cells is monotone and stays in range.
//!
//! ops (integers decimal unless stated; floats as IEEE-754 binary64 bit patterns in hex):
//!   `grid2 <order>`                          all cells, x outer / y inner      -> indices
//!   `grid3 <order>`                          all cells, x outer / y / z inner  -> indices
//!   `e2 <order> <n> x1 y1 … xn yn`           -> n indices | `panic …`
//!   `e3 <order> <n> x1 y1 z1 … xn yn zn`     -> n indices | `panic …`
//!   `slow2 <order> <config> <n> z1 … zn`     -> `h1 c1 … hn cn` = encode_2d_slow(z_i, order, config) | `panic …`
//!   `pdep <n> src1 mask1 … srcn maskn` (hex) -> `a1 b1 … an bn` (hex), a = pdep_u64, b = pdep_u64_fallback
//!   `seg <order> <min> <max> <n> v1 … vn`    -> n cell numbers = segment_to_segment(min,max,order)(v_i)
//!                                               | `panic …` | `hang`
//!
//! Oracle (on the implementation's output only): bijectivity, unit steps and the
//! parent law on the exhaustive grids; index range, parent law (fresh call one
//! order lower) and injectivity on the sampled cells; table-driven = slow encoder;
//! hardware pdep = fallback = naive pdep; quantisation without panic/hang on valid
//! finite input, within `0..=2^order-1`, monotone, `min -> 0`.

use crate::common::*;
use coupe::verif::hilbert as hk;

/// orders `HilbertCurve` accepts
const MAX2: usize = 32;
const MAX3: usize = 21;
/// largest exhaustive grids a `grid2`/`grid3` op may ask for (same limits in the driver)
const GRID2_MAX: usize = 11;
const GRID3_MAX: usize = 7;

// ------------------------------------------------------------------ helpers

fn low_mask(o: usize) -> u64 {
    if o >= 64 {
        u64::MAX
    } else {
        (1u64 << o) - 1
    }
}

fn count_n(ctx: &mut Ctx, key: &str, n: u64) {
    *ctx.hist.entry(key.to_string()).or_insert(0) += n;
}

/// naive pdep: deposit the low bits of `src` at the set bits of `mask`, low to high
fn pdep_naive(src: u64, mask: u64) -> u64 {
    let mut out = 0u64;
    let mut k = 0;
    for bit in 0..64 {
        if mask >> bit & 1 == 1 {
            if src >> k & 1 == 1 {
                out |= 1u64 << bit;
            }
            k += 1;
        }
    }
    out
}

/// z-order value -> (x, y): x = odd bits, y = even bits
fn deinterleave2(z: u64) -> (u64, u64) {
    let (mut x, mut y) = (0u64, 0u64);
    for i in 0..32 {
        y |= (z >> (2 * i) & 1) << i;
        x |= (z >> (2 * i + 1) & 1) << i;
    }
    (x, y)
}

/// neighbouring representable number (towards +inf if `up`)
fn ulp_step(v: f64, up: bool) -> f64 {
    if v.is_nan() || v.is_infinite() {
        return v;
    }
    if v == 0.0 {
        let tiny = f64::from_bits(1);
        return if up { tiny } else { -tiny };
    }
    let b = v.to_bits();
    if (v > 0.0) == up {
        f64::from_bits(b + 1)
    } else {
        f64::from_bits(b - 1)
    }
}

/// `±(1 + frac) * 2^e`, `e` uniform in `emin..=emax` (normal range)
fn rand_f(rng: &mut Rng, emin: i64, emax: i64, negative: bool) -> f64 {
    let e = rng.range(emin, emax);
    let bits = (((e + 1023) as u64) << 52) | (rng.next() & ((1u64 << 52) - 1));
    let v = f64::from_bits(bits);
    if negative {
        -v
    } else {
        v
    }
}

fn rand01(rng: &mut Rng) -> f64 {
    (rng.next() >> 11) as f64 / (1u64 << 53) as f64
}

fn pow2(order: usize) -> f64 {
    (1u64 << order) as f64
}

/// does `n / width` overflow to +inf (the shape on which the `nextafter` loop cannot make progress)?
fn factor_overflows(min: f64, max: f64, order: usize) -> bool {
    let width = max - min;
    width > 0.0 && (pow2(order) / width).is_infinite()
}

// ------------------------------------------------------------------ generator

pub fn generate(ctx: &mut Ctx) {
    // ---- exhaustive grids
    let (g2, g3) = if ctx.quick() { (6usize, 4usize) } else { (9, 5) };
    for o in 1..=g2 {
        run_op(ctx, &format!("grid2 {}", o));
    }
    for o in 1..=g3 {
        run_op(ctx, &format!("grid3 {}", o));
    }
    ctx.notes.push(format!(
        "exhaustive sub-space: every cell of the 2-D grid at orders 1..={} and of the 3-D grid at orders 1..={} \
         (model = implementation on every cell; bijectivity, unit steps and parent law on the implementation's output)",
        g2, g3
    ));

    // ---- sampled cells at every accepted order
    let batches = ctx.budget(2, 192);
    for o in 1..=MAX2 {
        for _ in 0..batches {
            let cells = gen_cells2(ctx, o);
            let flat: Vec<u64> = cells.iter().flat_map(|c| [c.0, c.1]).collect();
            run_op(ctx, &format!("e2 {} {} {}", o, cells.len(), join(&flat)));
        }
    }
    let batches = ctx.budget(2, 200);
    for o in 1..=MAX3 {
        for _ in 0..batches {
            let cells = gen_cells3(ctx, o);
            let flat: Vec<u64> = cells.iter().flat_map(|c| [c.0, c.1, c.2]).collect();
            run_op(ctx, &format!("e3 {} {} {}", o, cells.len(), join(&flat)));
        }
    }

    // ---- malformed cells (one bad coordinate per op: the whole op panics)
    for i in 0..ctx.budget(8, 40) {
        let o = 1 + ctx.rng.usize(MAX2);
        let bad = match ctx.rng.usize(3) {
            0 => 1u64 << o,
            1 => (1u64 << o) + ctx.rng.below(1u64 << o),
            _ => u64::MAX,
        };
        let good = ctx.rng.next() & low_mask(o);
        let (x, y) = if i % 2 == 0 { (bad, good) } else { (good, bad) };
        ctx.count("malformed_e2");
        run_op(ctx, &format!("e2 {} 1 {} {}", o, x, y));
    }
    for i in 0..ctx.budget(9, 45) {
        let o = 1 + ctx.rng.usize(MAX3);
        let bad = match ctx.rng.usize(3) {
            0 => 1u64 << o,
            1 => (1u64 << o) + ctx.rng.below(1u64 << o),
            _ => u64::MAX,
        };
        let mut c = [ctx.rng.next() & low_mask(o), ctx.rng.next() & low_mask(o), ctx.rng.next() & low_mask(o)];
        c[i % 3] = bad;
        ctx.count("malformed_e3");
        run_op(ctx, &format!("e3 {} 1 {} {} {}", o, c[0], c[1], c[2]));
    }
    for _ in 0..2 {
        let o = 1 + ctx.rng.usize(MAX2);
        let cfg = 4 + ctx.rng.usize(4);
        let z = ctx.rng.next() & low_mask(2 * o);
        ctx.count("malformed_slow2");
        run_op(ctx, &format!("slow2 {} {} 1 {}", o, cfg, z));
    }

    // ---- slow encoder from every start configuration
    let (lines, per_line) = if ctx.quick() { (1, 64) } else { (20, 100) };
    for o in 1..=MAX2 {
        for cfg in 0..4 {
            for _ in 0..lines {
                let m = low_mask(2 * o);
                let zs: Vec<u64> = (0..per_line)
                    .map(|i| match i {
                        0 => 0,
                        1 => m,
                        2 => 0x5555_5555_5555_5555 & m,
                        3 => 0xAAAA_AAAA_AAAA_AAAA & m,
                        _ => ctx.rng.next() & m,
                    })
                    .collect();
                run_op(ctx, &format!("slow2 {} {} {} {}", o, cfg, zs.len(), join(&zs)));
            }
        }
    }

    // ---- pdep
    const M2: u64 = 0x5555_5555_5555_5555;
    const M3: u64 = 0x9249_2492_4924_9249;
    for _ in 0..ctx.budget(40, 2000) {
        let mut pairs = Vec::with_capacity(100);
        for _ in 0..50 {
            let (mask, mshape) = match ctx.rng.usize(12) {
                0 => (M2, "pdep_mask_2d_y"),
                1 => (M2 << 1, "pdep_mask_2d_x"),
                2 => (M3, "pdep_mask_3d_z"),
                3 => (M3 << 1, "pdep_mask_3d_y"),
                4 => (M3 << 2, "pdep_mask_3d_x"),
                5 => (ctx.rng.next(), "pdep_mask_random"),
                6 => (ctx.rng.next() | ctx.rng.next() | ctx.rng.next(), "pdep_mask_dense"),
                7 => (ctx.rng.next() & ctx.rng.next() & ctx.rng.next(), "pdep_mask_sparse"),
                8 => (0, "pdep_mask_zero"),
                9 => (u64::MAX, "pdep_mask_ones"),
                10 => (1u64 << ctx.rng.usize(64), "pdep_mask_single_bit"),
                _ => (low_mask(1 + ctx.rng.usize(63)) << ctx.rng.usize(8), "pdep_mask_run"),
            };
            let src = match ctx.rng.usize(5) {
                0 => ctx.rng.below(256),
                1 => u64::MAX,
                2 => ctx.rng.next() & low_mask(1 + ctx.rng.usize(32)),
                _ => ctx.rng.next(),
            };
            ctx.count(mshape);
            pairs.push(format!("{:x}", src));
            pairs.push(format!("{:x}", mask));
        }
        run_op(ctx, &format!("pdep 50 {}", pairs.join(" ")));
    }

    // ---- quantisation of coordinates
    for _ in 0..ctx.budget(400, 20000) {
        let (min, max, order, shape) = gen_interval(ctx);
        ctx.count(shape);
        let vs = gen_values(ctx, min, max, order);
        run_op(ctx, &format_seg(order, min, max, &vs));
    }
    // malformed: reversed or NaN bounds, values outside
    for i in 0..ctx.budget(12, 60) {
        let order = 1 + ctx.rng.usize(MAX2);
        let a = rand_f(&mut ctx.rng, -4, 4, false);
        let b = a + rand_f(&mut ctx.rng, -4, 4, false);
        let op = match i % 6 {
            0 => format_seg(order, b, a, &[a]),
            1 => format_seg(order, f64::NAN, b, &[a]),
            2 => format_seg(order, a, f64::NAN, &[a]),
            3 => format_seg(order, a, b, &[a, ulp_step(b, true)]),
            4 => format_seg(order, a, b, &[ulp_step(a, false), b]),
            _ => format_seg(order, a, b, &[a, f64::NAN]),
        };
        ctx.count("seg_malformed");
        run_op(ctx, &op);
    }
    // LAST: widths so small that 2^order / width overflows. Before fix 524abd8 the
    // `nextafter` loop of `segment_to_segment` could not make progress on these (it started
    // from +inf). A helper thread that hangs keeps spinning until the process exits, hence
    // a bounded number of them, generated last.
    let hangs = ctx.budget(10, 40);
    ctx.notes.push(format!(
        "seg: intervals with 0 < max - min <= 2^(order-1024) (2^order / width = +inf) are generated {} times per run only, \
         last: if the hang repaired by 524abd8 came back, each would cost the 2 s watchdog and leave a spinning thread",
        hangs
    ));
    for i in 0..hangs {
        let (min, max, order) = gen_overflowing(ctx, i);
        ctx.count("seg_shape_overflowing_factor");
        let mid = min + (max - min) / 2.0;
        let vs = if min <= mid && mid <= max { vec![min, mid, max] } else { vec![min, max] };
        run_op(ctx, &format_seg(order, min, max, &vs));
    }
}

fn special_coord(rng: &mut Rng, o: usize) -> u64 {
    let m = low_mask(o);
    match rng.usize(6) {
        0 => 0,
        1 => m,
        2 => 1u64 << rng.usize(o),
        3 => m ^ (1u64 << rng.usize(o)),
        4 => 0x5555_5555_5555_5555 & m,
        _ => 0xAAAA_AAAA_AAAA_AAAA & m,
    }
}

/// one of the top three bits of an `o`-bit coordinate
fn high_bit(rng: &mut Rng, o: usize) -> u64 {
    1u64 << (o - 1 - rng.usize(o.min(3)))
}

fn neighbour(rng: &mut Rng, c: u64, o: usize) -> u64 {
    let m = low_mask(o);
    if c == 0 {
        1
    } else if c == m {
        m - 1
    } else if rng.chance(1, 2) {
        c + 1
    } else {
        c - 1
    }
}

/// ≈ 100 cells of the 2-D grid at order `o`, every shape in every batch
fn gen_cells2(ctx: &mut Ctx, o: usize) -> Vec<(u64, u64)> {
    let m = low_mask(o);
    let rng = &mut ctx.rng;
    let mut cells = Vec::with_capacity(104);
    for _ in 0..40 {
        cells.push((rng.next() & m, rng.next() & m));
    }
    for _ in 0..12 {
        cells.push((special_coord(rng, o), special_coord(rng, o)));
    }
    cells.extend([(0, 0), (0, m), (m, 0), (m, m)]);
    for _ in 0..8 {
        // two cells that differ in one high bit only
        let c = (rng.next() & m, rng.next() & m);
        let b = high_bit(rng, o);
        cells.push(c);
        cells.push(if rng.chance(1, 2) { (c.0 ^ b, c.1) } else { (c.0, c.1 ^ b) });
    }
    for _ in 0..8 {
        let c = (rng.next() & m, rng.next() & m);
        cells.push(c);
        cells.push(if rng.chance(1, 2) { (neighbour(rng, c.0, o), c.1) } else { (c.0, neighbour(rng, c.1, o)) });
    }
    for _ in 0..4 {
        // the four children of one parent cell
        let p = (rng.next() & (m >> 1), rng.next() & (m >> 1));
        for k in 0..4u64 {
            cells.push((2 * p.0 + (k >> 1), 2 * p.1 + (k & 1)));
        }
    }
    count_n(ctx, "cells2_uniform", 40);
    count_n(ctx, "cells2_special_bits", 12);
    count_n(ctx, "cells2_corner", 4);
    count_n(ctx, "cells2_high_bit_pair", 16);
    count_n(ctx, "cells2_neighbour_pair", 16);
    count_n(ctx, "cells2_sibling_family", 16);
    cells
}

fn gen_cells3(ctx: &mut Ctx, o: usize) -> Vec<(u64, u64, u64)> {
    let m = low_mask(o);
    let rng = &mut ctx.rng;
    let mut cells = Vec::with_capacity(100);
    for _ in 0..40 {
        cells.push((rng.next() & m, rng.next() & m, rng.next() & m));
    }
    for _ in 0..12 {
        cells.push((special_coord(rng, o), special_coord(rng, o), special_coord(rng, o)));
    }
    for k in 0..8u64 {
        cells.push(((k >> 2 & 1) * m, (k >> 1 & 1) * m, (k & 1) * m));
    }
    for _ in 0..6 {
        let c = (rng.next() & m, rng.next() & m, rng.next() & m);
        let b = high_bit(rng, o);
        cells.push(c);
        cells.push(match rng.usize(3) {
            0 => (c.0 ^ b, c.1, c.2),
            1 => (c.0, c.1 ^ b, c.2),
            _ => (c.0, c.1, c.2 ^ b),
        });
    }
    for _ in 0..6 {
        let c = (rng.next() & m, rng.next() & m, rng.next() & m);
        cells.push(c);
        cells.push(match rng.usize(3) {
            0 => (neighbour(rng, c.0, o), c.1, c.2),
            1 => (c.0, neighbour(rng, c.1, o), c.2),
            _ => (c.0, c.1, neighbour(rng, c.2, o)),
        });
    }
    for _ in 0..2 {
        let p = (rng.next() & (m >> 1), rng.next() & (m >> 1), rng.next() & (m >> 1));
        for k in 0..8u64 {
            cells.push((2 * p.0 + (k >> 2 & 1), 2 * p.1 + (k >> 1 & 1), 2 * p.2 + (k & 1)));
        }
    }
    count_n(ctx, "cells3_uniform", 40);
    count_n(ctx, "cells3_special_bits", 12);
    count_n(ctx, "cells3_corner", 8);
    count_n(ctx, "cells3_high_bit_pair", 12);
    count_n(ctx, "cells3_neighbour_pair", 12);
    count_n(ctx, "cells3_sibling_family", 16);
    cells
}

fn format_seg(order: usize, min: f64, max: f64, vs: &[f64]) -> String {
    let mut s = format!("seg {} {:x} {:x} {}", order, min.to_bits(), max.to_bits(), vs.len());
    for v in vs {
        s.push_str(&format!(" {:x}", v.to_bits()));
    }
    s
}

/// A valid finite interval (min <= max), an order at which `2^order / width` stays
/// finite, and the name of the shape.
fn gen_interval(ctx: &mut Ctx) -> (f64, f64, usize, &'static str) {
    for _ in 0..200 {
        let rng = &mut ctx.rng;
        let mut order = 1 + rng.usize(MAX2);
        let (a, b, shape): (f64, f64, &'static str) = match rng.usize(20) {
            0..=3 => {
                let a = (rand01(rng) - 0.5) * 20.0;
                (a, a + rand01(rng) * 20.0, "seg_shape_unit")
            }
            4 | 5 => {
                let (sa, sb) = (rng.chance(1, 2), rng.chance(1, 2));
                let a = rand_f(rng, 990, 1022, sa);
                let b = rand_f(rng, 990, 1022, sb);
                (a, b, "seg_shape_huge")
            }
            6 | 7 => {
                // a few ulps wide
                let a = rand_f(rng, -300, 300, false);
                let b = f64::from_bits(a.to_bits() + 1 + rng.below(4096));
                if rng.chance(1, 2) {
                    (a, b, "seg_shape_tiny_width")
                } else {
                    (-b, -a, "seg_shape_tiny_width")
                }
            }
            8 | 9 => {
                let a = rand_f(rng, -10, 10, true);
                let b = rand_f(rng, -10, 10, true);
                (a, b, "seg_shape_negative")
            }
            10 | 11 => {
                let v = match rng.usize(8) {
                    0 => 0.0,
                    1 => -0.0,
                    2 => 1.0,
                    3 => -3.5,
                    4 => f64::MAX,
                    5 => f64::from_bits(1),
                    6 => {
                        let neg = rng.chance(1, 2);
                        rand_f(rng, -1022, 1023, neg)
                    }
                    _ => (rng.range(-1000, 1000)) as f64,
                };
                if v == 0.0 && rng.chance(1, 2) {
                    (-0.0, 0.0, "seg_shape_zero_width")
                } else {
                    (v, v, "seg_shape_zero_width")
                }
            }
            12 | 13 => {
                // subnormal bound(s); the order is lowered below until the factor is finite
                let sub = |rng: &mut Rng| f64::from_bits(rng.next() & ((1u64 << 52) - 1));
                match rng.usize(4) {
                    0 => (sub(rng), rand_f(rng, -1000, 0, false), "seg_shape_subnormal_bounds"),
                    1 => (-sub(rng), rand_f(rng, -1000, 0, false), "seg_shape_subnormal_bounds"),
                    2 => (rand_f(rng, -1000, 0, true), sub(rng), "seg_shape_subnormal_bounds"),
                    _ => (-sub(rng), sub(rng), "seg_shape_subnormal_bounds"),
                }
            }
            14 | 15 => {
                let a = rng.range(-1000, 1000) as f64;
                let w = (1 + rng.below(1 << 20)) as f64;
                (a, a + w, "seg_shape_integer")
            }
            16 => {
                let a = rand_f(rng, -1022, 1023, true);
                let b = rand_f(rng, -1022, 1023, false);
                (a, b, "seg_shape_mixed_exponents")
            }
            17 => {
                // max - min overflows to +inf
                let a = rand_f(rng, 1023, 1023, true);
                let b = rand_f(rng, 1023, 1023, false);
                (a, b, "seg_shape_infinite_width")
            }
            _ => {
                // width a few ulps above the overflow threshold 2^(order-1024): factor close to f64::MAX
                let e = order as i64 - 1024;
                let bits = if e >= -1022 { ((e + 1023) as u64) << 52 } else { 1u64 << (52 - (-1022 - e)) };
                let w = f64::from_bits(bits + 1 + rng.below(4));
                if rng.chance(1, 2) {
                    (0.0, w, "seg_shape_near_overflow")
                } else {
                    (-w, 0.0, "seg_shape_near_overflow")
                }
            }
        };
        let (min, max) = if a <= b { (a, b) } else { (b, a) };
        if !(min.is_finite() && max.is_finite()) {
            continue;
        }
        while order > 1 && factor_overflows(min, max, order) {
            order -= 1;
        }
        if factor_overflows(min, max, order) {
            continue;
        }
        return (min, max, order, shape);
    }
    (0.0, 1.0, 3, "seg_shape_unit")
}

/// min, max, midpoint, neighbours of the bounds, cell boundaries ± 1 ulp and
/// random interior points, sorted ascending
fn gen_values(ctx: &mut Ctx, min: f64, max: f64, order: usize) -> Vec<f64> {
    let rng = &mut ctx.rng;
    let clamp = |v: f64| {
        if v.is_nan() || v < min {
            min
        } else if v > max {
            max
        } else {
            v
        }
    };
    let lerp = |u: f64| clamp(min * (1.0 - u) + max * u);
    let cell = (max - min) / pow2(order);
    let mut vs = vec![min, max, lerp(0.5), clamp(ulp_step(min, true)), clamp(ulp_step(max, false))];
    for _ in 0..5 {
        let k = match rng.usize(4) {
            0 => 1,
            1 => (1u64 << order) - 1,
            2 => 1u64 << (order - 1),
            _ => rng.below((1u64 << order) + 1),
        };
        let g = clamp(min + k as f64 * cell);
        vs.push(g);
        vs.push(clamp(ulp_step(g, true)));
        vs.push(clamp(ulp_step(g, false)));
    }
    for _ in 0..4 {
        vs.push(lerp(rand01(rng)));
    }
    vs.sort_by(|a, b| a.total_cmp(b));
    vs
}

/// intervals on which `2^order / width` is +inf (0 < width)
fn gen_overflowing(ctx: &mut Ctx, i: usize) -> (f64, f64, usize) {
    let rng = &mut ctx.rng;
    for _ in 0..200 {
        let order = 1 + rng.usize(MAX2);
        let (min, max) = match (i + rng.usize(2)) % 4 {
            0 => {
                // normal but tiny width
                let e = order as i64 - 1025 - rng.range(0, 20);
                if e < -1022 {
                    continue;
                }
                (0.0, rand_f(rng, e, e, false))
            }
            1 => {
                // subnormal width between two subnormal bounds of opposite sign
                let a = f64::from_bits(rng.next() & ((1u64 << 40) - 1));
                let b = f64::from_bits(1 + (rng.next() & ((1u64 << 40) - 1)));
                (-a, b)
            }
            2 => {
                // exactly the threshold: 2^order / 2^(order-1024) = 2^1024
                let e = order as i64 - 1024;
                let bits = if e >= -1022 { ((e + 1023) as u64) << 52 } else { 1u64 << (52 - (-1022 - e)) };
                (0.0, f64::from_bits(bits))
            }
            _ => {
                // two neighbouring numbers near zero
                let neg = rng.chance(1, 2);
                let a = rand_f(rng, -1022, -1015, neg);
                let b = f64::from_bits(a.to_bits() + 1);
                if a < b {
                    (a, b)
                } else {
                    (b, a)
                }
            }
        };
        if min <= max && factor_overflows(min, max, order) {
            return (min, max, order);
        }
    }
    (0.0, 1e-300, 32)
}

// ------------------------------------------------------------------ runner + oracle

pub fn run_op(ctx: &mut Ctx, op: &str) {
    if ctx.hang_limit_reached() {
        return;
    }
    let toks: Vec<&str> = op.split_whitespace().collect();
    let done = match toks.first().copied() {
        Some("grid2") => run_grid(ctx, op, &toks, 2),
        Some("grid3") => run_grid(ctx, op, &toks, 3),
        Some("e2") => run_cells(ctx, op, &toks, 2),
        Some("e3") => run_cells(ctx, op, &toks, 3),
        Some("slow2") => run_slow2(ctx, op, &toks),
        Some("pdep") => run_pdep(ctx, op, &toks),
        Some("seg") => run_seg(ctx, op, &toks),
        _ => None,
    };
    if done.is_none() {
        ctx.record(op.to_string(), "bad-op".into(), false);
    }
}

fn encode(dim: usize, c: &[u64], order: usize) -> u64 {
    if dim == 2 {
        hk::encode_2d(c[0], c[1], order)
    } else {
        hk::encode_3d(c[0], c[1], c[2], order)
    }
}

/// every cell of the grid, first coordinate outermost
fn whole_grid(dim: usize, order: usize) -> Caught<Vec<u64>> {
    catch(|| {
        let side = 1u64 << order;
        let mut v = Vec::with_capacity((side as usize).pow(dim as u32));
        if dim == 2 {
            for x in 0..side {
                for y in 0..side {
                    v.push(hk::encode_2d(x, y, order));
                }
            }
        } else {
            for x in 0..side {
                for y in 0..side {
                    for z in 0..side {
                        v.push(hk::encode_3d(x, y, z, order));
                    }
                }
            }
        }
        v
    })
}

/// position in the `whole_grid` enumeration -> coordinates
fn coords(dim: usize, order: usize, pos: usize) -> [u64; 3] {
    let m = low_mask(order) as usize;
    if dim == 2 {
        [(pos >> order) as u64, (pos & m) as u64, 0]
    } else {
        [(pos >> (2 * order)) as u64, (pos >> order & m) as u64, (pos & m) as u64]
    }
}

fn run_grid(ctx: &mut Ctx, op: &str, toks: &[&str], dim: usize) -> Option<()> {
    if toks.len() != 2 {
        return None;
    }
    let order: usize = toks[1].parse().ok()?;
    if order > if dim == 2 { GRID2_MAX } else { GRID3_MAX } {
        return None;
    }
    let tag = if dim == 2 { "hilbert2" } else { "hilbert3" };
    ctx.count(&format!("grid{}_order_{:02}", dim, order));
    let idx = match whole_grid(dim, order) {
        Caught::Ok(v) => v,
        Caught::Panic(m) => {
            let i = ctx.record(op.to_string(), format!("panic {}", m), true);
            ctx.fail(i, &format!("{}-panic", tag), format!("{} [{}]", m, panic_sig(&m)));
            return Some(());
        }
        Caught::Hang => unreachable!(),
    };
    let case = ctx.record(op.to_string(), join(&idx), order >= 1);
    count_n(ctx, &format!("grid{}_cells", dim), idx.len() as u64);
    let total = idx.len();

    // bijectivity: every index below 2^(D·order), each hit exactly once
    let mut inv = vec![u32::MAX; total];
    let mut bij = true;
    for (pos, &h) in idx.iter().enumerate() {
        if h >= total as u64 {
            ctx.fail(
                case,
                &format!("{}-not-bijective", tag),
                format!("cell {:?} has index {} >= {}", &coords(dim, order, pos)[..dim], h, total),
            );
            bij = false;
            break;
        }
        if inv[h as usize] != u32::MAX {
            ctx.fail(
                case,
                &format!("{}-not-bijective", tag),
                format!(
                    "cells {:?} and {:?} share index {}",
                    &coords(dim, order, inv[h as usize] as usize)[..dim],
                    &coords(dim, order, pos)[..dim],
                    h
                ),
            );
            bij = false;
            break;
        }
        inv[h as usize] = pos as u32;
    }
    // unit steps: consecutive indices are face neighbours
    if bij {
        for h in 0..total.saturating_sub(1) {
            let a = coords(dim, order, inv[h] as usize);
            let b = coords(dim, order, inv[h + 1] as usize);
            let d: u64 = (0..3).map(|k| a[k].abs_diff(b[k])).sum();
            if d != 1 {
                ctx.fail(
                    case,
                    &format!("{}-not-continuous", tag),
                    format!("indices {} and {} are cells {:?} and {:?}", h, h + 1, &a[..dim], &b[..dim]),
                );
                break;
            }
        }
    }
    // parent law against the grid one order lower
    if order >= 2 {
        match whole_grid(dim, order - 1) {
            Caught::Ok(parent) => {
                for (pos, &h) in idx.iter().enumerate() {
                    let c = coords(dim, order, pos);
                    let ppos = (if dim == 2 {
                        ((c[0] >> 1) << (order - 1)) | (c[1] >> 1)
                    } else {
                        ((c[0] >> 1) << (2 * (order - 1))) | ((c[1] >> 1) << (order - 1)) | (c[2] >> 1)
                    }) as usize;
                    if h >> dim != parent[ppos] {
                        ctx.fail(
                            case,
                            &format!("{}-parent-law", tag),
                            format!(
                                "cell {:?} order {}: index {} >> {} != parent index {}",
                                &c[..dim],
                                order,
                                h,
                                dim,
                                parent[ppos]
                            ),
                        );
                        break;
                    }
                }
            }
            Caught::Panic(m) => ctx.fail(case, &format!("{}-panic", tag), format!("parent grid: {}", m)),
            Caught::Hang => unreachable!(),
        }
    }
    Some(())
}

fn run_cells(ctx: &mut Ctx, op: &str, toks: &[&str], dim: usize) -> Option<()> {
    if toks.len() < 3 {
        return None;
    }
    let order: usize = toks[1].parse().ok()?;
    let n: usize = toks[2].parse().ok()?;
    if toks.len() != 3 + dim * n {
        return None;
    }
    let mut flat = Vec::with_capacity(dim * n);
    for t in &toks[3..] {
        flat.push(t.parse::<u64>().ok()?);
    }
    let tag = if dim == 2 { "hilbert2" } else { "hilbert3" };
    let max_order = if dim == 2 { MAX2 } else { MAX3 };
    let valid = order >= 1 && order <= max_order && flat.iter().all(|&c| c <= low_mask(order));
    let res = catch(|| flat.chunks(dim).map(|c| encode(dim, c, order)).collect::<Vec<u64>>());
    let idx = match res {
        Caught::Ok(v) => v,
        Caught::Panic(m) => {
            let i = ctx.record(op.to_string(), format!("panic {}", m), false);
            ctx.count(&format!("e{}_panic", dim));
            if valid {
                ctx.fail(i, &format!("{}-panic", tag), format!("{} [{}]", m, panic_sig(&m)));
            }
            return Some(());
        }
        Caught::Hang => unreachable!(),
    };
    let case = ctx.record(op.to_string(), join(&idx), valid && n > 0);
    if !valid {
        // cells outside the grid / orders outside the accepted range: the property says
        // nothing about them (the model still has to predict the same output)
        return Some(());
    }
    ctx.count(&format!("e{}_order_{:02}", dim, order));
    // range
    if dim * order < 64 {
        if let Some(k) = idx.iter().position(|&h| h >> (dim * order) != 0) {
            ctx.fail(
                case,
                &format!("{}-index-range", tag),
                format!("cell {:?} order {}: index {} >= 2^{}", &flat[dim * k..dim * k + dim], order, idx[k], dim * order),
            );
        }
    }
    // parent law, with a fresh call one order lower
    if order >= 2 {
        let half: Vec<u64> = flat.iter().map(|c| c >> 1).collect();
        match catch(|| half.chunks(dim).map(|c| encode(dim, c, order - 1)).collect::<Vec<u64>>()) {
            Caught::Ok(parent) => {
                if let Some(k) = (0..n).find(|&k| idx[k] >> dim != parent[k]) {
                    ctx.fail(
                        case,
                        &format!("{}-parent-law", tag),
                        format!(
                            "cell {:?} order {}: index {:#x} >> {} != parent index {:#x}",
                            &flat[dim * k..dim * k + dim],
                            order,
                            idx[k],
                            dim,
                            parent[k]
                        ),
                    );
                }
            }
            Caught::Panic(m) => ctx.fail(case, &format!("{}-panic", tag), format!("parent cells: {}", m)),
            Caught::Hang => unreachable!(),
        }
    }
    // injectivity inside the batch
    let mut by_index: Vec<(u64, &[u64])> = idx.iter().copied().zip(flat.chunks(dim)).collect();
    by_index.sort();
    if let Some(w) = by_index.windows(2).find(|w| w[0].0 == w[1].0 && w[0].1 != w[1].1) {
        ctx.fail(
            case,
            &format!("{}-not-injective", tag),
            format!("order {}: cells {:?} and {:?} share index {:#x}", order, w[0].1, w[1].1, w[0].0),
        );
    }
    Some(())
}

fn run_slow2(ctx: &mut Ctx, op: &str, toks: &[&str]) -> Option<()> {
    if toks.len() < 4 {
        return None;
    }
    let order: usize = toks[1].parse().ok()?;
    let config: usize = toks[2].parse().ok()?;
    let n: usize = toks[3].parse().ok()?;
    if toks.len() != 4 + n {
        return None;
    }
    let mut zs = Vec::with_capacity(n);
    for t in &toks[4..] {
        zs.push(t.parse::<u64>().ok()?);
    }
    let valid = order >= 1 && order <= MAX2 && config < 4 && zs.iter().all(|&z| z <= low_mask(2 * order));
    let res = catch(|| zs.iter().map(|&z| hk::encode_2d_slow(z, order, config)).collect::<Vec<_>>());
    let out = match res {
        Caught::Ok(v) => v,
        Caught::Panic(m) => {
            let i = ctx.record(op.to_string(), format!("panic {}", m), false);
            ctx.count("slow2_panic");
            if valid {
                ctx.fail(i, "hilbert2-slow-panic", format!("{} [{}]", m, panic_sig(&m)));
            }
            return Some(());
        }
        Caught::Hang => unreachable!(),
    };
    let flat: Vec<u64> = out.iter().flat_map(|&(h, c)| [h, c as u64]).collect();
    let case = ctx.record(op.to_string(), join(&flat), valid && n > 0);
    if !valid {
        return Some(());
    }
    ctx.count(&format!("slow2_config_{}", config));
    if let Some(k) = out.iter().position(|&(_, c)| c >= 4) {
        ctx.fail(case, "hilbert2-slow-config-range", format!("z {} -> final configuration {}", zs[k], out[k].1));
    }
    // the table-driven encoder equals the slow one started in configuration 0
    let cmp = catch(|| {
        zs.iter()
            .map(|&z| {
                let (x, y) = deinterleave2(z);
                (hk::encode_2d_slow(z, order, 0).0, hk::encode_2d(x, y, order))
            })
            .collect::<Vec<_>>()
    });
    match cmp {
        Caught::Ok(v) => {
            if let Some(k) = v.iter().position(|&(s, f)| s != f) {
                let (x, y) = deinterleave2(zs[k]);
                ctx.fail(
                    case,
                    "hilbert2-fast-ne-slow",
                    format!("order {} cell ({}, {}): slow {:#x} != fast {:#x}", order, x, y, v[k].0, v[k].1),
                );
            }
        }
        Caught::Panic(m) => ctx.fail(case, "hilbert2-panic", format!("fast/slow comparison: {}", m)),
        Caught::Hang => unreachable!(),
    }
    // prefix law of the slow encoder from any start configuration
    if order >= 2 {
        match catch(|| zs.iter().map(|&z| hk::encode_2d_slow(z >> 2, order - 1, config).0).collect::<Vec<_>>()) {
            Caught::Ok(p) => {
                if let Some(k) = (0..n).find(|&k| out[k].0 >> 2 != p[k]) {
                    ctx.fail(
                        case,
                        "hilbert2-slow-parent-law",
                        format!("order {} config {} z {:#x}: {:#x} >> 2 != {:#x}", order, config, zs[k], out[k].0, p[k]),
                    );
                }
            }
            Caught::Panic(m) => ctx.fail(case, "hilbert2-slow-panic", format!("parent: {}", m)),
            Caught::Hang => unreachable!(),
        }
    }
    Some(())
}

fn run_pdep(ctx: &mut Ctx, op: &str, toks: &[&str]) -> Option<()> {
    if toks.len() < 2 {
        return None;
    }
    let n: usize = toks[1].parse().ok()?;
    if toks.len() != 2 + 2 * n {
        return None;
    }
    let mut args = Vec::with_capacity(2 * n);
    for t in &toks[2..] {
        args.push(u64::from_str_radix(t, 16).ok()?);
    }
    let res = catch(|| {
        args.chunks(2)
            .map(|p| (hk::pdep_u64(p[0], p[1]), hk::pdep_u64_fallback(p[0], p[1])))
            .collect::<Vec<_>>()
    });
    let out = match res {
        Caught::Ok(v) => v,
        Caught::Panic(m) => {
            let i = ctx.record(op.to_string(), format!("panic {}", m), false);
            ctx.fail(i, "pdep-panic", format!("{} [{}]", m, panic_sig(&m)));
            return Some(());
        }
        Caught::Hang => unreachable!(),
    };
    let text: Vec<String> = out.iter().flat_map(|&(a, b)| [format!("{:x}", a), format!("{:x}", b)]).collect();
    let case = ctx.record(op.to_string(), text.join(" "), n > 0);
    count_n(ctx, "pdep_pairs", n as u64);
    for (k, &(a, b)) in out.iter().enumerate() {
        let (src, mask) = (args[2 * k], args[2 * k + 1]);
        if a != b {
            ctx.fail(
                case,
                "pdep-hw-ne-fallback",
                format!("pdep({:#x}, {:#x}): pdep_u64 {:#x} != fallback {:#x}", src, mask, a, b),
            );
            break;
        }
        let want = pdep_naive(src, mask);
        if a != want || b != want {
            ctx.fail(
                case,
                "pdep-wrong",
                format!("pdep({:#x}, {:#x}) = {:#x} / {:#x}, expected {:#x}", src, mask, a, b, want),
            );
            break;
        }
    }
    Some(())
}

fn run_seg(ctx: &mut Ctx, op: &str, toks: &[&str]) -> Option<()> {
    if toks.len() < 5 {
        return None;
    }
    let order: usize = toks[1].parse().ok()?;
    let min = f64::from_bits(u64::from_str_radix(toks[2], 16).ok()?);
    let max = f64::from_bits(u64::from_str_radix(toks[3], 16).ok()?);
    let n: usize = toks[4].parse().ok()?;
    if toks.len() != 5 + n {
        return None;
    }
    let mut vs = Vec::with_capacity(n);
    for t in &toks[5..] {
        vs.push(f64::from_bits(u64::from_str_radix(t, 16).ok()?));
    }
    let valid = order >= 1
        && order <= MAX2
        && min.is_finite()
        && max.is_finite()
        && min <= max
        && vs.iter().all(|&v| min <= v && v <= max);
    let width = max - min;
    let nontrivial = valid && width > 0.0 && n >= 2;
    // input distribution (not part of the oracle): does the `nextafter` loop run at all?
    if valid {
        let f0 = pow2(order) / width;
        ctx.count(if f0.is_infinite() && width > 0.0 {
            "seg_factor_infinite"
        } else if pow2(order) <= width * f0 {
            "seg_loop_entered"
        } else {
            "seg_loop_not_entered"
        });
    }
    let vs2 = vs.clone();
    let res = catch_timeout(10, move || hk::segment_to_segment(min, max, order, &vs2));
    let cells = match res {
        Caught::Ok(v) => v,
        Caught::Panic(m) => {
            let i = ctx.record(op.to_string(), format!("panic {}", m), false);
            ctx.count("seg_panic");
            if valid {
                ctx.fail(i, "seg-panic", format!("{} [{}]", m, panic_sig(&m)));
            }
            return Some(());
        }
        Caught::Hang => {
            let i = ctx.record(op.to_string(), "hang".into(), nontrivial);
            ctx.count("seg_hang");
            if valid {
                ctx.fail(
                    i,
                    "seg-hang",
                    format!(
                        "segment_to_segment({:e}, {:e}, {}) does not return (width {:e}, 2^order / width = {:e})",
                        min,
                        max,
                        order,
                        width,
                        pow2(order) / width
                    ),
                );
            }
            return Some(());
        }
    };
    let case = ctx.record(op.to_string(), join(&cells), nontrivial);
    if !valid {
        return Some(());
    }
    ctx.count("seg_ok");
    let top = low_mask(order);
    if let Some(k) = cells.iter().position(|&c| c > top) {
        ctx.fail(
            case,
            "seg-range",
            format!("[{:e};{:e}] order {}: {:e} -> cell {} > {}", min, max, order, vs[k], cells[k], top),
        );
    }
    for k in 0..n.saturating_sub(1) {
        let bad = (vs[k] <= vs[k + 1] && cells[k] > cells[k + 1]) || (vs[k] >= vs[k + 1] && cells[k] < cells[k + 1]);
        if bad {
            ctx.fail(
                case,
                "seg-not-monotone",
                format!(
                    "[{:e};{:e}] order {}: {:e} -> {} but {:e} -> {}",
                    min,
                    max,
                    order,
                    vs[k],
                    cells[k],
                    vs[k + 1],
                    cells[k + 1]
                ),
            );
            break;
        }
    }
    if let Some(k) = (0..n).find(|&k| vs[k] == min && cells[k] != 0) {
        ctx.fail(case, "seg-min-not-zero", format!("[{:e};{:e}] order {}: min -> cell {}", min, max, order, cells[k]));
    }
    // distribution: is the last cell reached (the comment in the code promises max -> 2^order - 1)?
    if let Some(k) = (0..n).find(|&k| vs[k] == max) {
        ctx.count(if cells[k] == top { "seg_max_hits_last_cell" } else { "seg_max_below_last_cell" });
    }
    Some(())
}
