//! C19 — partition, weight and MEDIT mesh files round-trip losslessly.
//!
//! Ops (bytes as lower-case hex, `-` = empty; floats as hex bit patterns):
//!   penc <n> <id>*                       -> `<bytes> | <decoded>`
//!   pdec <bytes>                         -> `<decoded>`
//!   wenc <i|f> <nrows> <c> <value>*      -> `<bytes> | <decoded>`
//!   wdec <bytes>                         -> `<decoded>`
//!   mbenc <mesh>                         -> `<bytes> | bin <decoded>`
//!   maenc <mesh> <k> (<bits> <display>)* -> `<text> | tok=1 | ascii <decoded>`
//!   mdec <bytes> <k> (<token> <bits|->)* -> `<bin|ascii|other> <decoded>`
//!   plarge <n> <pat> <seed>              -> `ok n=.. len=.. fnv=..`   (LARGE stream, data derived from the seed)
//!   wlarge <i|f> <rows> <c> <pat> <seed> -> `ok <i|f> rows=.. c=.. len=.. fnv=..`
//!   mlarge <b|a> <nv> <scale> <pat> <seed> -> `ok len=.. fnv=..`
//!   mpad <nv> <scale> <seed> <kw|sweep> <lo> <hi> <step> -> `ok files=..` (ASCII files on disk, padded)
//!   mbfile <nv0> <nv1> <scale> <seed>    -> `ok files=..`             (binary files on disk)
//! <mesh> = `dim nc coords* nr refs* nb (ty nn nodes* nr refs*)*`
//! The tables of `maenc`/`mdec` carry Rust's own `Display`/`FromStr` results for the
//! float tokens (the abstract number syntax of the token-level model).
//! Oracle (independent of the model): data read == data written, bit for bit.

use crate::common::*;
use mesh_io::{medit, partition, weight, ElementType, Mesh};

// ---------------------------------------------------------------- helpers

fn hex(b: &[u8]) -> String {
    if b.is_empty() {
        return "-".into();
    }
    let mut s = String::with_capacity(b.len() * 2);
    for x in b {
        s.push_str(&format!("{:02x}", x));
    }
    s
}

fn unhex(s: &str) -> Option<Vec<u8>> {
    if s == "-" {
        return Some(vec![]);
    }
    if s.len() % 2 != 0 || !s.is_ascii() {
        return None;
    }
    (0..s.len() / 2).map(|i| u8::from_str_radix(&s[2 * i..2 * i + 2], 16).ok()).collect()
}

fn fnv(s: &str) -> u64 {
    let mut h: u64 = 0xcbf29ce484222325;
    for b in s.bytes() {
        h = (h ^ b as u64).wrapping_mul(0x100000001b3);
    }
    h
}

fn cap(s: String) -> String {
    if s.len() > 8192 {
        format!("#{} {:x}", s.len(), fnv(&s))
    } else {
        s
    }
}

const TYS: [(&str, ElementType); 7] = [
    ("v", ElementType::Vertex),
    ("e", ElementType::Edge),
    ("t", ElementType::Triangle),
    ("qa", ElementType::Quadrangle),
    ("ql", ElementType::Quadrilateral),
    ("te", ElementType::Tetrahedron),
    ("h", ElementType::Hexahedron),
];

fn ty_name(t: ElementType) -> &'static str {
    TYS.iter().find(|(_, x)| *x == t).unwrap().0
}

/// mesh data as it crosses the protocol
#[derive(Clone, PartialEq, Debug)]
struct M {
    dim: usize,
    coords: Vec<u64>,
    refs: Vec<isize>,
    blocks: Vec<(ElementType, Vec<usize>, Vec<isize>)>,
}

impl M {
    fn fmt(&self) -> String {
        let mut v: Vec<String> = vec![self.dim.to_string(), self.coords.len().to_string()];
        v.extend(self.coords.iter().map(|c| format!("{:x}", c)));
        v.push(self.refs.len().to_string());
        v.extend(self.refs.iter().map(|r| r.to_string()));
        v.push(self.blocks.len().to_string());
        for (t, n, r) in &self.blocks {
            v.push(ty_name(*t).to_string());
            v.push(n.len().to_string());
            v.extend(n.iter().map(|x| x.to_string()));
            v.push(r.len().to_string());
            v.extend(r.iter().map(|x| x.to_string()));
        }
        v.join(" ")
    }
    fn raw_parts_ok(&self) -> bool {
        self.dim != 0
            && Some(self.coords.len()) == self.dim.checked_mul(self.refs.len())
            && self.blocks.iter().all(|(t, n, r)| n.len() == r.len() * t.node_count())
    }
    fn to_mesh(&self) -> Mesh {
        Mesh::from_raw_parts(
            self.dim,
            self.coords.iter().map(|b| f64::from_bits(*b)).collect(),
            self.refs.clone(),
            self.blocks.clone(),
        )
    }
    fn of_mesh(m: &Mesh) -> M {
        M {
            dim: m.dimension(),
            coords: m.coordinates().iter().map(|c| c.to_bits()).collect(),
            refs: m.node_refs().to_vec(),
            blocks: m.topology().to_vec(),
        }
    }
}

fn take<'a, T>(it: &mut impl Iterator<Item = &'a str>, f: impl Fn(&str) -> Option<T>) -> Option<Vec<T>> {
    let n: usize = it.next()?.parse().ok()?;
    let mut v = Vec::with_capacity(n.min(1 << 20));
    for _ in 0..n {
        v.push(f(it.next()?)?);
    }
    Some(v)
}

fn parse_mesh<'a>(it: &mut impl Iterator<Item = &'a str>) -> Option<M> {
    let dim: usize = it.next()?.parse().ok()?;
    let coords = take(it, |s| u64::from_str_radix(s, 16).ok())?;
    let refs = take(it, |s| s.parse::<isize>().ok())?;
    let nb: usize = it.next()?.parse().ok()?;
    let mut blocks = vec![];
    for _ in 0..nb {
        let t = it.next()?;
        let t = TYS.iter().find(|(n, _)| *n == t)?.1;
        let nodes = take(it, |s| s.parse::<usize>().ok())?;
        let r = take(it, |s| s.parse::<isize>().ok())?;
        blocks.push((t, nodes, r));
    }
    Some(M { dim, coords, refs, blocks })
}

fn fmt_ids(r: &partition::Result<Vec<usize>>) -> String {
    match r {
        Ok(ids) => cap(if ids.is_empty() { "ok 0".into() } else { format!("ok {} {}", ids.len(), join(ids)) }),
        Err(partition::Error::BadHeader) => "err badheader".into(),
        Err(partition::Error::UnsupportedVersion) => "err version".into(),
        Err(partition::Error::Io(_)) => "err io".into(),
    }
}

fn fmt_w(r: &weight::Result<weight::Array>) -> String {
    match r {
        Ok(weight::Array::Integers(rows)) => {
            let c = rows.first().map_or(0, |r| r.len());
            let flat: Vec<i64> = rows.iter().flatten().cloned().collect();
            cap(format!("ok i {} {} {}", rows.len(), c, join(&flat)).trim_end().to_string())
        }
        Ok(weight::Array::Floats(rows)) => {
            let c = rows.first().map_or(0, |r| r.len());
            let flat: Vec<String> = rows.iter().flatten().map(|x| format!("{:x}", x.to_bits())).collect();
            cap(format!("ok f {} {} {}", rows.len(), c, flat.join(" ")).trim_end().to_string())
        }
        Err(weight::Error::BadHeader) => "err badheader".into(),
        Err(weight::Error::UnsupportedVersion) => "err version".into(),
        Err(weight::Error::Io(_)) => "err io".into(),
    }
}

fn fmt_mesh(r: &mesh_io::Result<Mesh>) -> String {
    match r {
        Ok(m) => cap(format!("ok {}", M::of_mesh(m).fmt())),
        Err(mesh_io::Error::Io(_)) => "err io".into(),
        Err(mesh_io::Error::Medit(e)) => {
            let s = e.to_string();
            let s = s.splitn(2, ": ").nth(1).unwrap_or("").to_string();
            if s.starts_with("expected token") {
                "err tok".into()
            } else if s.starts_with("io error") {
                "err io".into()
            } else if s.starts_with("when parsing integer") {
                "err int".into()
            } else if s.starts_with("when parsing float") {
                "err float".into()
            } else {
                format!("err ?{}", s)
            }
        }
        Err(_) => "err other".into(),
    }
}

/// `Mesh::from_reader` on a byte slice, labelled with the format the public test
/// functions announce (same order as `from_reader`).
fn decode_any(ctx: &mut Ctx, bytes: &[u8]) -> Caught<String> {
    let b = bytes.to_vec();
    catch(move || {
        let label = if medit::test_format_binary(&b) {
            "bin"
        } else if medit::test_format_ascii(&b) {
            "ascii"
        } else {
            "other"
        };
        if label == "other" {
            // VTK or UnknownFormat: outside this property
            return "other".to_string();
        }
        let r = Mesh::from_reader(&b[..]);
        format!("{} {}", label, fmt_mesh(&r))
    })
    .also(|_| ctx.count("from_reader_calls"))
}

trait Also: Sized {
    fn also(self, f: impl FnOnce(&Self)) -> Self {
        f(&self);
        self
    }
}
impl<T> Also for Caught<T> {}

fn finish(prefix: String, res: Caught<String>) -> (String, bool) {
    match res {
        Caught::Ok(s) => (format!("{}{}", prefix, s), false),
        Caught::Panic(m) => (format!("panic {}", m), true),
        Caught::Hang => ("hang".into(), true),
    }
}

// ---------------------------------------------------------------- generator

const F_SPECIAL: [u64; 18] = [
    0x0000000000000000, // +0
    0x8000000000000000, // -0
    0x0000000000000001, // smallest subnormal
    0x800fffffffffffff, // largest negative subnormal
    0x0010000000000000, // smallest normal
    0x7fefffffffffffff, // f64::MAX
    0xffefffffffffffff, // f64::MIN
    0x3ff0000000000000, // 1
    0x3fb999999999999a, // 0.1
    0x4340000000000000, // 2^53
    0x7ff0000000000000, // +inf
    0xfff0000000000000, // -inf
    0x7ff8000000000000, // quiet NaN
    0x7ff0000000000001, // signalling NaN, payload 1
    0xfff8000000000000, // negative quiet NaN
    0x7fffffffffffffff, // NaN, all payload bits
    0xfff4000000000123, // negative signalling NaN with payload
    0x7ff8dead0000beef, // quiet NaN with payload
];

const I_SPECIAL: [i64; 8] = [0, 1, -1, i64::MIN, i64::MAX, i64::MIN + 1, 1 << 32, -(1 << 53)];

fn gen_f(rng: &mut Rng, finite: bool) -> u64 {
    loop {
        let b = match rng.usize(4) {
            0 => *rng.pick(&F_SPECIAL),
            1 => ((rng.range(-1000, 1000) as f64) / 8.0).to_bits(),
            2 => (rng.range(-1_000_000, 1_000_000) as f64 * 1e-3).to_bits(),
            _ => rng.next(),
        };
        if !finite || f64::from_bits(b).is_finite() {
            return b;
        }
    }
}

fn gen_ref(rng: &mut Rng) -> isize {
    match rng.usize(4) {
        0 => *rng.pick(&I_SPECIAL) as isize,
        1 => rng.next() as isize,
        _ => rng.range(-3, 9) as isize,
    }
}

const QUANT: [ElementType; 5] = [
    ElementType::Edge,
    ElementType::Triangle,
    ElementType::Quadrilateral,
    ElementType::Tetrahedron,
    ElementType::Hexahedron,
];

fn gen_mesh(rng: &mut Rng, small_ints: bool, allow_outside: bool) -> M {
    let dim = 2 + rng.usize(2);
    let nv = if rng.chance(1, 8) { 0 } else { 1 + rng.usize(6) };
    let coords = (0..dim * nv).map(|_| gen_f(rng, true)).collect();
    let refs = (0..nv).map(|_| if small_ints { rng.range(-3, 9) as isize } else { gen_ref(rng) }).collect();
    let nb = rng.usize(5);
    let mut blocks = vec![];
    let mut last = None;
    for _ in 0..nb {
        let mut t = *rng.pick(&QUANT);
        if let Some(l) = last {
            if rng.chance(1, 3) {
                t = l; // several blocks of the same type
            }
        }
        if allow_outside && rng.chance(1, 12) {
            t = if rng.chance(1, 2) { ElementType::Quadrangle } else { ElementType::Vertex };
        }
        last = Some(t);
        let ne = if rng.chance(1, 5) { 0 } else { 1 + rng.usize(3) };
        let nodes = (0..ne * t.node_count())
            .map(|_| {
                if small_ints || !rng.chance(1, 10) {
                    rng.usize(nv.max(1))
                } else {
                    match rng.usize(if allow_outside { 6 } else { 4 }) {
                        0 => (1usize << 40) + rng.usize(100),
                        1 => (i64::MAX - 1) as usize,
                        2 => (1usize << 31) - 1,
                        3 => (1usize << 32) + 7,
                        4 => i64::MAX as usize, // binary writer: `node as i64 + 1` overflows
                        _ => usize::MAX,        // ASCII writer: `node + 1` overflows
                    }
                }
            })
            .collect();
        let r = (0..ne).map(|_| if small_ints { rng.range(-3, 9) as isize } else { gen_ref(rng) }).collect();
        blocks.push((t, nodes, r));
    }
    M { dim, coords, refs, blocks }
}

fn show_table(m: &M) -> String {
    let mut seen = std::collections::BTreeSet::new();
    let mut v = vec![];
    for c in &m.coords {
        if seen.insert(*c) {
            v.push(format!("{:x} {}", c, hex(format!("{}", f64::from_bits(*c)).as_bytes())));
        }
    }
    format!("{} {}", seen.len(), v.join(" ")).trim_end().to_string()
}

fn parse_table(bytes: &[u8]) -> String {
    if !medit::test_format_ascii(bytes) || medit::test_format_binary(bytes) {
        return "0".into();
    }
    let Ok(text) = std::str::from_utf8(bytes) else { return "0".into() };
    let mut seen = std::collections::BTreeSet::new();
    let mut v = vec![];
    for tok in text.split(|c| c == ' ' || c == '\t' || c == '\r' || c == '\n') {
        if tok.is_empty() || !seen.insert(tok) {
            continue;
        }
        match tok.parse::<f64>() {
            Ok(x) => v.push(format!("{} {:x}", hex(tok.as_bytes()), x.to_bits())),
            Err(_) => v.push(format!("{} -", hex(tok.as_bytes()))),
        }
    }
    format!("{} {}", v.len(), v.join(" ")).trim_end().to_string()
}

fn mdec_op(bytes: &[u8]) -> String {
    format!("mdec {} {}", hex(bytes), parse_table(bytes))
}

/// Independent encoder of the other binary MEDIT flavours the reader accepts
/// (versions 2–4, both byte orders); there is no such writer in the repository.
fn enc_bin(m: &M, ver: i32, be: bool) -> Vec<u8> {
    let mut o = vec![];
    let key = |o: &mut Vec<u8>, v: i32| o.extend(if be { v.to_be_bytes() } else { v.to_le_bytes() });
    let int = |o: &mut Vec<u8>, v: i64| {
        if ver == 4 {
            o.extend(if be { v.to_be_bytes() } else { v.to_le_bytes() })
        } else {
            o.extend(if be { (v as i32).to_be_bytes() } else { (v as i32).to_le_bytes() })
        }
    };
    let pos = |o: &mut Vec<u8>, v: i64| {
        if ver >= 3 {
            o.extend(if be { v.to_be_bytes() } else { v.to_le_bytes() })
        } else {
            o.extend(if be { (v as i32).to_be_bytes() } else { (v as i32).to_le_bytes() })
        }
    };
    key(&mut o, 1);
    key(&mut o, ver);
    key(&mut o, 3);
    pos(&mut o, 0);
    key(&mut o, m.dim as i32);
    key(&mut o, 4);
    pos(&mut o, 0);
    int(&mut o, m.refs.len() as i64);
    for (i, r) in m.refs.iter().enumerate() {
        for c in &m.coords[i * m.dim..(i + 1) * m.dim] {
            o.extend(if be { c.to_be_bytes() } else { c.to_le_bytes() });
        }
        int(&mut o, *r as i64);
    }
    for (t, nodes, refs) in &m.blocks {
        let code = match t {
            ElementType::Edge => 5,
            ElementType::Triangle => 6,
            ElementType::Quadrilateral | ElementType::Quadrangle => 7,
            ElementType::Tetrahedron => 8,
            ElementType::Hexahedron => 9,
            ElementType::Vertex => continue,
        };
        key(&mut o, code);
        pos(&mut o, 0);
        int(&mut o, refs.len() as i64);
        for (i, r) in refs.iter().enumerate() {
            for n in &nodes[i * t.node_count()..(i + 1) * t.node_count()] {
                int(&mut o, *n as i64 + 1);
            }
            int(&mut o, *r as i64);
        }
    }
    key(&mut o, 54);
    o
}

pub fn generate(ctx: &mut Ctx) {
    // ---------------- partition files
    let edge_ids: [usize; 7] = [0, 1, 255, 256, 1 << 32, 1 << 63, usize::MAX];
    // exhaustive small sub-space: every id vector over the edge values up to length 2
    run_op(ctx, "penc 0");
    for a in edge_ids {
        run_op(ctx, &format!("penc 1 {}", a));
        for b in edge_ids {
            run_op(ctx, &format!("penc 2 {} {}", a, b));
        }
    }
    ctx.notes.push("exhaustive sub-space: every id vector of length <= 2 over {0,1,255,256,2^32,2^63,2^64-1}".into());
    for _ in 0..ctx.budget(150, 12000) {
        let n = match ctx.rng.usize(4) {
            0 => ctx.rng.usize(3),
            1 => 3 + ctx.rng.usize(10),
            _ => ctx.rng.usize(if ctx.quick() { 60 } else { 300 }),
        };
        let mode = ctx.rng.usize(3);
        let ids: Vec<usize> = (0..n)
            .map(|_| match mode {
                0 => ctx.rng.usize(8),
                1 => ctx.rng.next() as usize,
                _ => *ctx.rng.pick(&edge_ids),
            })
            .collect();
        ctx.count(&format!("partition_mode_{}", mode));
        run_op(ctx, &format!("penc {} {}", n, join(&ids)).trim_end().to_string());
    }
    // malformed partition files
    {
        let mut good = vec![];
        partition::write(&mut good, [3usize, 0, usize::MAX].into_iter()).unwrap();
        for k in 0..good.len() {
            run_op(ctx, &format!("pdec {}", hex(&good[..k]))); // every truncation
        }
        let mut b = good.clone();
        b[0] = b'm';
        run_op(ctx, &format!("pdec {}", hex(&b)));
        let mut b = good.clone();
        b[4] = 4; // count + 1
        run_op(ctx, &format!("pdec {}", hex(&b)));
        let mut b = good.clone();
        b[4] = 2; // count - 1: trailing bytes are ignored
        run_op(ctx, &format!("pdec {}", hex(&b)));
        let mut b = good.clone();
        b[11] = 0x20; // count = 2^61+3: `Vec::with_capacity` panics
        run_op(ctx, &format!("pdec {}", hex(&b)));
        let mut b = good.clone();
        b.extend([1, 2, 3]);
        run_op(ctx, &format!("pdec {}", hex(&b)));
        for _ in 0..ctx.budget(30, 1500) {
            let mut b = good.clone();
            let k = ctx.rng.usize(11); // never the high count bytes (allocation size)
            b[k] = ctx.rng.next() as u8 & if k >= 6 { 0 } else { 0xff };
            let cut = ctx.rng.usize(b.len() + 1);
            if ctx.rng.chance(1, 2) {
                b.truncate(cut);
            }
            ctx.count("partition_garbled");
            run_op(ctx, &format!("pdec {}", hex(&b)));
        }
    }

    // ---------------- weight files
    for kind in ["i", "f"] {
        run_op(ctx, &format!("wenc {} 0 0", kind)); // the empty array
        run_op(ctx, &format!("wenc {} 0 3", kind));
        run_op(ctx, &format!("wenc {} 2 0", kind)); // two rows of zero criteria
    }
    // exhaustive: one row, one criterion, every special pattern
    for b in F_SPECIAL {
        run_op(ctx, &format!("wenc f 1 1 {:x}", b));
    }
    for v in I_SPECIAL {
        run_op(ctx, &format!("wenc i 1 1 {}", v));
    }
    for _ in 0..ctx.budget(250, 20000) {
        let c = match ctx.rng.usize(8) {
            0 => 5 + ctx.rng.usize(if ctx.quick() { 8 } else { 300 }), // beyond the old limit (D2)
            _ => 1 + ctx.rng.usize(4),
        };
        let n = match ctx.rng.usize(4) {
            0 => 1,
            1 => 2,
            _ => 1 + ctx.rng.usize(if ctx.quick() { 10 } else { 40 }),
        };
        ctx.count(&format!("weights_criteria_{}", if c > 4 { "5+".to_string() } else { c.to_string() }));
        if ctx.rng.chance(1, 2) {
            let vals: Vec<String> = (0..n * c)
                .map(|_| match ctx.rng.usize(3) {
                    0 => I_SPECIAL[ctx.rng.usize(I_SPECIAL.len())].to_string(),
                    1 => (ctx.rng.next() as i64).to_string(),
                    _ => ctx.rng.range(-5, 100).to_string(),
                })
                .collect();
            run_op(ctx, &format!("wenc i {} {} {}", n, c, vals.join(" ")));
        } else {
            let vals: Vec<String> = (0..n * c).map(|_| format!("{:x}", gen_f(&mut ctx.rng, false))).collect();
            run_op(ctx, &format!("wenc f {} {} {}", n, c, vals.join(" ")));
        }
    }
    // malformed weight files
    {
        let mut good = vec![];
        weight::write_floats(&mut good, [[1.5f64, f64::NAN], [-0.0, 2.0]].iter().map(|r| r.iter().cloned())).unwrap();
        for k in 0..good.len() {
            run_op(ctx, &format!("wdec {}", hex(&good[..k])));
        }
        for (pos, val) in [(0usize, 0u8), (3, b'E'), (4, 0), (4, 2), (5, 1), (5, 0xfe), (5, 0xff), (6, 0), (6, 3), (7, 1), (8, 3), (8, 1), (15, 0x10)] {
            let mut b = good.clone();
            b[pos] = val;
            run_op(ctx, &format!("wdec {}", hex(&b)));
        }
        let mut b = good.clone();
        b.extend([9, 9]);
        run_op(ctx, &format!("wdec {}", hex(&b)));
        for _ in 0..ctx.budget(30, 1500) {
            let mut b = good.clone();
            let k = ctx.rng.usize(14); // never the high count bytes (allocation size)
            b[k] = ctx.rng.next() as u8 & if k >= 10 { 0 } else { 0xff };
            if k == 7 {
                b[k] &= 0x0f; // keep the row buffer small
            }
            let cut = ctx.rng.usize(b.len() + 1);
            if ctx.rng.chance(1, 2) {
                b.truncate(cut);
            }
            ctx.count("weights_garbled");
            run_op(ctx, &format!("wdec {}", hex(&b)));
        }
    }

    // ---------------- MEDIT meshes: round trips, binary and ASCII
    for i in 0..ctx.budget(220, 15000) {
        let m = gen_mesh(&mut ctx.rng, false, i % 4 == 3);
        run_op(ctx, &format!("mbenc {}", m.fmt()));
        run_op(ctx, &format!("maenc {} {}", m.fmt(), show_table(&m)));
    }
    // the reader is more liberal than the writer: other versions / byte orders
    for _ in 0..ctx.budget(60, 3000) {
        let m = gen_mesh(&mut ctx.rng, true, false);
        let ver = 2 + ctx.rng.usize(3) as i32;
        let be = ctx.rng.chance(1, 2);
        ctx.count(&format!("bin_variant_v{}_{}", ver, if be { "be" } else { "le" }));
        run_op(ctx, &mdec_op(&enc_bin(&m, ver, be)));
    }
    // malformed binary: every truncation of a few files, field substitutions
    for j in 0..ctx.budget(3, 40) {
        let m = gen_mesh(&mut ctx.rng, true, false);
        let mut good = vec![];
        m.to_mesh().serialize_medit_binary(&mut good).unwrap();
        let step = if j == 0 { 1 } else { 7 };
        for k in (0..good.len()).step_by(step) {
            ctx.count("bin_truncated");
            run_op(ctx, &mdec_op(&good[..k]));
        }
        // only substitutions after which the reader cannot take data bytes for a count
        // (a garbage count makes `Vec::with_capacity` abort the process on allocation failure)
        for (pos, val) in [(0usize, 2u8), (0, 0), (3, 1), (4, 5), (4, 0), (8, 4), (24, 54), (24, 99)] {
            if pos < good.len() {
                let mut b = good.clone();
                b[pos] = val;
                ctx.count("bin_field_substituted");
                run_op(ctx, &mdec_op(&b));
            }
        }
        // a node index of 0 in the file: `0usize - 1`
        if let Some((t, _, r)) = m.blocks.iter().find(|(t, _, r)| *t != ElementType::Vertex && !r.is_empty()) {
            let _ = (t, r);
            let mut m2 = m.clone();
            let bytes = enc_bin(&m2, 4, false);
            // locate the first element block: header 24 + vertices
            let off = 24 + 20 + 8 * m2.refs.len() * (m2.dim + 1);
            let mut skip = off;
            for (t, _, r) in &m2.blocks {
                if r.is_empty() {
                    skip += 20;
                    continue;
                }
                let _ = t;
                break;
            }
            let mut b = bytes.clone();
            if skip + 28 <= b.len() {
                for x in &mut b[skip + 20..skip + 28] {
                    *x = 0;
                }
                ctx.count("bin_node_zero");
                run_op(ctx, &mdec_op(&b));
            }
            m2.blocks.clear();
        }
    }
    // ASCII: liberal forms and malformed texts, by token-level edits of a written file
    for _ in 0..ctx.budget(120, 6000) {
        let m = gen_mesh(&mut ctx.rng, true, false);
        let text = m.to_mesh().display_medit_ascii().to_string();
        let mut lines: Vec<Vec<String>> =
            text.split('\n').map(|l| l.split_whitespace().map(|s| s.to_string()).collect()).collect();
        let edits = 1 + ctx.rng.usize(2);
        for _ in 0..edits {
            if lines.is_empty() {
                break;
            }
            let li = ctx.rng.usize(lines.len());
            let kind = ctx.rng.usize(12);
            ctx.count(&format!("ascii_edit_{}", kind));
            match kind {
                0 => {
                    // upper/lower-case keywords
                    for l in lines.iter_mut() {
                        for t in l.iter_mut() {
                            if t.chars().all(|c| c.is_ascii_alphabetic()) {
                                *t = t.to_ascii_uppercase();
                            }
                        }
                    }
                }
                1 => lines.insert(li, vec![]), // blank line
                2 => {
                    // drop the last token of a line (a reference, a count, a keyword)
                    lines[li].pop();
                }
                3 => {
                    // junk after an element keyword on its own line
                    for l in lines.iter_mut() {
                        if l.len() == 1 && ["Edges", "Triangles", "Quadrilaterals", "Tetrahedra", "Hexahedra"].contains(&l[0].as_str()) {
                            l.push("junk".into());
                            break;
                        }
                    }
                }
                4 => lines.truncate(li), // truncated file
                5 => {
                    let toks = ["0", "-1", "x", "1.5", "End", "Vertices", "7", "+3", "1e2", "Corners", "nan", "18446744073709551616"];
                    if !lines[li].is_empty() {
                        let ti = ctx.rng.usize(lines[li].len());
                        lines[li][ti] = ctx.rng.pick(&toks).to_string();
                    }
                }
                6 => lines[li].push("9".into()), // extra word
                7 => {
                    // a skipped section
                    let at = lines.len() - 1;
                    lines.insert(at, vec!["Corners".into()]);
                    lines.insert(at + 1, vec!["2".into()]);
                    lines.insert(at + 2, vec!["1".into()]);
                    lines.insert(at + 3, vec!["2".into()]);
                }
                8 => {
                    // join a line with the next one
                    if li + 1 < lines.len() {
                        let nxt = lines.remove(li + 1);
                        lines[li].extend(nxt);
                    }
                }
                9 => {
                    // split a line in two
                    if lines[li].len() >= 2 {
                        let k = 1 + ctx.rng.usize(lines[li].len() - 1);
                        let tail = lines[li].split_off(k);
                        lines.insert(li + 1, tail);
                    }
                }
                10 => lines.insert(0, vec![]), // leading blank line
                _ => {
                    if !lines[li].is_empty() {
                        let ti = ctx.rng.usize(lines[li].len());
                        lines[li].remove(ti);
                    }
                }
            }
        }
        let sep = *ctx.rng.pick(&[" ", "\t", "  ", " \r"]);
        let nl = *ctx.rng.pick(&["\n", "\r\n", "\n"]);
        let text: String = lines.iter().map(|l| l.join(sep)).collect::<Vec<_>>().join(nl);
        // an edit can move an integer-valued coordinate into a count position; a huge count
        // makes `Vec::with_capacity` abort the whole process (allocation failure, not a panic)
        if lines.iter().flatten().any(|t| t.trim_start_matches('+').parse::<u64>().map_or(false, |v| v > 100_000)) {
            ctx.count("ascii_edit_skipped_huge_integer_token");
            continue;
        }
        run_op(ctx, &mdec_op(text.as_bytes()));
    }
    for t in ["", " ", "MeshVersionFormatted", "meshversionformatted 2 dimension 2 end", "MeshVersionFormatte 2", "# vtk DataFile Version 2.0\n", "\x01\x00\x00", "\x00\x00\x00\x01"] {
        run_op(ctx, &mdec_op(t.as_bytes()));
    }
    generate_large(ctx);
}

// ---------------------------------------------------------------- large / corner stream
//
// Size-gated and plumbing-gated paths: data far above the usual block thresholds (and not
// multiples of powers of two), read back from memory, through tiny-capacity `BufReader`s,
// through a reader that hands out one byte per `read` call, and from real files on disk whose
// 8 KiB buffer boundaries fall at chosen offsets. The data is derived from the seed in the op
// line by `mix` (mirrored in the Lean driver), so the op line stays short and replayable.

use std::io::{self, BufReader, Read};

const CAPS: [usize; 7] = [1, 2, 3, 7, 64, 4096, 8192];
const TMP_DIR: &str = "/verif/out/C19/tmp";

fn mix(seed: u64, i: u64) -> u64 {
    let mut z = seed.wrapping_add((i.wrapping_add(1)).wrapping_mul(0x9E3779B97F4A7C15));
    z = (z ^ (z >> 30)).wrapping_mul(0xBF58476D1CE4E5B9);
    z = (z ^ (z >> 27)).wrapping_mul(0x94D049BB133111EB);
    z ^ (z >> 31)
}

fn fnvb(b: &[u8]) -> u64 {
    let mut h: u64 = 0xcbf29ce484222325;
    for x in b {
        h = (h ^ *x as u64).wrapping_mul(0x100000001b3);
    }
    h
}

/// hands out one byte per `read` call
struct OneByte<'a>(&'a [u8]);
impl Read for OneByte<'_> {
    fn read(&mut self, buf: &mut [u8]) -> io::Result<usize> {
        if buf.is_empty() || self.0.is_empty() {
            return Ok(0);
        }
        buf[0] = self.0[0];
        self.0 = &self.0[1..];
        Ok(1)
    }
}

/// A legal `io::Write` that takes FEWER bytes than offered (1..=k per call, cycling), as sockets,
/// pipes and compressing encoders do: a writer that ignores the count returned by `write` loses data.
struct ShortWriter {
    buf: Vec<u8>,
    k: usize,
    calls: usize,
}

impl ShortWriter {
    fn new(k: usize) -> ShortWriter {
        ShortWriter { buf: Vec::new(), k, calls: 0 }
    }
}

impl std::io::Write for ShortWriter {
    fn write(&mut self, b: &[u8]) -> std::io::Result<usize> {
        self.calls += 1;
        let n = b.len().min(1 + self.calls % self.k);
        self.buf.extend_from_slice(&b[..n]);
        Ok(n)
    }
    fn flush(&mut self) -> std::io::Result<()> {
        Ok(())
    }
}

/// Runs a writer against short-writing destinations (bare, and behind a small `BufWriter`) and
/// returns a description if the bytes differ from `want` (what the same writer put into a `Vec`).
fn short_write_check(want: &[u8], f: &dyn Fn(&mut dyn std::io::Write) -> Result<(), String>) -> Option<String> {
    for k in [1usize, 3, 7, 4096] {
        let mut w = ShortWriter::new(k);
        if let Err(e) = f(&mut w) {
            return Some(format!("short writer (<= {} bytes per call): error {}", k, e));
        }
        if w.buf != want {
            return Some(format!("short writer (<= {} bytes per call): {} bytes arrived, {} expected{}", k, w.buf.len(), want.len(), if w.buf.len() == want.len() { " (different content)" } else { "" }));
        }
        let mut w = std::io::BufWriter::with_capacity(5, ShortWriter::new(k));
        if let Err(e) = f(&mut w) {
            return Some(format!("BufWriter(5) over a short writer: error {}", e));
        }
        match w.into_inner() {
            Ok(inner) if inner.buf == want => {}
            Ok(inner) => return Some(format!("BufWriter(5) over a short writer (<= {}): {} bytes arrived, {} expected", k, inner.buf.len(), want.len())),
            Err(e) => return Some(format!("BufWriter(5) over a short writer: flush error {}", e)),
        }
    }
    None
}

fn short_write_verdict(want: &[u8], f: &dyn Fn(&mut dyn std::io::Write) -> Result<(), String>) -> Option<String> {
    match catch(|| short_write_check(want, f)) {
        Caught::Ok(d) => d,
        Caught::Panic(m) => Some(format!("panic {}", m)),
        Caught::Hang => Some("hang".into()),
    }
}

fn tmp_path(tag: &str) -> std::path::PathBuf {
    let _ = std::fs::create_dir_all(TMP_DIR);
    std::path::Path::new(TMP_DIR).join(format!("{}-{}", std::process::id(), tag))
}

fn size_class(n: usize) -> &'static str {
    match n {
        0..=4096 => "<=4096",
        4097..=16384 => "4097..16384",
        16385..=65535 => "16385..65535",
        65536..=131072 => "65536..131072",
        _ => ">131072",
    }
}

fn large_id(pat: &str, seed: u64, i: u64) -> Option<u64> {
    Some(match pat {
        "rand" => mix(seed, i),
        "small" => mix(seed, i) % 64,
        "asc" => i,
        "blk" => i / 4096,
        _ => return None,
    })
}

/// 64-bit pattern of value `k` of a weight array (`i64` two's complement / `f64` bits)
fn large_w(float: bool, pat: &str, seed: u64, k: u64) -> Option<u64> {
    Some(match (pat, float) {
        ("rand", _) => mix(seed, k),
        ("asc", false) => k,
        ("asc", true) => 0x4330000000000000 + k, // 2^52 + k
        ("near", false) => (1u64 << 61) - mix(seed, k) % 1000, // just below 2^61
        ("near", true) => 0x4330000000000000 | (mix(seed, k) & ((1 << 52) - 1)), // [2^52, 2^53)
        ("blk", _) => k / 4096,
        _ => return None,
    })
}

const LARGE_SPECIAL: [u64; 6] =
    [0, 0x8000000000000000, 1, 0x7fefffffffffffff, 0xffefffffffffffff, 0x3ff0000000000000];

fn large_mesh(nv: usize, scale: usize, pat: &str, seed: u64) -> Option<M> {
    if nv == 0 || !(pat == "rand" || pat == "seq") {
        return None;
    }
    let dim = 2 + (seed % 2) as usize;
    let coords = (0..(dim * nv) as u64)
        .map(|i| {
            let r = mix(seed, i);
            if i % 97 == 96 {
                LARGE_SPECIAL[(r % 6) as usize]
            } else {
                ((r >> 63) << 63) | ((1013 + ((r >> 52) % 31)) << 52) | (r & ((1 << 52) - 1))
            }
        })
        .collect();
    let refs = (0..nv as u64)
        .map(|i| {
            if i % 1000 == 999 {
                if (i / 1000) % 2 == 0 {
                    isize::MAX
                } else {
                    isize::MIN
                }
            } else {
                (mix(seed.wrapping_add(1), i) % 13) as isize - 3
            }
        })
        .collect();
    let spec = [
        (ElementType::Triangle, 5 * scale),
        (ElementType::Edge, 0),
        (ElementType::Tetrahedron, 2 * scale + 1),
        (ElementType::Triangle, scale + 234),
        (ElementType::Hexahedron, scale / 2 + 77),
        (ElementType::Quadrilateral, scale + 3),
        (ElementType::Edge, 3 * scale + 5),
    ];
    let blocks = spec
        .iter()
        .enumerate()
        .map(|(b, (t, ne))| {
            let nodes = (0..(ne * t.node_count()) as u64)
                .map(|j| {
                    if pat == "rand" {
                        (mix(seed.wrapping_add(7 + b as u64), j) % nv as u64) as usize
                    } else {
                        (j % nv as u64) as usize
                    }
                })
                .collect();
            let r = (0..*ne as u64).map(|e| (mix(seed.wrapping_add(100 + b as u64), e) % 13) as isize - 3).collect();
            (*t, nodes, r)
        })
        .collect();
    Some(M { dim, coords, refs, blocks })
}

/// every way a mesh is read back; returns the modes whose result differs from `want`
fn read_mesh_all_ways(ctx: &mut Ctx, bytes: &[u8], binary: bool, want: &M, tag: &str) -> Vec<String> {
    let mut bad = vec![];
    let check = |ctx: &mut Ctx, bad: &mut Vec<String>, mode: String, r: Caught<Result<M, String>>| match r {
        Caught::Ok(Ok(m)) if m == *want => ctx.count(&format!("read_mode:{}", mode.split('=').next().unwrap_or(""))),
        Caught::Ok(Ok(_)) => bad.push(format!("{}: different mesh", mode)),
        Caught::Ok(Err(e)) => bad.push(format!("{}: {}", mode, e)),
        Caught::Panic(p) => bad.push(format!("{}: panic {}", mode, p)),
        Caught::Hang => bad.push(format!("{}: hang", mode)),
    };
    let conv = |r: mesh_io::Result<Mesh>| r.map(|m| M::of_mesh(&m)).map_err(|e| e.to_string());
    let direct = |r: Result<Mesh, medit::ParseError>| r.map(|m| M::of_mesh(&m)).map_err(|e| e.to_string());
    // (a) memory
    check(ctx, &mut bad, "from_reader/memory".into(), catch(|| conv(Mesh::from_reader(bytes))));
    // (b) tiny-capacity buffered readers: the parser of the format ...
    for c in CAPS {
        check(
            ctx,
            &mut bad,
            format!("parser/bufreader={}", c),
            catch(|| {
                let r = BufReader::with_capacity(c, bytes);
                direct(if binary { medit::parse_binary(r) } else { medit::parse_ascii(r) })
            }),
        );
    }
    // ... and the auto-detecting entry point where the first chunk can hold the magic
    for c in [64usize, 4096, 8192] {
        check(ctx, &mut bad, format!("from_reader/bufreader={}", c), catch(|| conv(Mesh::from_reader(BufReader::with_capacity(c, bytes)))));
    }
    // (c) one byte per read call
    for c in [1usize, 8192] {
        check(
            ctx,
            &mut bad,
            format!("parser/onebyte-bufreader={}", c),
            catch(|| {
                let r = BufReader::with_capacity(c, OneByte(bytes));
                direct(if binary { medit::parse_binary(r) } else { medit::parse_ascii(r) })
            }),
        );
    }
    // `from_reader` sniffs the format from ONE `fill_buf`; when that first chunk is shorter than
    // the magic it answers UnknownFormat (an error, never wrong data). Counted, see the report.
    for (name, r) in [
        ("bufreader=1", catch(|| conv(Mesh::from_reader(BufReader::with_capacity(1, bytes))))),
        ("bufreader=3", catch(|| conv(Mesh::from_reader(BufReader::with_capacity(3, bytes))))),
        ("bufreader=7", catch(|| conv(Mesh::from_reader(BufReader::with_capacity(7, bytes))))),
        ("onebyte", catch(|| conv(Mesh::from_reader(BufReader::new(OneByte(bytes)))))),
    ] {
        match r {
            Caught::Ok(Ok(m)) if m == *want => ctx.count(&format!("corner:from_reader_short_first_chunk:{}:ok", name)),
            Caught::Ok(Ok(_)) => bad.push(format!("from_reader/{}: different mesh", name)),
            Caught::Ok(Err(e)) if e == "unknown format" => ctx.count(&format!("corner:from_reader_short_first_chunk:{}:unknown-format", name)),
            Caught::Ok(Err(e)) => bad.push(format!("from_reader/{}: {}", name, e)),
            Caught::Panic(p) => bad.push(format!("from_reader/{}: panic {}", name, p)),
            Caught::Hang => bad.push(format!("from_reader/{}: hang", name)),
        }
    }
    // (d) a real file, `Mesh::from_file` (its own 8 KiB BufReader). The format is detected from the
    // CONTENT ("detected automatically"): the same bytes under the matching name, under the other
    // format's extension, under a foreign or upper-case extension and without one read alike.
    let stem = tag.rsplit_once('.').map(|(a, _)| a).unwrap_or(tag);
    let names = [
        tag.to_string(),
        format!("{}.mesh", stem),
        format!("{}.meshb", stem),
        format!("{}.vtk", stem),
        format!("{}.MESH", stem),
        format!("{}.dat", stem),
        stem.to_string(),
    ];
    for (k, name) in names.iter().enumerate() {
        if k > 0 && *name == names[0] {
            continue;
        }
        let path = tmp_path(name);
        if std::fs::write(&path, bytes).is_ok() {
            let label = if k == 0 { "from_file".to_string() } else { format!("from_file[name {}]", name.rsplit_once('.').map(|(_, e)| e).unwrap_or("none")) };
            ctx.count("from_file_name_variants");
            check(ctx, &mut bad, label, catch(|| conv(Mesh::from_file(&path))));
            let _ = std::fs::remove_file(&path);
        } else {
            ctx.count("tmp_file_not_writable");
        }
    }
    bad
}

fn generate_large(ctx: &mut Ctx) {
    // partition files: around 2^16 and 2^17, far above, not multiples of powers of two
    let mut sizes = vec![(65535usize, "rand"), (65536, "blk"), (65537, "asc"), (131072 + 5, "rand"), (200003, "small")];
    if !ctx.quick() {
        sizes.extend([(4097, "rand"), (8193, "blk"), (16385 + 37, "asc"), (20001, "rand"), (65537 + 11, "small"), (70001, "blk"), (131077, "asc"), (140003, "rand"), (200003, "blk"), (262144 + 1, "rand")]);
    }
    for (n, pat) in sizes {
        let seed = ctx.rng.next() % 1000;
        run_op(ctx, &format!("plarge {} {} {}", n, pat, seed));
    }
    // weight files: payload past 1, 4 and 8 MiB; criterion counts that are not powers of two
    let mut ws = vec![
        ("f", 140003usize, 1usize, "rand"),
        ("i", 70001, 2, "near"),
        ("f", 40003, 4, "near"),
        ("f", 180000, 3, "rand"),
        ("i", 250000, 5, "rand"),
    ];
    if !ctx.quick() {
        ws.extend([
            ("i", 9, 65535, "rand"),
            ("f", 17, 65535, "rand"),
            ("i", 180000, 3, "asc"),
            ("f", 250000, 5, "blk"),
            ("f", 4099, 255, "near"),
            ("i", 4099, 256, "rand"),
            ("f", 4099, 257, "rand"),
            ("i", 131077, 1, "asc"),
            ("f", 262147, 4, "asc"),
            ("i", 8193, 3, "blk"),
            ("f", 16385 + 37, 2, "rand"),
            ("i", 20001, 7, "near"),
            ("f", 2, 65535, "near"),
            ("i", 3, 65535, "asc"),
        ]);
    }
    for (kind, rows, c, pat) in ws {
        let seed = ctx.rng.next() % 1000;
        run_op(ctx, &format!("wlarge {} {} {} {} {}", kind, rows, c, pat, seed));
    }
    // MEDIT meshes of a few hundred KiB, seven element blocks, read back every way
    let mut ms = vec![("b", 6001usize, 1000usize, "rand"), ("a", 6001, 1000, "rand")];
    if !ctx.quick() {
        ms.extend([("b", 8193, 1500, "seq"), ("a", 8193, 1500, "seq"), ("b", 4097, 700, "rand"), ("a", 4097, 700, "seq"), ("b", 20001, 300, "rand"), ("a", 20001, 300, "rand"), ("b", 1, 2000, "seq"), ("a", 1, 2000, "seq")]);
    }
    for (f, nv, scale, pat) in ms {
        let seed = ctx.rng.next() % 1000;
        run_op(ctx, &format!("mlarge {} {} {} {} {}", f, nv, scale, pat, seed));
    }
    // files on disk: the 8 KiB buffer boundary at every offset class around each keyword/count line
    let seed = ctx.rng.next() % 1000;
    if ctx.quick() {
        run_op(ctx, &format!("mpad 300 40 {} kw -3 3 1", seed));
        run_op(ctx, &format!("mpad 300 40 {} kw 4 24 5", seed));
        run_op(ctx, &format!("mpad 300 40 {} sweep 0 8192 701", seed));
        run_op(ctx, &format!("mbfile 250 262 30 {}", seed));
    } else {
        run_op(ctx, &format!("mpad 300 40 {} kw -40 40 1", seed));
        run_op(ctx, &format!("mpad 300 40 {} sweep 0 8192 13", seed));
        run_op(ctx, &format!("mpad 700 15 {} kw -16 16 1", seed + 1));
        run_op(ctx, &format!("mbfile 1 260 30 {}", seed));
        run_op(ctx, &format!("mbfile 250 515 3 {}", seed + 1));
    }
}

fn run_large(ctx: &mut Ctx, op: &str) -> bool {
    let t: Vec<&str> = op.split_whitespace().collect();
    let num = |s: &str| s.parse::<usize>().ok();
    match t.as_slice() {
        ["plarge", n, pat, seed] => {
            let (Some(n), Some(seed)) = (num(n), seed.parse::<u64>().ok()) else { return false };
            if n > 2_000_000 || large_id(pat, seed, 0).is_none() {
                return false;
            }
            let ids: Vec<usize> = (0..n as u64).map(|i| large_id(pat, seed, i).unwrap() as usize).collect();
            let mut bad: Vec<String> = vec![];
            let mut buf = vec![];
            let w = catch(|| partition::write(&mut buf, ids.iter().cloned()).map_err(|e| e.to_string()));
            match w {
                Caught::Ok(Ok(())) => {}
                Caught::Ok(Err(e)) => bad.push(format!("write: {}", e)),
                Caught::Panic(p) => bad.push(format!("write: panic {}", p)),
                Caught::Hang => bad.push("write: hang".into()),
            }
            // independent statement of the layout
            let mut spec = b"MePe".to_vec();
            spec.extend((n as u64).to_le_bytes());
            for i in &ids {
                spec.extend((*i as u64).to_le_bytes());
            }
            if buf != spec {
                bad.push("bytes differ from the documented layout".into());
            }
            let path = tmp_path("partition");
            let _ = std::fs::write(&path, &buf);
            let mut modes: Vec<(String, Caught<partition::Result<Vec<usize>>>)> = vec![];
            modes.push(("memory".into(), catch(|| partition::read(&buf[..]))));
            for c in CAPS {
                modes.push((format!("bufreader={}", c), catch(|| partition::read(BufReader::with_capacity(c, &buf[..])))));
            }
            modes.push(("onebyte".into(), catch(|| partition::read(OneByte(&buf)))));
            modes.push(("onebyte-bufreader".into(), catch(|| partition::read(BufReader::new(OneByte(&buf))))));
            modes.push(("file".into(), catch(|| partition::read(BufReader::new(std::fs::File::open(&path)?)))));
            for (mode, r) in modes {
                match r {
                    Caught::Ok(Ok(v)) if v == ids => ctx.count(&format!("read_mode:partition/{}", mode.split('=').next().unwrap_or(""))),
                    Caught::Ok(Ok(v)) => {
                        let at = v.iter().zip(&ids).position(|(a, b)| a != b);
                        bad.push(format!("{}: {} ids read, first difference at {:?}", mode, v.len(), at))
                    }
                    Caught::Ok(Err(e)) => bad.push(format!("{}: {}", mode, e)),
                    Caught::Panic(p) => bad.push(format!("{}: panic {}", mode, p)),
                    Caught::Hang => bad.push(format!("{}: hang", mode)),
                }
            }
            let _ = std::fs::remove_file(&path);
            ctx.count(&format!("large:partition:{}", size_class(n)));
            let out = if bad.is_empty() { format!("ok n={} len={} fnv={:x}", n, buf.len(), fnvb(&buf)) } else { format!("MISMATCH {}", bad[0]) };
            let idx = ctx.record(op.to_string(), out, true);
            if !bad.is_empty() {
                ctx.fail(idx, "large-partition-roundtrip", bad.join("; "));
            }
            true
        }
        ["wlarge", kind, rows, c, pat, seed] => {
            let (Some(rows), Some(c), Some(seed)) = (num(rows), num(c), seed.parse::<u64>().ok()) else { return false };
            let float = match *kind {
                "f" => true,
                "i" => false,
                _ => return false,
            };
            if rows == 0 || c == 0 || c > 65535 || rows.saturating_mul(c) > 4_000_000 || large_w(float, pat, seed, 0).is_none() {
                return false;
            }
            let bits: Vec<Vec<u64>> = (0..rows).map(|r| (0..c).map(|j| large_w(float, pat, seed, (r * c + j) as u64).unwrap()).collect()).collect();
            let mut bad: Vec<String> = vec![];
            let mut buf = vec![];
            let w = catch(|| {
                if float {
                    weight::write_floats(&mut buf, bits.iter().map(|r| r.iter().map(|b| f64::from_bits(*b)))).map_err(|e| e.to_string())
                } else {
                    weight::write_integers(&mut buf, bits.iter().map(|r| r.iter().map(|b| *b as i64))).map_err(|e| e.to_string())
                }
            });
            match w {
                Caught::Ok(Ok(())) => {}
                Caught::Ok(Err(e)) => bad.push(format!("write: {}", e)),
                Caught::Panic(p) => bad.push(format!("write: panic {}", p)),
                Caught::Hang => bad.push("write: hang".into()),
            }
            // independent statement of the layout (weight-gen(1))
            let mut spec = b"MeWe".to_vec();
            spec.extend([1u8, if float { 0 } else { 1 }]);
            spec.extend((c as u16).to_le_bytes());
            spec.extend((rows as u64).to_le_bytes());
            for r in &bits {
                for b in r {
                    spec.extend(b.to_le_bytes());
                }
            }
            if buf != spec {
                bad.push("bytes differ from the documented layout".into());
            }
            let path = tmp_path("weights");
            let _ = std::fs::write(&path, &buf);
            let mut modes: Vec<(String, Caught<weight::Result<weight::Array>>)> = vec![];
            modes.push(("memory".into(), catch(|| weight::read(&buf[..]))));
            for cap_ in CAPS {
                modes.push((format!("bufreader={}", cap_), catch(|| weight::read(BufReader::with_capacity(cap_, &buf[..])))));
            }
            modes.push(("onebyte".into(), catch(|| weight::read(OneByte(&buf)))));
            modes.push(("onebyte-bufreader".into(), catch(|| weight::read(BufReader::new(OneByte(&buf))))));
            modes.push(("file".into(), catch(|| weight::read(BufReader::new(std::fs::File::open(&path)?)))));
            for (mode, r) in modes {
                let got: Result<Option<Vec<Vec<u64>>>, String> = match r {
                    Caught::Ok(Ok(weight::Array::Floats(v))) if float => Ok(Some(v.iter().map(|r| r.iter().map(|x| x.to_bits()).collect()).collect())),
                    Caught::Ok(Ok(weight::Array::Integers(v))) if !float => Ok(Some(v.iter().map(|r| r.iter().map(|x| *x as u64).collect()).collect())),
                    Caught::Ok(Ok(_)) => Ok(None),
                    Caught::Ok(Err(e)) => Err(e.to_string()),
                    Caught::Panic(p) => Err(format!("panic {}", p)),
                    Caught::Hang => Err("hang".into()),
                };
                match got {
                    Ok(Some(v)) if v == bits => ctx.count(&format!("read_mode:weights/{}", mode.split('=').next().unwrap_or(""))),
                    Ok(Some(v)) => {
                        let at = v.iter().zip(&bits).position(|(a, b)| a != b);
                        bad.push(format!("{}: {} rows read, first different row {:?}", mode, v.len(), at))
                    }
                    Ok(None) => bad.push(format!("{}: integer/float kind changed", mode)),
                    Err(e) => bad.push(format!("{}: {}", mode, e)),
                }
            }
            let _ = std::fs::remove_file(&path);
            let payload = rows * c * 8;
            ctx.count(&format!("large:weights:payload>{}MiB", if payload > 8 << 20 { 8 } else if payload > 4 << 20 { 4 } else if payload > 1 << 20 { 1 } else { 0 }));
            ctx.count(&format!("corner:criteria:{}", if c <= 4 { c.to_string() } else if c.is_power_of_two() { "2^k".into() } else if c == 65535 { "65535".into() } else { "other-non-pow2".into() }));
            let out = if bad.is_empty() { format!("ok {} rows={} c={} len={} fnv={:x}", kind, rows, c, buf.len(), fnvb(&buf)) } else { format!("MISMATCH {}", bad[0]) };
            let idx = ctx.record(op.to_string(), out, true);
            if !bad.is_empty() {
                ctx.fail(idx, "large-weights-roundtrip", bad.join("; "));
            }
            true
        }
        ["mlarge", f, nv, scale, pat, seed] => {
            let (Some(nv), Some(scale), Some(seed)) = (num(nv), num(scale), seed.parse::<u64>().ok()) else { return false };
            let binary = match *f {
                "b" => true,
                "a" => false,
                _ => return false,
            };
            if nv > 200_000 || scale > 20_000 {
                return false;
            }
            let Some(m) = large_mesh(nv, scale, pat, seed) else { return false };
            let mut bad: Vec<String> = vec![];
            let m2 = m.clone();
            let bytes = match catch(move || {
                let mesh = m2.to_mesh();
                let mut buf = vec![];
                if binary {
                    mesh.serialize_medit_binary(&mut buf).map_err(|e| e.to_string())?;
                } else {
                    buf = mesh.display_medit_ascii().to_string().into_bytes();
                }
                Ok::<_, String>(buf)
            }) {
                Caught::Ok(Ok(b)) => b,
                Caught::Ok(Err(e)) => {
                    bad.push(format!("write: {}", e));
                    vec![]
                }
                Caught::Panic(p) => {
                    bad.push(format!("write: panic {}", p));
                    vec![]
                }
                Caught::Hang => {
                    bad.push("write: hang".into());
                    vec![]
                }
            };
            if bad.is_empty() {
                bad = read_mesh_all_ways(ctx, &bytes, binary, &m, if binary { "mesh.meshb" } else { "mesh.mesh" });
            }
            ctx.count(&format!("large:mesh:{}:{}KiB", if binary { "binary" } else { "ascii" }, bytes.len() / 102400 * 100));
            let out = if bad.is_empty() { format!("ok len={} fnv={:x}", bytes.len(), fnvb(&bytes)) } else { format!("MISMATCH {}", bad[0]) };
            let idx = ctx.record(op.to_string(), out, true);
            if !bad.is_empty() {
                ctx.fail(idx, "large-mesh-roundtrip", bad.join("; "));
            }
            true
        }
        ["mpad", nv, scale, seed, mode, lo, hi, step] => {
            let (Some(nv), Some(scale), Some(seed), Some(lo), Some(hi), Some(step)) =
                (num(nv), num(scale), seed.parse::<u64>().ok(), lo.parse::<i64>().ok(), hi.parse::<i64>().ok(), num(step))
            else {
                return false;
            };
            if step == 0 || nv > 5000 || scale > 500 || hi < lo || hi - lo > 20000 {
                return false;
            }
            let Some(m) = large_mesh(nv, scale, "rand", seed) else { return false };
            let text = match catch(|| m.to_mesh().display_medit_ascii().to_string()) {
                Caught::Ok(t) => t,
                _ => return false,
            };
            // padding goes on the blank line after `Dimension d`; offsets of the tokens whose
            // position relative to a buffer boundary matters: keywords and count lines
            let Some(ins) = text.find("\n\nVertices").map(|p| p + 1) else { return false };
            let mut marks = vec![];
            for kw in ["Vertices", "Edges", "Triangles", "Quadrilaterals", "Tetrahedra", "Hexahedra", "End"] {
                let mut from = 0;
                while let Some(p) = text[from..].find(&format!("\n{}", kw)) {
                    marks.push(from + p + 1);
                    from += p + 1;
                }
            }
            let mut pads: Vec<usize> = vec![];
            match *mode {
                "sweep" => {
                    let mut p = lo.max(0);
                    while p <= hi {
                        pads.push(p as usize);
                        p += step as i64;
                    }
                }
                "kw" => {
                    for o in &marks {
                        let mut d = lo;
                        while d <= hi {
                            // keyword start lands `d` bytes after a multiple of 8192
                            pads.push(((d - *o as i64).rem_euclid(8192)) as usize);
                            d += step as i64;
                        }
                    }
                }
                _ => return false,
            }
            let mut bad = vec![];
            let path = tmp_path("padded.mesh");
            for p in &pads {
                let mut t = String::with_capacity(text.len() + p);
                t.push_str(&text[..ins]);
                t.extend(std::iter::repeat(' ').take(*p));
                t.push_str(&text[ins..]);
                if std::fs::write(&path, &t).is_err() {
                    ctx.count("tmp_file_not_writable");
                    break;
                }
                match catch(|| Mesh::from_file(&path).map(|x| M::of_mesh(&x)).map_err(|e| e.to_string())) {
                    Caught::Ok(Ok(x)) if x == m => ctx.count("corner:padded_ascii_file_ok"),
                    Caught::Ok(Ok(_)) => bad.push(format!("padding {}: different mesh", p)),
                    Caught::Ok(Err(e)) => bad.push(format!("padding {}: {}", p, e)),
                    Caught::Panic(e) => bad.push(format!("padding {}: panic {}", p, e)),
                    Caught::Hang => bad.push(format!("padding {}: hang", p)),
                }
            }
            let _ = std::fs::remove_file(&path);
            ctx.count(&format!("corner:file_layout_{}", mode));
            let out = if bad.is_empty() { format!("ok files={}", pads.len()) } else { format!("MISMATCH {}", bad[0]) };
            let idx = ctx.record(op.to_string(), out, true);
            if !bad.is_empty() {
                bad.truncate(5);
                ctx.fail(idx, "padded-ascii-file-roundtrip", bad.join("; "));
            }
            true
        }
        ["mbfile", nv0, nv1, scale, seed] => {
            let (Some(nv0), Some(nv1), Some(scale), Some(seed)) = (num(nv0), num(nv1), num(scale), seed.parse::<u64>().ok()) else { return false };
            if nv0 == 0 || nv1 < nv0 || nv1 - nv0 > 2000 || nv1 > 20000 || scale > 500 {
                return false;
            }
            let mut bad = vec![];
            let path = tmp_path("sweep.meshb");
            let mut files = 0;
            for nv in nv0..=nv1 {
                // one more node shifts every block header by 24/32 bytes across the 8 KiB boundaries
                let Some(m) = large_mesh(nv, scale, "rand", seed.wrapping_add(nv as u64 % 2)) else { return false };
                let m2 = m.clone();
                let p2 = path.clone();
                match catch(move || {
                    let mut buf = vec![];
                    m2.to_mesh().serialize_medit_binary(&mut buf).map_err(|e| e.to_string())?;
                    std::fs::write(&p2, &buf).map_err(|e| e.to_string())?;
                    Mesh::from_file(&p2).map(|x| M::of_mesh(&x)).map_err(|e| e.to_string())
                }) {
                    Caught::Ok(Ok(x)) if x == m => ctx.count("corner:binary_file_ok"),
                    Caught::Ok(Ok(_)) => bad.push(format!("{} nodes: different mesh", nv)),
                    Caught::Ok(Err(e)) => bad.push(format!("{} nodes: {}", nv, e)),
                    Caught::Panic(e) => bad.push(format!("{} nodes: panic {}", nv, e)),
                    Caught::Hang => bad.push(format!("{} nodes: hang", nv)),
                }
                files += 1;
            }
            let _ = std::fs::remove_file(&path);
            ctx.count("corner:file_layout_binary");
            let out = if bad.is_empty() { format!("ok files={}", files) } else { format!("MISMATCH {}", bad[0]) };
            let idx = ctx.record(op.to_string(), out, true);
            if !bad.is_empty() {
                bad.truncate(5);
                ctx.fail(idx, "binary-file-roundtrip", bad.join("; "));
            }
            true
        }
        _ => false,
    }
}

// ---------------------------------------------------------------- runner + oracle

pub fn run_op(ctx: &mut Ctx, op: &str) {
    if ctx.hang_limit_reached() {
        return;
    }
    let mut it = op.split_whitespace();
    let bad = |ctx: &mut Ctx| {
        ctx.record(op.to_string(), "bad-op".into(), false);
    };
    match it.next() {
        Some("penc") => {
            let Some(ids) = take(&mut it, |s| s.parse::<usize>().ok()) else { return bad(ctx) };
            if it.next().is_some() {
                return bad(ctx);
            }
            let ids2 = ids.clone();
            let r = catch(move || {
                let mut buf = vec![];
                partition::write(&mut buf, ids2.iter().cloned()).map_err(|e| e.to_string())?;
                let back = partition::read(&buf[..]);
                Ok::<_, String>((buf, back))
            });
            let mut verdict = None;
            let out = match r {
                Caught::Ok(Ok((buf, back))) => {
                    // independent statement of the format (mesh-part(1)): magic, count, ids, all LE
                    let mut spec = b"MePe".to_vec();
                    spec.extend((ids.len() as u64).to_le_bytes());
                    for i in &ids {
                        spec.extend((*i as u64).to_le_bytes());
                    }
                    if buf != spec {
                        verdict = Some(("partition-format", "bytes differ from the documented layout".to_string()));
                    }
                    let ids3 = ids.clone();
                    let d = match catch(|| short_write_check(&buf, &|w| partition::write(w, ids3.iter().cloned()).map_err(|e| e.to_string()))) {
                        Caught::Ok(d) => d,
                        Caught::Panic(m) => Some(format!("panic {}", m)),
                        Caught::Hang => Some("hang".into()),
                    };
                    if let (Some(d), true) = (d, verdict.is_none()) {
                        verdict = Some(("writer-short-write", format!("partition::write: {}", d)));
                    }
                    ctx.count("short_writer_checks");
                    match &back {
                        Ok(v) if *v == ids => {}
                        other => {
                            verdict = Some(("partition-roundtrip", format!("wrote {:?}, read {}", ids, fmt_ids(other))));
                        }
                    }
                    format!("{} | {}", cap(hex(&buf)), fmt_ids(&back))
                }
                Caught::Ok(Err(e)) => format!("writer-error {}", e),
                Caught::Panic(m) => {
                    verdict = Some(("partition-panic", m.clone()));
                    format!("panic {}", m)
                }
                Caught::Hang => "hang".into(),
            };
            ctx.count("penc");
            let idx = ctx.record(op.to_string(), out, !ids.is_empty());
            if let Some((sig, what)) = verdict {
                ctx.fail(idx, sig, what);
            }
        }
        Some("pdec") => {
            let Some(b) = it.next().and_then(unhex) else { return bad(ctx) };
            let (out, panicked) = finish(String::new(), catch(move || fmt_ids(&partition::read(&b[..]))));
            if panicked {
                ctx.count("malformed_input_panic");
            }
            ctx.count(&format!("pdec_{}", out.split(' ').take(2).collect::<Vec<_>>().join("_").chars().take(16).collect::<String>()));
            ctx.record(op.to_string(), out, false);
        }
        Some("wenc") => {
            let (Some(kind), Some(n), Some(c)) = (it.next(), it.next().and_then(|s| s.parse::<usize>().ok()), it.next().and_then(|s| s.parse::<usize>().ok())) else {
                return bad(ctx);
            };
            let Some(total) = n.checked_mul(c) else { return bad(ctx) };
            let toks: Vec<&str> = it.collect();
            if toks.len() != total {
                return bad(ctx);
            }
            let mut verdict = None;
            let in_quantifier = n >= 1 && c >= 1 && c <= u16::MAX as usize;
            let res: Caught<Result<(Vec<u8>, weight::Result<weight::Array>), String>>;
            let mut same = false;
            let mut sw: Option<String> = None;
            if kind == "i" {
                let Some(vals) = toks.iter().map(|s| s.parse::<i64>().ok()).collect::<Option<Vec<i64>>>() else { return bad(ctx) };
                let rows: Vec<Vec<i64>> = (0..n).map(|i| vals[i * c..(i + 1) * c].to_vec()).collect();
                let rows2 = rows.clone();
                res = catch(move || {
                    let mut buf = vec![];
                    weight::write_integers(&mut buf, rows2.iter().map(|r| r.iter().cloned())).map_err(|e| e.to_string())?;
                    let back = weight::read(&buf[..]);
                    Ok((buf, back))
                });
                if let Caught::Ok(Ok((_, Ok(weight::Array::Integers(back))))) = &res {
                    same = *back == rows;
                }
                if let Caught::Ok(Ok((buf, _))) = &res {
                    sw = short_write_verdict(buf, &|w| weight::write_integers(w, rows.iter().map(|r| r.iter().cloned())).map_err(|e| e.to_string()));
                    ctx.count("short_writer_checks");
                }
            } else if kind == "f" {
                let Some(vals) = toks.iter().map(|s| u64::from_str_radix(s, 16).ok()).collect::<Option<Vec<u64>>>() else { return bad(ctx) };
                let rows: Vec<Vec<u64>> = (0..n).map(|i| vals[i * c..(i + 1) * c].to_vec()).collect();
                let rows2 = rows.clone();
                res = catch(move || {
                    let mut buf = vec![];
                    weight::write_floats(&mut buf, rows2.iter().map(|r| r.iter().map(|b| f64::from_bits(*b)))).map_err(|e| e.to_string())?;
                    let back = weight::read(&buf[..]);
                    Ok((buf, back))
                });
                if let Caught::Ok(Ok((_, Ok(weight::Array::Floats(back))))) = &res {
                    // bit-identical, NaN payloads included
                    let bits: Vec<Vec<u64>> = back.iter().map(|r| r.iter().map(|x| x.to_bits()).collect()).collect();
                    same = bits == rows;
                }
                if let Caught::Ok(Ok((buf, _))) = &res {
                    sw = short_write_verdict(buf, &|w| weight::write_floats(w, rows.iter().map(|r| r.iter().map(|b| f64::from_bits(*b)))).map_err(|e| e.to_string()));
                    ctx.count("short_writer_checks");
                }
            } else {
                return bad(ctx);
            }
            let out = match res {
                Caught::Ok(Ok((buf, back))) => {
                    if in_quantifier && !same {
                        verdict = Some(("weights-roundtrip", format!("{} rows x {} criteria ({}) read back as {}", n, c, kind, fmt_w(&back))));
                    }
                    if n == 0 && kind == "i" && !same {
                        verdict = Some(("weights-empty-int", format!("read back as {}", fmt_w(&back))));
                    }
                    if !in_quantifier && !same {
                        ctx.count(&format!("outside_quantifier_not_identical_{}_{}", kind, if n == 0 { "empty" } else { "zero_width" }));
                    }
                    if let (Some(d), true) = (sw.take(), verdict.is_none() && in_quantifier) {
                        verdict = Some(("writer-short-write", format!("weight::write_{}: {}", if kind == "i" { "integers" } else { "floats" }, d)));
                    }
                    format!("{} | {}", cap(hex(&buf)), fmt_w(&back))
                }
                Caught::Ok(Err(e)) => format!("writer-error {}", e),
                Caught::Panic(m) => {
                    if in_quantifier {
                        verdict = Some(("weights-panic", m.clone()));
                    } else {
                        ctx.count("outside_quantifier_panic");
                    }
                    format!("panic {}", m)
                }
                Caught::Hang => "hang".into(),
            };
            ctx.count("wenc");
            let idx = ctx.record(op.to_string(), out, in_quantifier);
            if let Some((sig, what)) = verdict {
                ctx.fail(idx, sig, what);
            }
        }
        Some("wdec") => {
            let Some(b) = it.next().and_then(unhex) else { return bad(ctx) };
            let (out, panicked) = finish(String::new(), catch(move || fmt_w(&weight::read(&b[..]))));
            if panicked {
                ctx.count("malformed_input_panic");
            }
            ctx.count(&format!("wdec_{}", out.split(' ').take(2).collect::<Vec<_>>().join("_").chars().take(16).collect::<String>()));
            ctx.record(op.to_string(), out, false);
        }
        Some(kind @ ("mbenc" | "maenc")) => {
            let Some(m) = parse_mesh(&mut it) else { return bad(ctx) };
            if !m.raw_parts_ok() {
                return bad(ctx);
            }
            let binary = kind == "mbenc";
            if !binary {
                // the table is for the model; check it is Rust's own Display, and sample the
                // trusted contract parse(display(x)) == x
                let given: Vec<&str> = it.collect();
                let want = show_table(&m);
                if given.join(" ") != want {
                    return bad(ctx);
                }
            } else if it.next().is_some() {
                return bad(ctx);
            }
            // the hypotheses of the theorems = the property's quantifier + type ranges
            let node_limit = if binary { i64::MAX as usize - 1 } else { usize::MAX - 1 };
            let in_quantifier = (m.dim == 2 || m.dim == 3)
                && m.coords.iter().all(|c| f64::from_bits(*c).is_finite())
                && m.blocks.iter().all(|(t, n, _)| QUANT.contains(t) && n.iter().all(|x| *x <= node_limit));
            let mut verdict = None;
            if !binary {
                for c in &m.coords {
                    let x = f64::from_bits(*c);
                    if x.is_finite() {
                        match format!("{}", x).parse::<f64>() {
                            Ok(y) if y.to_bits() == *c => ctx.count("std_contract_f64_sampled_ok"),
                            _ => verdict = Some(("std-f64-display-parse", format!("{:x}", c))),
                        }
                    }
                }
            }
            let m2 = m.clone();
            let r = catch(move || {
                let mesh = m2.to_mesh();
                let mut buf = vec![];
                if binary {
                    mesh.serialize_medit_binary(&mut buf).map_err(|e| e.to_string())?;
                } else {
                    buf = mesh.display_medit_ascii().to_string().into_bytes();
                }
                Ok::<_, String>(buf)
            });
            let out = match r {
                Caught::Ok(Ok(buf)) => {
                    let dec = decode_any(ctx, &buf);
                    // from_reader must dispatch to the parser of the writer's format
                    let direct = {
                        let b = buf.clone();
                        catch(move || {
                            let r = if binary { medit::parse_binary(&b[..]) } else { medit::parse_ascii(&b[..]) };
                            format!("{} {}", if binary { "bin" } else { "ascii" }, fmt_mesh(&r.map_err(mesh_io::Error::from)))
                        })
                    };
                    let want = format!("{} {}", if binary { "bin" } else { "ascii" }, cap(format!("ok {}", m.fmt())));
                    match (&dec, &direct) {
                        (Caught::Ok(a), Caught::Ok(b)) => {
                            if a != b {
                                verdict = Some(("sniff-dispatch", format!("from_reader: {} / direct parser: {}", a, b)));
                            }
                            if in_quantifier && *a != want {
                                verdict = Some((if binary { "meditbin-roundtrip" } else { "meditascii-roundtrip" }, format!("wrote {} read {}", m.fmt(), a)));
                            }
                            if !in_quantifier {
                                ctx.count(if *a == want { "outside_quantifier_identical" } else { "outside_quantifier_not_identical" });
                            }
                        }
                        (Caught::Panic(p), _) => {
                            if in_quantifier {
                                verdict = Some(("medit-read-panic", p.clone()));
                            } else {
                                ctx.count("outside_quantifier_panic");
                            }
                        }
                        _ => {}
                    }
                    if binary && in_quantifier && verdict.is_none() {
                        let mesh = m.to_mesh();
                        ctx.count("short_writer_checks");
                        if let Some(d) = short_write_verdict(&buf, &|w| mesh.serialize_medit_binary(w).map_err(|e| e.to_string())) {
                            verdict = Some(("writer-short-write", format!("serialize_medit_binary: {}", d)));
                        }
                    }
                    let prefix = if binary { format!("{} | ", cap(hex(&buf))) } else { format!("{} | tok=1 | ", cap(hex(&buf))) };
                    finish(prefix, dec).0
                }
                Caught::Ok(Err(e)) => format!("writer-error {}", e),
                Caught::Panic(p) => {
                    if in_quantifier {
                        verdict = Some(("medit-write-panic", p.clone()));
                    } else {
                        ctx.count("outside_quantifier_panic");
                    }
                    format!("panic {}", p)
                }
                Caught::Hang => "hang".into(),
            };
            ctx.count(kind);
            ctx.count(&format!("{}_blocks_{}", kind, m.blocks.len()));
            let nontrivial = in_quantifier && (!m.refs.is_empty() || !m.blocks.is_empty());
            let idx = ctx.record(op.to_string(), out, nontrivial);
            if let Some((sig, what)) = verdict {
                ctx.fail(idx, sig, what);
            }
        }
        Some("mdec") => {
            let Some(b) = it.next().and_then(unhex) else { return bad(ctx) };
            let given: Vec<&str> = it.collect();
            if given.join(" ") != parse_table(&b) {
                return bad(ctx);
            }
            let dec = decode_any(ctx, &b);
            let (out, panicked) = finish(String::new(), dec);
            if panicked {
                ctx.count("malformed_input_panic");
            }
            ctx.count(&format!("mdec_{}", out.split(' ').take(3).collect::<Vec<_>>().join("_").chars().take(20).collect::<String>()));
            ctx.record(op.to_string(), out, false);
        }
        Some("plarge" | "wlarge" | "mlarge" | "mpad" | "mbfile") => {
            if !run_large(ctx, op) {
                bad(ctx)
            }
        }
        _ => bad(ctx),
    }
}
