//! C03 — Rcb/Rib parts are the leaves of a recursive axis-aligned bisection.
//!
//! ops (floats as hex bit patterns, points point-major):
//! * `rcb <D> <iter> <tol f64> <threads> <plen> <nw> <w…> <np> <x f64 … np·D>`
//!   out: `ok <ids>` | `lenmismatch` | `panic …` | `hang`   (array pre-filled with `usize::MAX`)
//! * `rcbreuse <D> <iter> <tol f64> <threads> <prev iter> <plen> <nw> <w…> <np> <x f64 … np·D>`
//!   the same on an array that holds the ids of a previous call with `iter_count = prev iter`
//! * `rib <D> <iter> <tol f64> <threads> <n> <w…> <orig f64 … n·D> <rot f64 … n·D>`
//!   (`rot` = the points in the frame Rib builds, from the `obb_frame` hook in a 1-thread pool)
//!   out: `ok <ids>` | `frame-mismatch` | `lenmismatch` | `panic …` | `hang`
//! * `reorder <D> <coord> <pivot> <n> <w…> <x f32 … n·D>`
//!   out: `ok <split> | <item ids in final order>` | `soa-mismatch` | `panic …`
//! * `split <D> <coord> <tol f64> <min f32> <max f32> <n> <w…> <x f32 … n·D>`
//!   out: `ok <split> <weight_left> <split_pos f32> | <item ids in final order>` | `panic …` | `hang`
//!
//! Oracle (independent of the model): the ids, shifted by some offset, are leaf codes of a
//! binary tree of depth `iter` whose level `d` separates STRICTLY on axis `d % D` (f32
//! coordinates); equal points share a part; ids < 2^iter. `reorder`/`split`: the result is a
//! permutation that is a strict partition around the pivot / strictly separated.

use crate::common::*;
use coupe::rayon::prelude::*;
use coupe::Partition as _;
use coupe::PointND;
use std::collections::HashMap;

const TOLS: [f64; 4] = [0.0, 0.01, 0.05, 0.5];
const THREADS: [usize; 3] = [1, 4, 16];
/// the tree oracle enumerates 2^iter offsets; beyond this depth it is skipped (never generated)
const MAX_ORACLE_ITER: usize = 16;

// ------------------------------------------------------------------ op lines

enum Op {
    /// `prev`: `None` = the array is pre-filled with `usize::MAX`; `Some(p)` = it holds the ids of a
    /// previous `Rcb` call with `iter_count = p` on the same input (an array that is reused)
    Rcb { d: usize, iter: usize, tol: f64, threads: usize, prev: Option<usize>, var: Option<String>, plen: usize, ws: Vec<i64>, np: usize, xs: Vec<f64> },
    Rib { d: usize, iter: usize, tol: f64, threads: usize, var: Option<String>, n: usize, ws: Vec<i64>, orig: Vec<f64>, rot: Vec<f64> },
    Reorder { d: usize, coord: usize, pivot: usize, n: usize, ws: Vec<i64>, xs: Vec<f32> },
    Split { d: usize, coord: usize, tol: f64, min: f32, max: f32, n: usize, ws: Vec<i64>, xs: Vec<f32> },
}

fn h64(x: f64) -> String {
    format!("{:x}", x.to_bits())
}

fn h32(x: f32) -> String {
    format!("{:x}", x.to_bits())
}

fn format_rcb(d: usize, iter: usize, tol: f64, threads: usize, plen: usize, ws: &[i64], np: usize, xs: &[f64]) -> String {
    let mut t: Vec<String> = vec!["rcb".into(), d.to_string(), iter.to_string(), h64(tol), threads.to_string()];
    t.push(plen.to_string());
    t.push(ws.len().to_string());
    t.extend(ws.iter().map(|w| w.to_string()));
    t.push(np.to_string());
    t.extend(xs.iter().map(|x| h64(*x)));
    t.join(" ")
}

/// `rcbreuse <D> <iter> <tol> <threads> <prev iter> <plen> <nw> <w…> <np> <x…>`: as `rcb`, on an array
/// that still holds the ids of a previous call with `iter_count = prev iter` (same input, same pool).
#[allow(clippy::too_many_arguments)]
fn format_rcb_reuse(d: usize, iter: usize, tol: f64, threads: usize, prev: usize, plen: usize, ws: &[i64], np: usize, xs: &[f64]) -> String {
    let mut t: Vec<String> =
        vec!["rcbreuse".into(), d.to_string(), iter.to_string(), h64(tol), threads.to_string(), prev.to_string()];
    t.push(plen.to_string());
    t.push(ws.len().to_string());
    t.extend(ws.iter().map(|w| w.to_string()));
    t.push(np.to_string());
    t.extend(xs.iter().map(|x| h64(*x)));
    t.join(" ")
}

/// `rcbvar <D> <iter> <tol> <threads> <variant> <plen> <nw> <w…> <np> <x…>`: as `rcb`; additionally the
/// same data is fed through another legal input type / calling context / with the zero signs
/// normalised (`VARIANTS`) and must give the same ids.
#[allow(clippy::too_many_arguments)]
fn format_rcb_var(d: usize, iter: usize, tol: f64, threads: usize, var: &str, ws: &[i64], xs: &[f64]) -> String {
    let n = ws.len();
    let mut t: Vec<String> =
        vec!["rcbvar".into(), d.to_string(), iter.to_string(), h64(tol), threads.to_string(), var.to_string()];
    t.push(n.to_string());
    t.push(n.to_string());
    t.extend(ws.iter().map(|w| w.to_string()));
    t.push(n.to_string());
    t.extend(xs.iter().map(|x| h64(*x)));
    t.join(" ")
}

#[allow(clippy::too_many_arguments)]
fn format_rib_var(d: usize, iter: usize, tol: f64, threads: usize, var: &str, ws: &[i64], orig: &[f64], rot: &[f64]) -> String {
    let mut t: Vec<String> =
        vec!["ribvar".into(), d.to_string(), iter.to_string(), h64(tol), threads.to_string(), var.to_string(), ws.len().to_string()];
    t.extend(ws.iter().map(|w| w.to_string()));
    t.extend(orig.iter().map(|x| h64(*x)));
    t.extend(rot.iter().map(|x| h64(*x)));
    t.join(" ")
}

fn format_rib(d: usize, iter: usize, tol: f64, threads: usize, ws: &[i64], orig: &[f64], rot: &[f64]) -> String {
    let mut t: Vec<String> = vec!["rib".into(), d.to_string(), iter.to_string(), h64(tol), threads.to_string()];
    t.push(ws.len().to_string());
    t.extend(ws.iter().map(|w| w.to_string()));
    t.extend(orig.iter().map(|x| h64(*x)));
    t.extend(rot.iter().map(|x| h64(*x)));
    t.join(" ")
}

fn format_reorder(d: usize, coord: usize, pivot: usize, ws: &[i64], xs: &[f32]) -> String {
    let mut t: Vec<String> = vec!["reorder".into(), d.to_string(), coord.to_string(), pivot.to_string()];
    t.push(ws.len().to_string());
    t.extend(ws.iter().map(|w| w.to_string()));
    t.extend(xs.iter().map(|x| h32(*x)));
    t.join(" ")
}

fn format_split(d: usize, coord: usize, tol: f64, min: f32, max: f32, ws: &[i64], xs: &[f32]) -> String {
    let mut t: Vec<String> = vec!["split".into(), d.to_string(), coord.to_string(), h64(tol), h32(min), h32(max)];
    t.push(ws.len().to_string());
    t.extend(ws.iter().map(|w| w.to_string()));
    t.extend(xs.iter().map(|x| h32(*x)));
    t.join(" ")
}

struct Toks<'a>(std::str::SplitWhitespace<'a>);

impl<'a> Toks<'a> {
    fn word(&mut self) -> Option<&'a str> {
        self.0.next()
    }
    fn nat(&mut self) -> Option<usize> {
        self.0.next()?.parse().ok()
    }
    fn f64(&mut self) -> Option<f64> {
        Some(f64::from_bits(u64::from_str_radix(self.0.next()?, 16).ok()?))
    }
    fn f32(&mut self) -> Option<f32> {
        Some(f32::from_bits(u32::from_str_radix(self.0.next()?, 16).ok()?))
    }
    fn ints(&mut self, n: usize) -> Option<Vec<i64>> {
        let mut v = Vec::new();
        for _ in 0..n {
            v.push(self.0.next()?.parse().ok()?);
        }
        Some(v)
    }
    fn f64s(&mut self, n: usize) -> Option<Vec<f64>> {
        let mut v = Vec::new();
        for _ in 0..n {
            v.push(self.f64()?);
        }
        Some(v)
    }
    fn f32s(&mut self, n: usize) -> Option<Vec<f32>> {
        let mut v = Vec::new();
        for _ in 0..n {
            v.push(self.f32()?);
        }
        Some(v)
    }
    fn end(&mut self) -> Option<()> {
        if self.0.next().is_none() {
            Some(())
        } else {
            None
        }
    }
}

fn parse_op(op: &str) -> Option<Op> {
    let mut t = Toks(op.split_whitespace());
    let kind = t.word()?;
    let d = t.nat()?;
    if d != 2 && d != 3 {
        return None;
    }
    match kind {
        "rcb" | "rcbreuse" | "rcbvar" => {
            let iter = t.nat()?;
            let tol = t.f64()?;
            let threads = t.nat()?;
            let prev = if kind == "rcbreuse" { Some(t.nat()?) } else { None };
            let var = if kind == "rcbvar" { Some(t.word()?.to_string()) } else { None };
            if let Some(v) = &var {
                if !VARIANTS.contains(&v.as_str()) {
                    return None;
                }
            }
            if prev.map_or(false, |p| p > 16) {
                return None;
            }
            let plen = t.nat()?;
            let nw = t.nat()?;
            let ws = t.ints(nw)?;
            let np = t.nat()?;
            let xs = t.f64s(np.checked_mul(d)?)?;
            t.end()?;
            Some(Op::Rcb { d, iter, tol, threads, prev, var, plen, ws, np, xs })
        }
        "rib" | "ribvar" => {
            let iter = t.nat()?;
            let tol = t.f64()?;
            let threads = t.nat()?;
            let var = if kind == "ribvar" { Some(t.word()?.to_string()) } else { None };
            if let Some(v) = &var {
                if !RIB_VARIANTS.contains(&v.as_str()) {
                    return None;
                }
            }
            let n = t.nat()?;
            let ws = t.ints(n)?;
            let orig = t.f64s(n.checked_mul(d)?)?;
            let rot = t.f64s(n * d)?;
            t.end()?;
            Some(Op::Rib { d, iter, tol, threads, var, n, ws, orig, rot })
        }
        "reorder" => {
            let coord = t.nat()?;
            let pivot = t.nat()?;
            let n = t.nat()?;
            let ws = t.ints(n)?;
            let xs = t.f32s(n.checked_mul(d)?)?;
            t.end()?;
            if coord >= d {
                return None;
            }
            Some(Op::Reorder { d, coord, pivot, n, ws, xs })
        }
        "split" => {
            let coord = t.nat()?;
            let tol = t.f64()?;
            let min = t.f32()?;
            let max = t.f32()?;
            let n = t.nat()?;
            let ws = t.ints(n)?;
            let xs = t.f32s(n.checked_mul(d)?)?;
            t.end()?;
            if coord >= d {
                return None;
            }
            Some(Op::Split { d, coord, tol, min, max, n, ws, xs })
        }
        _ => None,
    }
}

// ------------------------------------------------------------------ running the implementation

/// what `partition` returned, without the (non-`'static`-friendly) error type
#[derive(Clone, Debug, PartialEq)]
pub(crate) enum St {
    Ok,
    LenMismatch,
    Other(String),
}

fn status(r: Result<(), coupe::Error>) -> St {
    match r {
        Ok(()) => St::Ok,
        Err(coupe::Error::InputLenMismatch { .. }) => St::LenMismatch,
        Err(e) => St::Other(format!("{:?}", e)),
    }
}

fn to_points<const D: usize>(xs: &[f64]) -> Vec<PointND<D>> {
    xs.chunks_exact(D).map(|c| PointND::<D>::from_column_slice(c)).collect()
}

fn pool_size(threads: usize) -> usize {
    threads.clamp(1, 64)
}

fn run_rcb<const D: usize>(
    iter: usize,
    tol: f64,
    threads: usize,
    prev: Option<usize>,
    plen: usize,
    ws: Vec<i64>,
    xs: Vec<f64>,
) -> Caught<(St, Vec<usize>)> {
    catch_timeout(60, move || {
        let points: Vec<PointND<D>> = to_points::<D>(&xs);
        // a cell the call fails to write keeps the sentinel, resp. the stale id of the previous call
        let mut ids = vec![usize::MAX; plen];
        let r = with_pool(pool_size(threads), || {
            if let Some(p) = prev {
                let _ = coupe::Rcb { iter_count: p, tolerance: tol }.partition(&mut ids, (points.clone(), ws.clone()));
            }
            coupe::Rcb { iter_count: iter, tolerance: tol }.partition(&mut ids, (points, ws))
        });
        (status(r), ids)
    })
}

// ------------------------------------------------------------------ input types, contexts, zero signs

/// Other legal ways to hand the same data to `Rcb::partition` / to call it. Every one must return
/// the ids of the plain call (`Vec<PointND>`, `Vec<i64>`, inside `pool.install`).
pub(crate) const VARIANTS: [&str; 20] = [
    // points: the impl takes any `IntoParallelIterator<Item = PointND<D>>` whose iterator is indexed and `Clone`
    "pts_par_cloned",
    "pts_into_par_map",
    "pts_min_len",
    "pts_max_len",
    // weights: any `IntoParallelIterator` (indexed) of an `RcbWeight`
    "w_par_cloned",
    "w_into_par_map",
    "w_min_len",
    "w_max_len",
    "w_f64",
    "w_f32",
    "w_i32",
    "w_u32",
    "w_u64",
    // zero signs: `-0.0` weights (f64), an odd / an even number of them; `-0.0` coordinates on the line
    "w_f64_negzero_odd",
    "w_f64_negzero_even",
    "coord_poszero",
    // calling context
    "ctx_global",
    "ctx_in_task",
    "ctx_concurrent",
    "both_par_max_len",
];

pub(crate) const RIB_VARIANTS: [&str; 3] = ["w_f64", "w_f64_negzero_odd", "coord_poszero"];

pub(crate) fn variant_sig(var: &str, algo: &str) -> String {
    let class = if var.starts_with("ctx_") {
        "context-dependent"
    } else if var.contains("negzero") || var == "coord_poszero" {
        "negzero-dependent"
    } else {
        "input-type-dependent"
    };
    format!("{}@{}", class, algo)
}

/// `-0.0` → `+0.0`
fn poszero(xs: &[f64]) -> Vec<f64> {
    xs.iter().map(|v| if *v == 0.0 { 0.0 } else { *v }).collect()
}

/// The weights as `f64`, with `-0.0` in place of an odd / even number (≥ 1 / ≥ 2) of the zero
/// weights; `None` when there are not enough zero weights.
fn negzero_weights(ws: &[i64], odd: bool) -> Option<Vec<f64>> {
    let zeros: Vec<usize> = (0..ws.len()).filter(|&i| ws[i] == 0).collect();
    let k = if odd {
        if zeros.is_empty() {
            return None;
        }
        if zeros.len() >= 3 { 3 } else { 1 }
    } else {
        if zeros.len() < 2 {
            return None;
        }
        zeros.len() - zeros.len() % 2
    };
    let mut w: Vec<f64> = ws.iter().map(|v| *v as f64).collect();
    // spread over the zero weights, not only the first ones
    let step = (zeros.len() / k).max(1);
    for j in 0..k {
        w[zeros[(j * step).min(zeros.len() - 1)]] = -0.0;
    }
    // `step` may map two j to the same index only when k == zeros.len(): then every zero is taken
    if w.iter().filter(|v| **v == 0.0 && v.is_sign_negative()).count() % 2 != (k % 2) {
        return None;
    }
    Some(w)
}

/// Runs the variant; `None` = not applicable to this input (e.g. `f32` weights whose total is not exact).
fn variant_d<const D: usize>(
    var: String,
    iter: usize,
    tol: f64,
    threads: usize,
    ws: Vec<i64>,
    xs: Vec<f64>,
) -> Option<Caught<(St, Vec<usize>)>> {
    let n = ws.len();
    let total: i64 = ws.iter().sum();
    if ws.iter().any(|w| *w < 0) {
        return None;
    }
    match var.as_str() {
        // sums must stay exact in the weight type (the contract: sums that do not overflow / exact weights)
        "w_f32" if total >= 1 << 24 => return None,
        "w_i32" if total > i32::MAX as i64 => return None,
        "w_u32" if total > u32::MAX as i64 => return None,
        "w_f64" | "w_f64_negzero_odd" | "w_f64_negzero_even" if total >= 1 << 53 => return None,
        _ => {}
    }
    let nz = match var.as_str() {
        "w_f64_negzero_odd" => Some(negzero_weights(&ws, true)?),
        "w_f64_negzero_even" => Some(negzero_weights(&ws, false)?),
        _ => None,
    };
    Some(catch_timeout(60, move || {
        let pool = pool_size(threads);
        let xs = if var == "coord_poszero" { poszero(&xs) } else { xs };
        let points: Vec<PointND<D>> = to_points::<D>(&xs);
        let mut ids = vec![usize::MAX; n];
        let mut a = coupe::Rcb { iter_count: iter, tolerance: tol };
        let chunk = 1 + n / 3;
        let r = match var.as_str() {
            "pts_par_cloned" => with_pool(pool, || a.partition(&mut ids, (points.par_iter().cloned(), ws))),
            "pts_into_par_map" => {
                let pts = &points;
                with_pool(pool, || a.partition(&mut ids, ((0..n).into_par_iter().map(move |i| pts[i]), ws)))
            }
            "pts_min_len" => with_pool(pool, || a.partition(&mut ids, (points.par_iter().cloned().with_min_len(chunk), ws))),
            "pts_max_len" => with_pool(pool, || a.partition(&mut ids, (points.par_iter().cloned().with_max_len(7), ws))),
            "w_par_cloned" => with_pool(pool, || a.partition(&mut ids, (points, ws.par_iter().cloned()))),
            "w_into_par_map" => {
                let w = &ws;
                with_pool(pool, || a.partition(&mut ids, (points, (0..n).into_par_iter().map(move |i| w[i]))))
            }
            "w_min_len" => with_pool(pool, || a.partition(&mut ids, (points, ws.par_iter().cloned().with_min_len(chunk)))),
            "w_max_len" => with_pool(pool, || a.partition(&mut ids, (points, ws.par_iter().cloned().with_max_len(5)))),
            "both_par_max_len" => with_pool(pool, || {
                a.partition(
                    &mut ids,
                    (points.par_iter().cloned().with_max_len(3), ws.par_iter().cloned().with_max_len(11)),
                )
            }),
            "w_f64" => {
                let w: Vec<f64> = ws.iter().map(|v| *v as f64).collect();
                with_pool(pool, || a.partition(&mut ids, (points, w)))
            }
            "w_f64_negzero_odd" | "w_f64_negzero_even" => {
                let w = nz.unwrap();
                with_pool(pool, || a.partition(&mut ids, (points, w)))
            }
            "w_f32" => {
                let w: Vec<f32> = ws.iter().map(|v| *v as f32).collect();
                with_pool(pool, || a.partition(&mut ids, (points, w)))
            }
            "w_i32" => {
                let w: Vec<i32> = ws.iter().map(|v| *v as i32).collect();
                with_pool(pool, || a.partition(&mut ids, (points, w)))
            }
            "w_u32" => {
                let w: Vec<u32> = ws.iter().map(|v| *v as u32).collect();
                with_pool(pool, || a.partition(&mut ids, (points, w)))
            }
            "w_u64" => {
                let w: Vec<u64> = ws.iter().map(|v| *v as u64).collect();
                with_pool(pool, || a.partition(&mut ids, (points, w)))
            }
            "coord_poszero" => with_pool(pool, || a.partition(&mut ids, (points, ws))),
            // no `install`: this helper thread belongs to no pool, the call runs on the global one
            "ctx_global" => a.partition(&mut ids, (points, ws)),
            // from inside rayon tasks (nested joins inside a scope's spawned job)
            "ctx_in_task" => with_pool(pool, || {
                let mut r = None;
                coupe::rayon::scope(|s| {
                    s.spawn(|_| {
                        let ((x, _), _) = coupe::rayon::join(
                            || coupe::rayon::join(|| a.partition(&mut ids, (points, ws)), || std::hint::black_box(1)),
                            || std::hint::black_box(2),
                        );
                        r = Some(x);
                    });
                });
                r.expect("spawned job ran")
            }),
            // 8..32 calls at once in one pool: every one must return what it returns alone
            "ctx_concurrent" => {
                let k = 8 + (n + iter) % 25;
                let inputs: Vec<(usize, Vec<PointND<D>>, Vec<i64>)> = (0..k)
                    .map(|j| {
                        let sh = if n > 0 { (j * 7919) % n } else { 0 };
                        let mut p = points.clone();
                        p.rotate_left(sh);
                        let mut w = ws.clone();
                        w.rotate_left(sh);
                        (if j == 0 { iter } else { 1 + (iter + j) % 4 }, p, w)
                    })
                    .collect();
                let one = |inp: &(usize, Vec<PointND<D>>, Vec<i64>)| {
                    let mut out = vec![usize::MAX; inp.1.len()];
                    let r = coupe::Rcb { iter_count: inp.0, tolerance: tol }.partition(&mut out, (inp.1.clone(), inp.2.clone()));
                    (status(r), out)
                };
                let alone: Vec<(St, Vec<usize>)> = with_pool(pool, || inputs.iter().map(one).collect());
                let together: Vec<(St, Vec<usize>)> = with_pool(pool, || inputs.par_iter().map(one).collect());
                if let Some(j) = (0..k).find(|&j| alone[j] != together[j]) {
                    return (
                        St::Other(format!("call {} of {} concurrent calls differs from the same call alone", j, k)),
                        together[j].1.clone(),
                    );
                }
                return together.into_iter().next().unwrap();
            }
            _ => unreachable!("variant checked by the parser"),
        };
        (status(r), ids)
    }))
}

/// The ids of `variant` on this input (for C04 as well). `None`: not applicable.
pub(crate) fn variant_ids(
    d: usize,
    var: &str,
    iter: usize,
    tol: f64,
    threads: usize,
    ws: &[i64],
    xs: &[f64],
) -> Option<Caught<(St, Vec<usize>)>> {
    if d == 2 {
        variant_d::<2>(var.to_string(), iter, tol, threads, ws.to_vec(), xs.to_vec())
    } else {
        variant_d::<3>(var.to_string(), iter, tol, threads, ws.to_vec(), xs.to_vec())
    }
}

/// Compare the variant with the plain call. `base`: canonical output line of the plain call.
pub(crate) fn variant_verdict(
    ctx: &mut Ctx,
    algo: &str,
    var: &str,
    base_ids: Option<&[usize]>,
    res: Option<Caught<(St, Vec<usize>)>>,
) -> Option<(String, String)> {
    let class = if var.starts_with("ctx_") { "context" } else if var.contains("zero") { "special" } else { "plumbing" };
    let Some(res) = res else {
        ctx.count(&format!("{}:{}_not_applicable", class, var));
        return None;
    };
    ctx.count(&format!("{}:{}", class, var));
    let sig = variant_sig(var, algo);
    match (res, base_ids) {
        (Caught::Ok((St::Ok, ids)), Some(b)) => {
            if ids == b {
                None
            } else {
                let k = (0..b.len().min(ids.len())).find(|&i| ids[i] != b[i]);
                Some((sig, format!("variant {} returns other ids than the plain call (first difference at point {:?}: {:?} vs {:?})", var, k, k.map(|i| ids[i]), k.map(|i| b[i]))))
            }
        }
        (Caught::Ok((St::Ok, _)), None) => Some((sig, format!("variant {} returns Ok, the plain call does not", var))),
        (Caught::Ok((st, _)), Some(_)) => Some((sig, format!("variant {} returns {:?}, the plain call Ok", var, st))),
        (Caught::Ok(_), None) => None,
        (Caught::Panic(m), _) => Some((sig, format!("variant {} panics: {}", var, m))),
        (Caught::Hang, _) => Some((sig, format!("variant {} hangs", var))),
    }
}

macro_rules! rib_variant_fn {
    ($name:ident, $d:literal) => {
        fn $name(var: String, iter: usize, tol: f64, ws: Vec<i64>, xs: Vec<f64>) -> Option<Caught<(St, Vec<usize>)>> {
            let n = ws.len();
            let nz = if var == "w_f64_negzero_odd" { Some(negzero_weights(&ws, true)?) } else { None };
            Some(catch_timeout(60, move || {
                let xs = if var == "coord_poszero" { poszero(&xs) } else { xs };
                let points: Vec<PointND<$d>> = to_points::<$d>(&xs);
                let mut ids = vec![usize::MAX; n];
                let mut a = coupe::Rib { iter_count: iter, tolerance: tol };
                // 1-thread pool: the frame is a parallel f64 sum
                let r = match var.as_str() {
                    "w_f64" => {
                        let w: Vec<f64> = ws.iter().map(|v| *v as f64).collect();
                        with_pool(1, || a.partition(&mut ids, (&points[..], w)))
                    }
                    "w_f64_negzero_odd" => {
                        let w = nz.unwrap();
                        with_pool(1, || a.partition(&mut ids, (&points[..], w)))
                    }
                    _ => with_pool(1, || a.partition(&mut ids, (&points[..], ws))),
                };
                (status(r), ids)
            }))
        }
    };
}
rib_variant_fn!(rib_variant_2, 2);
rib_variant_fn!(rib_variant_3, 3);

fn rib_variant(d: usize, var: &str, iter: usize, tol: f64, ws: &[i64], xs: &[f64]) -> Option<Caught<(St, Vec<usize>)>> {
    if d == 2 {
        rib_variant_2(var.to_string(), iter, tol, ws.to_vec(), xs.to_vec())
    } else {
        rib_variant_3(var.to_string(), iter, tol, ws.to_vec(), xs.to_vec())
    }
}

/// The frame hook in a 1-thread pool: the points as Rib's inner Rcb sees them (flat, point-major).
/// `Ok(None)` for no points.
fn frame_2(xs: &[f64]) -> Caught<Option<Vec<f64>>> {
    let points = to_points::<2>(xs);
    catch(move || {
        with_pool(1, || coupe::verif::geometry::obb_frame::<2>(&points))
            .map(|(m, _)| m.iter().flat_map(|p| p.iter().copied().collect::<Vec<f64>>()).collect())
    })
}

fn frame_3(xs: &[f64]) -> Caught<Option<Vec<f64>>> {
    let points = to_points::<3>(xs);
    catch(move || {
        with_pool(1, || coupe::verif::geometry::obb_frame::<3>(&points))
            .map(|(m, _)| m.iter().flat_map(|p| p.iter().copied().collect::<Vec<f64>>()).collect())
    })
}

fn frame(d: usize, xs: &[f64]) -> Caught<Option<Vec<f64>>> {
    if d == 2 {
        frame_2(xs)
    } else {
        frame_3(xs)
    }
}

fn run_rib_2(iter: usize, tol: f64, threads: usize, ws: Vec<i64>, xs: Vec<f64>) -> Caught<(St, Vec<usize>)> {
    catch_timeout(30, move || {
        let points = to_points::<2>(&xs);
        let mut ids = vec![usize::MAX; ws.len()];
        let r = with_pool(pool_size(threads), || {
            coupe::Rib { iter_count: iter, tolerance: tol }.partition(&mut ids, (&points[..], ws))
        });
        (status(r), ids)
    })
}

fn run_rib_3(iter: usize, tol: f64, threads: usize, ws: Vec<i64>, xs: Vec<f64>) -> Caught<(St, Vec<usize>)> {
    catch_timeout(30, move || {
        let points = to_points::<3>(&xs);
        let mut ids = vec![usize::MAX; ws.len()];
        let r = with_pool(pool_size(threads), || {
            coupe::Rib { iter_count: iter, tolerance: tol }.partition(&mut ids, (&points[..], ws))
        });
        (status(r), ids)
    })
}

fn run_rib(d: usize, iter: usize, tol: f64, threads: usize, ws: &[i64], xs: &[f64]) -> Caught<(St, Vec<usize>)> {
    if d == 2 {
        run_rib_2(iter, tol, threads, ws.to_vec(), xs.to_vec())
    } else {
        run_rib_3(iter, tol, threads, ws.to_vec(), xs.to_vec())
    }
}

/// point-major flat array → structure of arrays
fn soa<const D: usize>(xs: &[f32]) -> [Vec<f32>; D] {
    std::array::from_fn(|c| xs.chunks_exact(D).map(|p| p[c]).collect())
}

type ReorderOut = (Vec<Vec<f32>>, Vec<i64>, Vec<usize>, usize);

fn run_reorder<const D: usize>(xs: &[f32], ws: &[i64], pivot: usize, coord: usize) -> Caught<ReorderOut> {
    let coords = soa::<D>(xs);
    let ws = ws.to_vec();
    catch(move || {
        let (c, w, ids, split) = coupe::verif::rcb::reorder_split_scalar::<D>(coords, ws, pivot, coord);
        (c.to_vec(), w, ids, split)
    })
}

type SplitOut = (Vec<usize>, usize, i64, f32);

fn run_split<const D: usize>(xs: &[f32], ws: &[i64], coord: usize, tol: f64, min: f32, max: f32) -> Caught<SplitOut> {
    let coords = soa::<D>(xs);
    let ws = ws.to_vec();
    catch_timeout(30, move || coupe::verif::rcb::par_rcb_split::<D>(coords, ws, coord, tol, min, max))
}

// ------------------------------------------------------------------ oracle

fn is_permutation(ids: &[usize], n: usize) -> bool {
    if ids.len() != n {
        return false;
    }
    let mut seen = vec![false; n];
    for &i in ids {
        if i >= n || seen[i] {
            return false;
        }
        seen[i] = true;
    }
    true
}

/// One candidate tree: leaf index of point i = ids[i] + o. Level by level, every node (= set of
/// points sharing the first `lvl` path bits) must have max(low side) < min(high side) on axis
/// `lvl % d`. Returns the first failing node.
fn tree_fails(d: usize, k: usize, x: &[f32], ids: &[usize], o: usize) -> Option<String> {
    let n = ids.len();
    for lvl in 0..k {
        let axis = lvl % d;
        let nodes = 1usize << lvl;
        // (max of the low side, its point), (min of the high side, its point)
        let mut lo: Vec<Option<(f32, usize)>> = vec![None; nodes];
        let mut hi: Vec<Option<(f32, usize)>> = vec![None; nodes];
        for i in 0..n {
            let code = ids[i] + o;
            let node = code >> (k - lvl);
            let high = (code >> (k - 1 - lvl)) & 1 == 1;
            let v = x[i * d + axis];
            if high {
                match hi[node] {
                    Some((m, _)) if m <= v => {}
                    _ => hi[node] = Some((v, i)),
                }
            } else {
                match lo[node] {
                    Some((m, _)) if m >= v => {}
                    _ => lo[node] = Some((v, i)),
                }
            }
        }
        for node in 0..nodes {
            if let (Some((a, i)), Some((b, j))) = (lo[node], hi[node]) {
                if !(a < b) {
                    return Some(format!(
                        "offset {} level {} node {} axis {}: low-side point {} has {:?} (bits {:x}) >= high-side point {} with {:?} (bits {:x})",
                        o, lvl, node, axis, i, a, a.to_bits(), j, b, b.to_bits()
                    ));
                }
            }
        }
    }
    None
}

/// The property on an `ok` outcome: `x` = the f32 coordinates the bisection works on.
fn bisection_oracle(ctx: &mut Ctx, d: usize, k: usize, x: &[f32], ids: &[usize]) -> Option<(String, String)> {
    let n = ids.len();
    if x.len() != n * d {
        return Some(("rcb-ids-len".into(), format!("{} ids for {} points", n, x.len() / d)));
    }
    if n == 0 {
        return None;
    }
    if k > MAX_ORACLE_ITER {
        ctx.count("oracle_skipped_large_iter");
        return None;
    }
    if x.iter().any(|v| !v.is_finite()) {
        ctx.count("oracle_skipped_nonfinite");
        return None;
    }
    let leaves = 1usize << k;
    let max_id = *ids.iter().max().unwrap();
    if max_id >= leaves {
        return Some(("rcb-id-out-of-range".into(), format!("id {} with iter_count {}", max_id, k)));
    }
    // equal points (numerically: -0.0 == 0.0) share a part
    let mut seen: HashMap<Vec<u32>, usize> = HashMap::new();
    for i in 0..n {
        let key: Vec<u32> =
            x[i * d..(i + 1) * d].iter().map(|v| if *v == 0.0 { 0u32 } else { v.to_bits() }).collect();
        if let Some(&j) = seen.get(&key) {
            if ids[i] != ids[j] {
                return Some((
                    "rcb-same-point-split".into(),
                    format!("points {} and {} are equal as f32 but have parts {} and {}", j, i, ids[j], ids[i]),
                ));
            }
        } else {
            seen.insert(key, i);
        }
    }
    // some offset must give a strict bisection tree
    let mut first = None;
    for o in 0..=(leaves - 1 - max_id) {
        match tree_fails(d, k, x, ids, o) {
            None => {
                if o > 0 {
                    ctx.count("tree_offset_nonzero");
                }
                return None;
            }
            Some(w) => {
                if first.is_none() {
                    first = Some(w);
                }
            }
        }
    }
    Some(("rcb-not-a-bisection".into(), first.unwrap_or_default()))
}

fn ok_line(ids: &[usize]) -> String {
    if ids.is_empty() {
        "ok".to_string()
    } else {
        format!("ok {}", join(ids))
    }
}

/// Canonical output + verdict of an Rcb/Rib run. `x` = f32 coordinates seen by the bisection.
#[allow(clippy::too_many_arguments)]
fn judge_partition(
    ctx: &mut Ctx,
    res: Caught<(St, Vec<usize>)>,
    d: usize,
    iter: usize,
    lengths_ok: bool,
    finite: bool,
    x: &[f32],
) -> (String, Option<(String, String)>, bool) {
    match res {
        Caught::Ok((St::Ok, ids)) => {
            let v = if !lengths_ok {
                Some(("rcb-len-mismatch-ok".to_string(), "Ok despite a length mismatch".to_string()))
            } else {
                bisection_oracle(ctx, d, iter, x, &ids)
            };
            (ok_line(&ids), v, lengths_ok)
        }
        Caught::Ok((St::LenMismatch, _)) => {
            let v = if lengths_ok {
                Some(("rcb-spurious-lenmismatch".to_string(), "InputLenMismatch on matching lengths".to_string()))
            } else {
                None
            };
            ("lenmismatch".to_string(), v, false)
        }
        Caught::Ok((St::Other(e), _)) => (format!("err {}", e), Some(("rcb-unexpected-error".into(), e)), false),
        Caught::Panic(m) => {
            let v = if finite { Some((panic_sig(&m), m.clone())) } else { None };
            (format!("panic {}", m), v, false)
        }
        Caught::Hang => {
            let v = if finite { Some(("hang".to_string(), "watchdog (30 s)".to_string())) } else { None };
            ("hang".to_string(), v, false)
        }
    }
}

pub fn run_op(ctx: &mut Ctx, op: &str) {
    if ctx.hang_limit_reached() {
        return;
    }
    let Some(parsed) = parse_op(op) else {
        ctx.record(op.to_string(), "bad-op".into(), false);
        return;
    };
    let (out, verdict, nontrivial): (String, Option<(String, String)>, bool) = match parsed {
        Op::Rcb { d, iter, tol, threads, prev, var, plen, ws, np, xs } => {
            let lengths_ok = plen == ws.len() && plen == np;
            let finite = xs.iter().all(|v| v.is_finite());
            let x: Vec<f32> = xs.iter().map(|v| *v as f32).collect();
            let res = if d == 2 {
                run_rcb::<2>(iter, tol, threads, prev, plen, ws.clone(), xs.clone())
            } else {
                run_rcb::<3>(iter, tol, threads, prev, plen, ws.clone(), xs.clone())
            };
            let base_ids = match &res {
                Caught::Ok((St::Ok, ids)) => Some(ids.clone()),
                _ => None,
            };
            let (out, mut v, ok) = judge_partition(ctx, res, d, iter, lengths_ok, finite, &x);
            ctx.count(&format!("rcb_{}", out.split(' ').next().unwrap_or("")));
            if let (Some(var), true, None) = (&var, lengths_ok && finite, &v) {
                let r = variant_ids(d, var, iter, tol, threads, &ws, &xs);
                v = variant_verdict(ctx, "rcb", var, base_ids.as_deref(), r);
            }
            (out, v, ok && np >= 2 && iter >= 1)
        }
        Op::Rib { d, iter, tol, threads, var, n, ws, orig, rot } => {
            let finite = orig.iter().all(|v| v.is_finite());
            match frame(d, &orig) {
                Caught::Panic(m) => {
                    ctx.count("rib_frame_panic");
                    let v = if finite { Some((panic_sig(&m), m.clone())) } else { None };
                    (format!("panic {}", m), v, false)
                }
                Caught::Hang => unreachable!(),
                Caught::Ok(fr) => {
                    let fr = fr.unwrap_or_default();
                    let same = fr.len() == rot.len() && fr.iter().zip(&rot).all(|(a, b)| a.to_bits() == b.to_bits());
                    if !same {
                        ctx.count("rib_frame-mismatch");
                        ("frame-mismatch".to_string(), None, false)
                    } else {
                        let x: Vec<f32> = rot.iter().map(|v| *v as f32).collect();
                        let res = run_rib(d, iter, tol, 1, &ws, &orig);
                        let ids1 = match &res {
                            Caught::Ok((St::Ok, ids)) => Some(ids.clone()),
                            _ => None,
                        };
                        let (out, mut v, ok) = judge_partition(ctx, res, d, iter, true, finite, &x);
                        ctx.count(&format!("rib_{}", out.split(' ').next().unwrap_or("")));
                        if let (Some(var), true, None) = (&var, finite, &v) {
                            let r = rib_variant(d, var, iter, tol, &ws, &orig);
                            v = variant_verdict(ctx, "rib", var, ids1.as_deref(), r);
                        }
                        if threads > 1 {
                            // another property's business: only counted
                            let again = match run_rib(d, iter, tol, threads, &ws, &orig) {
                                Caught::Ok((St::Ok, ids)) => Some(ids),
                                _ => None,
                            };
                            ctx.count(if again == ids1 { "rib_pool_same" } else { "rib_pool_differs" });
                        }
                        (out, v, ok && n >= 2 && iter >= 1)
                    }
                }
            }
        }
        Op::Reorder { d, coord, pivot, n, ws, xs } => {
            let res = if d == 2 {
                run_reorder::<2>(&xs, &ws, pivot, coord)
            } else {
                run_reorder::<3>(&xs, &ws, pivot, coord)
            };
            match res {
                Caught::Ok((c2, w2, ids, split)) => {
                    let mut v = None;
                    let mut out = format!("ok {} | {}", split, join(&ids));
                    if pivot >= n {
                        v = Some(("reorder-no-panic".to_string(), format!("pivot {} >= n {} did not panic", pivot, n)));
                    } else if !is_permutation(&ids, n) || split > n {
                        v = Some(("reorder-not-permutation".to_string(), format!("ids {:?} split {}", ids, split)));
                    } else {
                        let soa_ok = c2.len() == d
                            && w2.len() == n
                            && (0..n).all(|k| {
                                w2[k] == ws[ids[k]]
                                    && (0..d).all(|c| {
                                        c2[c].len() == n && c2[c][k].to_bits() == xs[ids[k] * d + c].to_bits()
                                    })
                            });
                        let pv = xs[pivot * d + coord];
                        let bad = (0..n).find(|&k| (xs[ids[k] * d + coord] < pv) != (k < split));
                        if !soa_ok {
                            out = "soa-mismatch".to_string();
                            v = Some((
                                "reorder-soa-mismatch".to_string(),
                                "returned coordinates/weights are not the originals permuted by the ids".to_string(),
                            ));
                        } else if let Some(k) = bad {
                            v = Some((
                                "reorder-not-partition".to_string(),
                                format!(
                                    "position {} (item {}, value {:?}) is on the wrong side of pivot value {:?}, split {}",
                                    k,
                                    ids[k],
                                    xs[ids[k] * d + coord],
                                    pv,
                                    split
                                ),
                            ));
                        }
                    }
                    ctx.count("reorder_ok");
                    let nt = v.is_none() && n >= 2;
                    (out, v, nt)
                }
                Caught::Panic(m) => {
                    let v = if pivot < n { Some((panic_sig(&m), m.clone())) } else { None };
                    ctx.count("reorder_panic");
                    (format!("panic {}", m), v, false)
                }
                Caught::Hang => unreachable!(),
            }
        }
        Op::Split { d, coord, tol, min, max, n, ws, xs } => {
            let res = if d == 2 {
                run_split::<2>(&xs, &ws, coord, tol, min, max)
            } else {
                run_split::<3>(&xs, &ws, coord, tol, min, max)
            };
            let finite = xs.iter().all(|v| v.is_finite()) && min.is_finite() && max.is_finite();
            match res {
                Caught::Ok((ids, split, wl, pos)) => {
                    let out = format!("ok {} {} {:x} | {}", split, wl, pos.to_bits(), join(&ids));
                    let mut v = None;
                    if !is_permutation(&ids, n) || split > n {
                        v = Some(("split-not-permutation".to_string(), format!("ids {:?} split {}", ids, split)));
                    } else {
                        let val = |k: usize| xs[ids[k] * d + coord];
                        let l = (0..split).map(val).fold(f32::NEG_INFINITY, f32::max);
                        let r = (split..n).map(val).fold(f32::INFINITY, f32::min);
                        if split > 0 && split < n && !(l < r) {
                            v = Some((
                                "split-not-separated".to_string(),
                                format!("max of the left side {:?} >= min of the right side {:?}", l, r),
                            ));
                        }
                        ctx.count(if split == 0 {
                            "split_left_empty"
                        } else if split == n {
                            "split_right_empty"
                        } else {
                            "split_two_sided"
                        });
                    }
                    let nt = v.is_none() && n >= 2;
                    (out, v, nt)
                }
                Caught::Panic(m) => {
                    ctx.count("split_panic");
                    let v = if finite { Some((panic_sig(&m), m.clone())) } else { None };
                    (format!("panic {}", m), v, false)
                }
                Caught::Hang => {
                    ctx.count("split_hang");
                    let v = if finite { Some(("hang".to_string(), "watchdog (30 s)".to_string())) } else { None };
                    ("hang".to_string(), v, false)
                }
            }
        }
    };
    let idx = ctx.record(op.to_string(), out, nontrivial);
    if let Some((sig, what)) = verdict {
        ctx.fail(idx, &sig, what);
    }
}

// ------------------------------------------------------------------ generator

/// never -0.0
fn nz(x: f64) -> f64 {
    if x == 0.0 {
        0.0
    } else {
        x
    }
}

fn nz32(x: f32) -> f32 {
    if x == 0.0 {
        0.0
    } else {
        x
    }
}

fn unif(r: &mut Rng, lo: f64, hi: f64) -> f64 {
    let u = (r.next() >> 11) as f64 / (1u64 << 53) as f64;
    nz(lo + (hi - lo) * u)
}

const POINT_SHAPES: [&str; 7] = ["uniform", "duplicates", "collinear", "clustered", "grid", "outlier", "identical"];

/// `n` points of dimension `d`, point-major
fn gen_points(r: &mut Rng, shape: usize, n: usize, d: usize) -> Vec<f64> {
    let mut xs: Vec<f64> = Vec::with_capacity(n * d);
    match shape {
        0 => {
            for _ in 0..n * d {
                xs.push(unif(r, -10.0, 10.0));
            }
        }
        1 => {
            // every coordinate from a small set of values
            let m = 2 + r.usize(4);
            let ints = r.chance(1, 2);
            let vals: Vec<f64> =
                (0..m).map(|_| if ints { r.range(-3, 3) as f64 } else { unif(r, -10.0, 10.0) }).collect();
            for _ in 0..n * d {
                xs.push(*r.pick(&vals));
            }
        }
        2 => {
            if r.chance(1, 2) {
                // one free axis, the other coordinates fixed
                let axis = r.usize(d);
                let fixed: Vec<f64> = (0..d).map(|_| unif(r, -5.0, 5.0)).collect();
                let ints = r.chance(1, 3);
                for _ in 0..n {
                    let t = if ints { r.range(-8, 8) as f64 } else { unif(r, -10.0, 10.0) };
                    for c in 0..d {
                        xs.push(if c == axis { t } else { fixed[c] });
                    }
                }
            } else {
                // the diagonal y = x (= z)
                for _ in 0..n {
                    let t = unif(r, -10.0, 10.0);
                    for _ in 0..d {
                        xs.push(t);
                    }
                }
            }
        }
        3 => {
            // a few centres plus tiny offsets: f32 rounding merges coordinates
            let m = 2 + r.usize(3);
            let centres: Vec<f64> = (0..m * d).map(|_| unif(r, -10.0, 10.0)).collect();
            for _ in 0..n {
                let c = r.usize(m);
                for a in 0..d {
                    let mag = 10f64.powf(unif(r, -7.0, -3.0));
                    let off = if r.chance(1, 2) { mag } else { -mag };
                    xs.push(nz(centres[c * d + a] + off));
                }
            }
        }
        4 => {
            // integer lattice, shuffled
            let mut side = 1usize;
            while side.pow(d as u32) < n {
                side += 1;
            }
            let total = side.pow(d as u32);
            let mut cells: Vec<usize> = (0..total).collect();
            r.shuffle(&mut cells);
            let step = *r.pick(&[1.0f64, 0.5, 3.0]);
            let off = r.range(-4, 4) as f64;
            for &c in cells.iter().take(n) {
                let mut c = c;
                for _ in 0..d {
                    xs.push(nz((c % side) as f64 * step + off));
                    c /= side;
                }
            }
        }
        5 => {
            for _ in 0..n * d {
                xs.push(unif(r, 0.0, 1.0));
            }
            if n > 0 {
                for _ in 0..1 + r.usize(2) {
                    let i = r.usize(n);
                    for c in 0..d {
                        if c == 0 || r.chance(1, 2) {
                            let mag = 10f64.powf(unif(r, 3.0, 6.0)).min(1e6);
                            xs[i * d + c] = if r.chance(1, 2) { mag } else { -mag };
                        }
                    }
                }
            }
        }
        _ => {
            let p: Vec<f64> =
                if r.chance(1, 3) { vec![1.0; d] } else { (0..d).map(|_| unif(r, -10.0, 10.0)).collect() };
            for _ in 0..n {
                xs.extend_from_slice(&p);
            }
        }
    }
    xs
}

const WEIGHT_SHAPES: [&str; 5] = ["unit", "random", "one_heavy", "all_zero", "mostly_zero"];

fn pick_weight_shape(r: &mut Rng) -> usize {
    match r.usize(20) {
        0..=5 => 0,
        6..=11 => 1,
        12..=14 => 2,
        15..=16 => 3,
        _ => 4,
    }
}

fn gen_weights(r: &mut Rng, shape: usize, n: usize) -> Vec<i64> {
    match shape {
        0 => vec![1; n],
        1 => (0..n).map(|_| r.range(0, 100)).collect(),
        2 => {
            let mut w = vec![1i64; n];
            if n > 0 {
                let i = r.usize(n);
                w[i] = 1000 * n as i64;
            }
            w
        }
        3 => vec![0; n],
        _ => (0..n).map(|_| if r.chance(1, 10) { r.range(1, 100) } else { 0 }).collect(),
    }
}

fn pick_tol(r: &mut Rng) -> f64 {
    if r.chance(9, 10) {
        *r.pick(&TOLS)
    } else {
        unif(r, 0.0, 0.5)
    }
}

/// 35 % tiny, 45 % small, 20 % large (of which ~15 % above 1000, i.e. 3 % of all cases)
fn pick_n(r: &mut Rng, nmax: usize) -> usize {
    match r.usize(100) {
        0..=34 => r.usize(13),
        35..=79 => 13 + r.usize(188),
        _ => {
            if r.chance(15, 100) {
                1001 + r.usize(nmax - 1000)
            } else {
                201 + r.usize(800)
            }
        }
    }
}

/// f32 coordinate arrays for the direct ops
fn gen_f32_points(r: &mut Rng, shape: usize, n: usize, d: usize) -> Vec<f32> {
    match shape {
        // duplicates / clustered: go through the f64 shapes and round
        0 => gen_points(r, 1, n, d).iter().map(|v| nz32(*v as f32)).collect(),
        1 => gen_points(r, 0, n, d).iter().map(|v| nz32(*v as f32)).collect(),
        2 => {
            // few values, integers
            let m = 1 + r.usize(4);
            (0..n * d).map(|_| r.usize(m) as f32).collect()
        }
        3 => gen_points(r, 3, n, d).iter().map(|v| nz32(*v as f32)).collect(),
        _ => gen_points(r, 5, n, d).iter().map(|v| nz32(*v as f32)).collect(),
    }
}

const F32_SHAPES: [&str; 5] = ["duplicates", "uniform", "few_values", "clustered", "outlier"];

fn emit_rib(ctx: &mut Ctx, d: usize, iter: usize, tol: f64, threads: usize, ws: &[i64], xs: &[f64]) -> bool {
    match frame(d, xs) {
        Caught::Ok(fr) => {
            let rot = fr.unwrap_or_default();
            if rot.len() != xs.len() || rot.iter().any(|v| !v.is_finite()) {
                ctx.count("rib_skipped_degenerate_frame");
                return false;
            }
            let op = format_rib(d, iter, tol, threads, ws, xs, &rot);
            run_op(ctx, &op);
            true
        }
        _ => {
            ctx.count("rib_skipped_degenerate_frame");
            false
        }
    }
}

pub fn generate(ctx: &mut Ctx) {
    ctx.notes.push(
        "model-compared inputs have n < 4096 points (n <= 3000): the model is exact only below the rayon min_len of 4096 (one sequential chunk); the large-n stream (n in 8192..=20000, where rayon really splits the fold of par_rcb_split and runs its reduce) is judged by the oracle only, the model prints `skip large-n (oracle only)`"
            .to_string(),
    );
    let quick = ctx.quick();

    // ---- exhaustive: reorder over {0,1,2}^n x every pivot (D = 2, second coordinate 0)
    let maxlen = if quick { 4usize } else { 5 };
    let mut count = 0usize;
    for len in 1..=maxlen {
        let mut v = vec![0usize; len];
        loop {
            let xs: Vec<f32> = v.iter().flat_map(|&a| [a as f32, 0.0f32]).collect();
            for pivot in 0..len {
                let op = format_reorder(2, 0, pivot, &vec![1; len], &xs);
                run_op(ctx, &op);
                count += 1;
            }
            let mut i = 0;
            while i < len {
                if v[i] < 2 {
                    v[i] += 1;
                    break;
                }
                v[i] = 0;
                i += 1;
            }
            if i == len {
                break;
            }
        }
    }
    ctx.notes.push(format!(
        "exhaustive sub-space (reorder): every array over {{0,1,2}} of length 1..={} x every pivot, D=2 (second coordinate 0), coord 0, unit weights: {} ops",
        maxlen, count
    ));
    // ---- exhaustive: rcb on every ordered tuple (repetitions allowed) of 1..=4 lattice points of {0,1}^2
    let iters: &[usize] = if quick { &[1, 2, 3] } else { &[0, 1, 2, 3, 4] };
    let tols: &[f64] = if quick { &[0.0] } else { &[0.0, 0.5] };
    let mut count = 0usize;
    for len in 1..=4usize {
        for code in 0..4usize.pow(len as u32) {
            let mut xs = Vec::with_capacity(2 * len);
            let mut c = code;
            for _ in 0..len {
                xs.push((c & 1) as f64);
                xs.push(((c >> 1) & 1) as f64);
                c >>= 2;
            }
            for &iter in iters {
                for &tol in tols {
                    let op = format_rcb(2, iter, tol, 1, len, &vec![1; len], len, &xs);
                    run_op(ctx, &op);
                    count += 1;
                }
            }
        }
    }
    ctx.notes.push(format!(
        "exhaustive sub-space (rcb): every ordered tuple (repetitions allowed) of 1..=4 points of the lattice {{0,1}}^2, unit weights, iter in {:?}, tolerance in {:?}: {} ops",
        iters, tols, count
    ));

    // ---- Rib corner sizes
    for n in 0..=2usize {
        for d in [2usize, 3] {
            let xs = gen_points(&mut ctx.rng, 0, n, d);
            let iter = 1 + ctx.rng.usize(3);
            ctx.count("rib_corner_n012");
            emit_rib(ctx, d, iter, 0.05, 4, &vec![1; n], &xs);
        }
    }

    // ---- random Rcb / Rib cases
    let nmax = if quick { 1500 } else { 3000 };
    for _ in 0..ctx.budget(500, 30000) {
        let is_rib = ctx.rng.chance(1, 4);
        let d = 2 + ctx.rng.usize(2);
        let iter = ctx.rng.usize(7);
        let tol = pick_tol(&mut ctx.rng);
        let threads = *ctx.rng.pick(&THREADS);
        let n = pick_n(&mut ctx.rng, nmax);
        let shape = match ctx.rng.usize(20) {
            0..=5 => 0,
            6..=8 => 1,
            9..=10 => 2,
            11..=13 => 3,
            14..=16 => 4,
            17..=18 => 5,
            _ => 6,
        };
        let wshape = pick_weight_shape(&mut ctx.rng);
        let xs = gen_points(&mut ctx.rng, shape, n, d);
        let ws = gen_weights(&mut ctx.rng, wshape, n);
        debug_assert!(xs.iter().all(|v| v.is_finite() && v.abs() <= 1e6 && (*v != 0.0 || v.is_sign_positive())));
        let emitted = if is_rib {
            emit_rib(ctx, d, iter, tol, threads, &ws, &xs)
        } else {
            let op = format_rcb(d, iter, tol, threads, n, &ws, n, &xs);
            run_op(ctx, &op);
            true
        };
        if emitted {
            ctx.count(if is_rib { "algo_rib" } else { "algo_rcb" });
            ctx.count(&format!("shape_{}", POINT_SHAPES[shape]));
            ctx.count(&format!("weights_{}", WEIGHT_SHAPES[wshape]));
            ctx.count(&format!("dim_{}", d));
            ctx.count(&format!("iter_{}", iter));
            ctx.count(match n {
                0..=12 => "n_0_12",
                13..=200 => "n_13_200",
                201..=1000 => "n_201_1000",
                _ => "n_above_1000",
            });
        }
    }

    // ---- direct ops: reorder_split_scalar
    for _ in 0..ctx.budget(300, 20000) {
        let d = 2 + ctx.rng.usize(2);
        let n = match ctx.rng.usize(10) {
            0..=4 => 1 + ctx.rng.usize(8),
            5..=8 => 1 + ctx.rng.usize(40),
            _ => 1 + ctx.rng.usize(300),
        };
        let shape = ctx.rng.usize(3);
        let xs = gen_f32_points(&mut ctx.rng, shape, n, d);
        let wshape = pick_weight_shape(&mut ctx.rng);
        let ws = gen_weights(&mut ctx.rng, wshape, n);
        let coord = ctx.rng.usize(d);
        let pivot = ctx.rng.usize(n);
        ctx.count(&format!("reorder_shape_{}", F32_SHAPES[shape]));
        let op = format_reorder(d, coord, pivot, &ws, &xs);
        run_op(ctx, &op);
    }

    // ---- direct ops: par_rcb_split
    for _ in 0..ctx.budget(300, 20000) {
        let d = 2 + ctx.rng.usize(2);
        let n = match ctx.rng.usize(10) {
            0..=3 => ctx.rng.usize(9),
            4..=7 => ctx.rng.usize(41),
            _ => ctx.rng.usize(301),
        };
        let shape = ctx.rng.usize(5);
        let xs = gen_f32_points(&mut ctx.rng, shape, n, d);
        let wshape = pick_weight_shape(&mut ctx.rng);
        let ws = gen_weights(&mut ctx.rng, wshape, n);
        let coord = ctx.rng.usize(d);
        let tol = pick_tol(&mut ctx.rng);
        let col: Vec<f32> = (0..n).map(|i| xs[i * d + coord]).collect();
        let dmin = col.iter().copied().fold(f32::INFINITY, f32::min);
        let dmax = col.iter().copied().fold(f32::NEG_INFINITY, f32::max);
        let (min, max) = if n == 0 {
            ctx.count("split_interval_empty_input");
            (0.0f32, 1.0f32)
        } else {
            match ctx.rng.usize(10) {
                0..=6 => {
                    ctx.count("split_interval_exact");
                    (dmin, dmax)
                }
                7..=8 => {
                    ctx.count("split_interval_loose");
                    let a = unif(&mut ctx.rng, 0.0, 5.0) as f32;
                    let b = unif(&mut ctx.rng, 0.0, 5.0) as f32;
                    (nz32(dmin - a), nz32(dmax + b))
                }
                _ => {
                    ctx.count("split_interval_not_covering");
                    let a = col[ctx.rng.usize(n)];
                    let b = col[ctx.rng.usize(n)];
                    let (lo, hi) = if a <= b { (a, b) } else { (b, a) };
                    if ctx.rng.chance(1, 2) {
                        (lo, hi)
                    } else {
                        // strictly inside the data range
                        let w = hi - lo;
                        (nz32(lo + w * 0.25), nz32(hi - w * 0.25))
                    }
                }
            }
        };
        ctx.count(&format!("split_shape_{}", F32_SHAPES[shape]));
        let op = format_split(d, coord, tol, min, max, &ws, &xs);
        run_op(ctx, &op);
    }

    // ---- malformed stream
    for _ in 0..ctx.budget(40, 400) {
        match ctx.rng.usize(4) {
            0 | 1 => {
                // rcb with inconsistent lengths
                let d = 2 + ctx.rng.usize(2);
                let np = ctx.rng.usize(6);
                let mut nw = np;
                let mut plen = np;
                match ctx.rng.usize(3) {
                    0 => plen = ctx.rng.usize(7),
                    1 => nw = ctx.rng.usize(7),
                    _ => {
                        plen = ctx.rng.usize(7);
                        nw = plen;
                    }
                }
                let xs = gen_points(&mut ctx.rng, 0, np, d);
                let ws = gen_weights(&mut ctx.rng, 1, nw);
                let iter = ctx.rng.usize(4);
                ctx.count("malformed_rcb_lengths");
                let op = format_rcb(d, iter, 0.05, 1, plen, &ws, np, &xs);
                run_op(ctx, &op);
            }
            2 => {
                // reorder with pivot out of range
                let d = 2 + ctx.rng.usize(2);
                let n = ctx.rng.usize(6);
                let xs = gen_f32_points(&mut ctx.rng, 2, n, d);
                let pivot = n + ctx.rng.usize(3);
                ctx.count("malformed_reorder_pivot");
                let op = format_reorder(d, ctx.rng.usize(d), pivot, &vec![1; n], &xs);
                run_op(ctx, &op);
            }
            _ => {
                // reorder on no items
                let d = 2 + ctx.rng.usize(2);
                ctx.count("malformed_reorder_empty");
                let op = format_reorder(d, ctx.rng.usize(d), 0, &[], &[]);
                run_op(ctx, &op);
            }
        }
    }

    // ---- large-n stream (last, so that the streams above keep their cases)
    gen_large(ctx);
}

const LARGE_SHAPES: [&str; 3] = ["uniform_distinct", "grid_duplicates", "clustered"];

/// Points for the large-n stream: well-spread distinct coordinates (ties between rounded
/// distances are rare), a coarse lattice drawn with repetition (many duplicate points), a few
/// dense but f32-distinct clusters.
fn gen_large_points(r: &mut Rng, shape: usize, n: usize, d: usize) -> Vec<f64> {
    let mut xs: Vec<f64> = Vec::with_capacity(n * d);
    match shape {
        0 => {
            for _ in 0..n * d {
                xs.push(unif(r, -10.0, 10.0));
            }
        }
        1 => {
            let side = 20 + r.usize(80);
            let step = *r.pick(&[1.0f64, 0.5, 0.1]);
            let off = r.range(-4, 4) as f64;
            for _ in 0..n * d {
                xs.push(nz(r.usize(side) as f64 * step + off));
            }
        }
        _ => {
            let m = 3 + r.usize(4);
            let centres: Vec<f64> = (0..m * d).map(|_| unif(r, -10.0, 10.0)).collect();
            for _ in 0..n {
                let c = r.usize(m);
                for a in 0..d {
                    xs.push(nz(centres[c * d + a] + unif(r, -0.5, 0.5)));
                }
            }
        }
    }
    xs
}

/// n in 8192..=20000: `with_min_len(4096)` lets rayon split the fold of `par_rcb_split` (a
/// producer of length >= 2 x 4096 is split at least once, even in a 1-thread pool), so the
/// reduce closure really combines two partial results. No model prediction (the model is one
/// sequential chunk); the oracle applies in full.
fn gen_large(ctx: &mut Ctx) {
    let cases = ctx.budget(6, 60);
    for k in 0..cases {
        let d = 2 + (k % 2);
        let iter = 1 + ctx.rng.usize(4);
        let tol = pick_tol(&mut ctx.rng);
        let threads = THREADS[k % 3];
        let n = 8192 + ctx.rng.usize(20000 - 8192 + 1);
        let shape = (k / 2) % 3;
        let xs = gen_large_points(&mut ctx.rng, shape, n, d);
        let ws = if ctx.rng.chance(1, 2) { vec![1i64; n] } else { gen_weights(&mut ctx.rng, 1, n) };
        ctx.count("large_n_rcb");
        ctx.count(&format!("large_n_shape_{}", LARGE_SHAPES[shape]));
        ctx.count(&format!("large_n_threads_{}", threads));
        let op = format_rcb(d, iter, tol, threads, n, &ws, n, &xs);
        run_op(ctx, &op);
    }
    // the split itself through the hook (global pool: as many workers as cores)
    for k in 0..ctx.budget(2, 20) {
        let d = 2 + (k % 2);
        let n = 8192 + ctx.rng.usize(20000 - 8192 + 1);
        let shape = k % 3;
        let xs: Vec<f32> = gen_large_points(&mut ctx.rng, shape, n, d).iter().map(|v| nz32(*v as f32)).collect();
        let ws = if ctx.rng.chance(1, 2) { vec![1i64; n] } else { gen_weights(&mut ctx.rng, 1, n) };
        let coord = ctx.rng.usize(d);
        let tol = pick_tol(&mut ctx.rng);
        let col: Vec<f32> = (0..n).map(|i| xs[i * d + coord]).collect();
        let dmin = col.iter().copied().fold(f32::INFINITY, f32::min);
        let dmax = col.iter().copied().fold(f32::NEG_INFINITY, f32::max);
        ctx.count("large_n_split");
        let op = format_split(d, coord, tol, dmin, dmax, &ws, &xs);
        run_op(ctx, &op);
    }
    gen_large_leaves(ctx);
    gen_reuse_small(ctx);
    gen_special(ctx);
}

/// `-0.0` next to negative and positive coordinates: a small signed lattice in which an odd or an
/// even number of the zero coordinates carries the minus sign.
fn gen_negzero_points(r: &mut Rng, n: usize, d: usize, odd: bool) -> Vec<f64> {
    let span = 1 + r.usize(3) as i64;
    let mut xs: Vec<f64> = (0..n * d).map(|_| r.range(-span, span) as f64).collect();
    if n > 0 && !xs.iter().any(|v| *v == 0.0) {
        let k = r.usize(n * d);
        xs[k] = 0.0;
    }
    let zeros: Vec<usize> = (0..xs.len()).filter(|&i| xs[i] == 0.0).collect();
    let mut k = if zeros.is_empty() { 0 } else { 1 + r.usize(zeros.len()) };
    if (k % 2 == 1) != odd {
        k = if k > 1 { k - 1 } else if zeros.len() >= 2 { 2 } else { k };
    }
    for &i in zeros.iter().take(k) {
        xs[i] = -0.0;
    }
    if r.chance(1, 3) {
        // not only integers
        for v in xs.iter_mut() {
            if *v != 0.0 {
                *v += unif(r, -0.4, 0.4);
            }
        }
    }
    xs
}

/// distinct as f64, equal after `as f32`; and coordinates near the end of the f32 range.
/// The contract ("finite coordinates") is about the values the algorithm works on, i.e. AFTER its
/// `as f32` conversion: a finite f64 beyond f32 range (1e39) becomes an infinity and is outside it –
/// not generated. The legal side: magnitudes up to 3.3e38.
fn gen_f32_corner_points(r: &mut Rng, n: usize, d: usize, extreme: bool) -> Vec<f64> {
    if extreme {
        let scale = *r.pick(&[1e30f64, 1e37, 1.6e38, 3.3e38]);
        (0..n * d).map(|_| nz(unif(r, -1.0, 1.0) * scale)).collect()
    } else {
        let m = 2 + r.usize(5);
        let vals: Vec<f32> = (0..m).map(|_| unif(r, -10.0, 10.0) as f32).collect();
        (0..n * d)
            .map(|_| {
                let v = *r.pick(&vals) as f64;
                // well inside the rounding interval of `v`
                nz(v * (1.0 + unif(r, -1.0, 1.0) * 1e-9))
            })
            .collect()
    }
}

fn emit_rib_var(ctx: &mut Ctx, d: usize, iter: usize, tol: f64, var: &str, ws: &[i64], xs: &[f64]) {
    match frame(d, xs) {
        Caught::Ok(fr) => {
            let rot = fr.unwrap_or_default();
            if rot.iter().any(|v| !v.is_finite()) {
                ctx.count("rib_skipped_degenerate_frame");
                return;
            }
            let op = format_rib_var(d, iter, tol, 1, var, ws, xs, &rot);
            run_op(ctx, &op);
        }
        _ => ctx.count("rib_skipped_degenerate_frame"),
    }
}

/// SPECIAL VALUES / PLUMBING / CONTEXT: zero signs, f32 collisions and extremes, every legal input
/// type, calling contexts, first-call sequences.
fn gen_special(ctx: &mut Ctx) {
    let quick = ctx.quick();
    let small = |r: &mut Rng| match r.usize(3) {
        0 => 2 + r.usize(10),
        1 => 12 + r.usize(60),
        _ => 72 + r.usize(400),
    };
    // ---- 1. signed zero
    for k in 0..ctx.budget(16, 600) {
        let d = 2 + (k % 2);
        let n = small(&mut ctx.rng);
        let iter = 1 + ctx.rng.usize(4);
        let tol = pick_tol(&mut ctx.rng);
        let threads = *ctx.rng.pick(&[1usize, 4]);
        let xs = gen_negzero_points(&mut ctx.rng, n, d, k % 4 < 2);
        let wshape = pick_weight_shape(&mut ctx.rng);
        let ws = gen_weights(&mut ctx.rng, wshape, n);
        ctx.count(if k % 4 < 2 { "special:negzero_coord_odd" } else { "special:negzero_coord_even" });
        run_op(ctx, &format_rcb_var(d, iter, tol, threads, "coord_poszero", &ws, &xs));
        if k % 8 == 0 {
            emit_rib_var(ctx, d, iter, tol, "coord_poszero", &ws, &xs);
        }
    }
    for k in 0..ctx.budget(12, 400) {
        let d = 2 + (k % 2);
        let n = small(&mut ctx.rng);
        let iter = 1 + ctx.rng.usize(4);
        let tol = pick_tol(&mut ctx.rng);
        let shape = ctx.rng.usize(6);
        let xs = gen_points(&mut ctx.rng, shape, n, d);
        // zero weights: mostly zero / all zero / a few zeros among random weights
        let mut ws = match k % 3 {
            0 => gen_weights(&mut ctx.rng, 4, n),
            1 => gen_weights(&mut ctx.rng, 3, n),
            _ => gen_weights(&mut ctx.rng, 1, n),
        };
        for _ in 0..3 {
            let i = ctx.rng.usize(n);
            ws[i] = 0;
        }
        let var = if k % 2 == 0 { "w_f64_negzero_odd" } else { "w_f64_negzero_even" };
        run_op(ctx, &format_rcb_var(d, iter, tol, 4, var, &ws, &xs));
        if k % 6 == 0 {
            emit_rib_var(ctx, d, iter, tol, "w_f64_negzero_odd", &ws, &xs);
        }
    }
    // ---- 3. f32 collisions and the legal end of the f32 range
    for k in 0..ctx.budget(20, 600) {
        let d = 2 + (k % 2);
        let n = small(&mut ctx.rng);
        let iter = ctx.rng.usize(6);
        let tol = pick_tol(&mut ctx.rng);
        let threads = *ctx.rng.pick(&THREADS);
        let extreme = k % 2 == 1;
        let xs = gen_f32_corner_points(&mut ctx.rng, n, d, extreme);
        let wshape = pick_weight_shape(&mut ctx.rng);
        let ws = gen_weights(&mut ctx.rng, wshape, n);
        ctx.count(if extreme { "special:f32_extreme_magnitude" } else { "special:f32_collision" });
        run_op(ctx, &format_rcb(d, iter, tol, threads, n, &ws, n, &xs));
    }
    ctx.notes.push(
        "f64 coordinates beyond the f32 range (e.g. 1e39) become infinities under the `as f32` conversion Rcb/Rib perform: outside the contract (finite coordinates after the conversion), not generated; the legal side (|x| up to 3e38, and f64 values that collide after the conversion) is"
            .to_string(),
    );
    // ---- 4. input types
    let plumbing: Vec<&str> = VARIANTS.iter().copied().filter(|v| !v.starts_with("ctx_") && !v.contains("zero")).collect();
    for rep in 0..ctx.budget(2, 60) {
        for (k, var) in plumbing.iter().enumerate() {
            let d = 2 + ((k + rep) % 2);
            let n = if rep % 2 == 0 { small(&mut ctx.rng) } else { pick_n(&mut ctx.rng, 1500).max(1) };
            let iter = ctx.rng.usize(6);
            let tol = pick_tol(&mut ctx.rng);
            let threads = *ctx.rng.pick(&[1usize, 2, 4, 16]);
            let shape = ctx.rng.usize(7);
            let xs = gen_points(&mut ctx.rng, shape, n, d);
            // weights whose total is exact in every weight type tried
            let ws: Vec<i64> = match ctx.rng.usize(3) {
                0 => vec![1; n],
                1 => (0..n).map(|_| ctx.rng.range(0, 100)).collect(),
                _ => gen_weights(&mut ctx.rng, 4, n),
            };
            run_op(ctx, &format_rcb_var(d, iter, tol, threads, var, &ws, &xs));
        }
    }
    for rep in 0..ctx.budget(3, 20) {
        // Rib takes a slice of points; its weights are as generic as Rcb's
        let d = 2 + (rep % 2);
        let n = 3 + small(&mut ctx.rng);
        let iter = 1 + ctx.rng.usize(4);
        let xs = gen_points(&mut ctx.rng, 0, n, d);
        let ws: Vec<i64> = (0..n).map(|_| ctx.rng.range(0, 100)).collect();
        emit_rib_var(ctx, d, iter, 0.05, "w_f64", &ws, &xs);
    }
    // large inputs: the adaptors change how rayon splits the passes over all n items
    for (k, var) in ["pts_max_len", "pts_min_len", "w_max_len", "both_par_max_len", "w_f64", "pts_into_par_map"].iter().enumerate() {
        if quick && k >= 4 {
            break;
        }
        let d = 2 + (k % 2);
        let mut n = 8193 + ctx.rng.usize(12000);
        while n % 4096 == 0 {
            n += 1;
        }
        let iter = 1 + ctx.rng.usize(3);
        let threads = [2usize, 16, 3, 4, 5, 1][k];
        let xs = gen_large_points(&mut ctx.rng, 0, n, d);
        let ws: Vec<i64> = (0..n).map(|_| ctx.rng.range(0, 100)).collect();
        ctx.count("plumbing:large_n");
        run_op(ctx, &format_rcb_var(d, iter, 0.05, threads, var, &ws, &xs));
    }
    // ---- 5. calling context
    for rep in 0..ctx.budget(3, 60) {
        for (k, var) in ["ctx_global", "ctx_in_task", "ctx_concurrent", "ctx_concurrent"].iter().enumerate() {
            let d = 2 + ((k + rep) % 2);
            let n = if rep % 3 == 2 { pick_n(&mut ctx.rng, 1500).max(2) } else { small(&mut ctx.rng) };
            let iter = 1 + ctx.rng.usize(4);
            let tol = pick_tol(&mut ctx.rng);
            // many calls at once: pools of 4 and 16 workers
            let threads = if k == 2 { 4 } else if k == 3 { 16 } else { *ctx.rng.pick(&[2usize, 4, 16]) };
            let shape = ctx.rng.usize(6);
            let xs = gen_points(&mut ctx.rng, shape, n, d);
            let wshape = pick_weight_shape(&mut ctx.rng);
            let ws = gen_weights(&mut ctx.rng, wshape, n);
            run_op(ctx, &format_rcb_var(d, iter, tol, threads, var, &ws, &xs));
        }
    }
    for k in 0..ctx.budget(1, 6) {
        // concurrent calls on inputs large enough for rayon to split every pass
        let d = 2 + (k % 2);
        let n = 8193 + ctx.rng.usize(4000);
        let xs = gen_large_points(&mut ctx.rng, 0, n, d);
        let ws: Vec<i64> = (0..n).map(|_| ctx.rng.range(0, 100)).collect();
        ctx.count("context:concurrent_large_n");
        run_op(ctx, &format_rcb_var(d, 2, 0.05, if k % 2 == 0 { 16 } else { 4 }, "ctx_concurrent", &ws, &xs));
    }
    // ---- 6. first-call sequences in a fresh process
    gen_first_call_sequences(ctx);
}

/// Process-level state: a `static` / `OnceLock` / `thread_local` inside a generic function is shared
/// by all its instantiations and initialised by whichever call comes first. This process has made
/// thousands of calls (2-D, `i64`, pool 1 first) by now; each sequence below is replayed in a FRESH
/// child process in which its first op is the first call of all, and every line must be what this
/// process answers for the same op.
fn gen_first_call_sequences(ctx: &mut Ctx) {
    let Ok(exe) = std::env::current_exe() else {
        ctx.count("context:first_call_child_unavailable");
        return;
    };
    let seqs: [&[(&str, usize, usize)]; 4] = [
        // (kind, dimension, pool)
        &[("rcb", 3, 16), ("rcb", 2, 1), ("rcb", 3, 4), ("rcb", 2, 16)],
        &[("w_f64", 3, 4), ("rcb", 2, 4), ("w_f32", 2, 1), ("rcb", 3, 1)],
        &[("rib", 3, 1), ("rcb", 2, 16), ("rib", 2, 1), ("rcb", 3, 2)],
        &[("ctx_concurrent", 2, 16), ("rcb", 3, 1), ("w_u32", 3, 5), ("rcb", 2, 3)],
    ];
    for (si, seq) in seqs.iter().enumerate() {
        let first = ctx.ops.len();
        for &(kind, d, threads) in seq.iter() {
            let n = 20 + ctx.rng.usize(300);
            let iter = 1 + ctx.rng.usize(4);
            let xs = gen_points(&mut ctx.rng, 0, n, d);
            let ws: Vec<i64> = (0..n).map(|_| ctx.rng.range(0, 100)).collect();
            match kind {
                "rcb" => run_op(ctx, &format_rcb(d, iter, 0.05, threads, n, &ws, n, &xs)),
                "rib" => {
                    if let Caught::Ok(Some(rot)) = frame(d, &xs) {
                        run_op(ctx, &format_rib(d, iter, 0.05, 1, &ws, &xs, &rot));
                    }
                }
                var => run_op(ctx, &format_rcb_var(d, iter, 0.05, threads, var, &ws, &xs)),
            }
        }
        let last = ctx.ops.len();
        if last == first {
            continue;
        }
        ctx.count("context:first_call_sequence");
        let dir = std::env::temp_dir().join(format!("c03-firstcall-{}-{}", std::process::id(), si));
        let _ = std::fs::create_dir_all(&dir);
        let opsf = dir.join("ops.txt");
        if std::fs::write(&opsf, ctx.ops[first..last].join("\n") + "\n").is_err() {
            ctx.count("context:first_call_child_unavailable");
            continue;
        }
        let st = std::process::Command::new(&exe)
            .args(["replay", "C03", "--ops"])
            .arg(&opsf)
            .arg("--out")
            .arg(&dir)
            .stdout(std::process::Stdio::null())
            .stderr(std::process::Stdio::null())
            .status();
        let child: Option<Vec<String>> = match st {
            Ok(s) if s.success() => std::fs::read_to_string(dir.join("impl.txt")).ok().map(|t| t.lines().map(|l| l.to_string()).collect()),
            _ => None,
        };
        let _ = std::fs::remove_dir_all(&dir);
        match child {
            None => ctx.count("context:first_call_child_unavailable"),
            Some(lines) => {
                for (j, idx) in (first..last).enumerate() {
                    if lines.get(j) != Some(&ctx.impl_out[idx]) {
                        let what = format!(
                            "op {} of first-call sequence {} answers differently in a fresh process (where the sequence's first op is the first call of all) than in this one: {:?} vs {:?}",
                            j,
                            si,
                            lines.get(j).map(|l| l.chars().take(120).collect::<String>()),
                            ctx.impl_out[idx].chars().take(120).collect::<String>()
                        );
                        ctx.fail(idx, "context-dependent@rcb", what);
                        break;
                    }
                }
            }
        }
    }
}

/// Large LEAVES and full-size passes. `rcb_recurse` stores the part id of a leaf through a parallel
/// iterator and `rcb` runs several passes once per call over all n cells (collecting coordinates and
/// weights, the sum, the bounding box, "part ids start from zero"): code that distributes such a
/// pass over the pool (blocks of `len / threads`, chunks of 4096 or 8192, ...) only misbehaves when
/// a leaf resp. the input is large RELATIVE TO THE POOL and not a multiple of the block size.
/// So: iter_count 0, 1, 2 on large inputs, pools 2, 3, 5 besides 1, 4, 16, leaf lengths above
/// 4096 x pool, n neither a multiple of the pool size nor of 8192, arrays pre-filled with
/// `usize::MAX` and arrays reused from a previous call with more parts. An unwritten or stale cell
/// shows as an id >= 2^iter, a same-point split or a tree that does not separate.
fn gen_large_leaves(ctx: &mut Ctx) {
    // (pool, iter_count, smallest n, largest n)
    const QUICK: [(usize, usize, usize, usize); 9] = [
        (2, 0, 8193, 20000),
        (2, 1, 16400, 24000),
        (3, 0, 12289, 24000),
        (4, 0, 16385, 24000),
        (5, 0, 20481, 24000),
        (16, 1, 16385, 24000),
        (1, 1, 16385, 24000),
        (2, 2, 16385, 24000),
        (1, 0, 8193, 24000),
    ];
    const THOROUGH: [(usize, usize, usize, usize); 22] = [
        (16, 0, 70001, 70001),
        (16, 1, 70001, 70001),
        (16, 0, 140003, 140003),
        (16, 1, 140003, 140003),
        (16, 2, 140003, 140003),
        (4, 1, 32769, 70001),
        (4, 2, 65537, 140003),
        (5, 1, 40961, 70001),
        (5, 0, 20481, 140003),
        (3, 1, 24577, 70001),
        (3, 2, 49153, 140003),
        (2, 1, 16385, 70001),
        (2, 2, 32769, 140003),
        (2, 0, 8193, 140003),
        (3, 0, 12289, 140003),
        (1, 1, 16385, 140003),
        (1, 2, 16385, 140003),
        (4, 3, 16385, 140003),
        (16, 3, 16385, 140003),
        (2, 4, 131077, 140003),
        (5, 2, 16385, 140003),
        (3, 3, 16385, 140003),
    ];
    let mut configs: Vec<(usize, usize, usize, usize)> = QUICK.to_vec();
    if !ctx.quick() {
        configs.extend_from_slice(&QUICK);
        configs.extend_from_slice(&THOROUGH);
        configs.extend_from_slice(&THOROUGH);
    }
    for (k, &(threads, iter, lo, hi)) in configs.iter().enumerate() {
        let mut n = lo + ctx.rng.usize(hi - lo + 1);
        while n % threads.max(2) == 0 || n % 8192 == 0 || n % 4096 == 0 {
            n += 1;
        }
        // the biggest inputs in 2-D only (the op line carries every coordinate)
        let d = if n > 80000 { 2 } else { 2 + (k % 2) };
        let shape = k % 3;
        let tol = pick_tol(&mut ctx.rng);
        let xs = gen_large_points(&mut ctx.rng, shape, n, d);
        let ws = if ctx.rng.chance(1, 2) { vec![1i64; n] } else { gen_weights(&mut ctx.rng, 1, n) };
        ctx.count("large_leaf_rcb");
        ctx.count(&format!("large_leaf_threads_{}", threads));
        ctx.count(&format!("large_leaf_iter_{}", iter));
        ctx.count(match n {
            0..=24000 => "large_leaf_n_upto_24000",
            24001..=70001 => "large_leaf_n_upto_70001",
            _ => "large_leaf_n_upto_140003",
        });
        let op = if k % 2 == 0 {
            ctx.count("large_leaf_prefill_sentinel");
            format_rcb(d, iter, tol, threads, n, &ws, n, &xs)
        } else {
            // stale ids of a previous call with more parts
            ctx.count("large_leaf_prefill_reuse");
            let prev = iter + 2 + ctx.rng.usize(2);
            format_rcb_reuse(d, iter, tol, threads, prev, n, &ws, n, &xs)
        };
        run_op(ctx, &op);
    }
}

/// Reused arrays below 4096 points: compared with the model (which claims that the previous
/// contents of the array are irrelevant).
fn gen_reuse_small(ctx: &mut Ctx) {
    for _ in 0..ctx.budget(30, 1500) {
        let d = 2 + ctx.rng.usize(2);
        let iter = ctx.rng.usize(5);
        let prev = ctx.rng.usize(7);
        let tol = pick_tol(&mut ctx.rng);
        let threads = *ctx.rng.pick(&[1usize, 2, 3, 4, 5, 16]);
        let n = pick_n(&mut ctx.rng, 1500);
        let shape = ctx.rng.usize(7);
        let xs = gen_points(&mut ctx.rng, shape, n, d);
        let wshape = pick_weight_shape(&mut ctx.rng);
        let ws = gen_weights(&mut ctx.rng, wshape, n);
        ctx.count("reuse_small_rcb");
        let op = format_rcb_reuse(d, iter, tol, threads, prev, n, &ws, n, &xs);
        run_op(ctx, &op);
    }
}

#[cfg(test)]
mod tests {
    use super::*;

    fn sig(d: usize, k: usize, x: &[f32], ids: &[usize]) -> Option<String> {
        let mut ctx = Ctx::new("C03", Tier::Quick, 1);
        bisection_oracle(&mut ctx, d, k, x, ids).map(|v| v.0)
    }

    #[test]
    fn oracle_accepts_and_rejects() {
        let line = [0.0f32, 0.0, 1.0, 0.0, 2.0, 0.0, 3.0, 0.0];
        assert_eq!(sig(2, 1, &line, &[0, 0, 1, 1]), None);
        assert_eq!(sig(2, 1, &line, &[0, 1, 1, 1]), None);
        assert_eq!(sig(2, 1, &line, &[0, 1, 0, 1]).as_deref(), Some("rcb-not-a-bisection"));
        assert_eq!(sig(2, 1, &line, &[1, 1, 0, 0]).as_deref(), Some("rcb-not-a-bisection"));
        assert_eq!(sig(2, 1, &line, &[0, 0, 1, 2]).as_deref(), Some("rcb-id-out-of-range"));
        // second level splits on y: all y equal, so a split there is not strict
        assert_eq!(sig(2, 2, &line, &[0, 1, 2, 3]).as_deref(), Some("rcb-not-a-bisection"));
        assert_eq!(sig(2, 2, &line, &[0, 0, 2, 2]), None);
        // needs the offset: leaves 1 and 2 (ids 0 and 1 after the minimum is subtracted)
        assert_eq!(sig(2, 2, &[0.0, 0.0, 1.0, 0.0], &[0, 1]), None);
        // but not in the other direction
        assert_eq!(sig(2, 2, &[1.0, 0.0, 0.0, 0.0], &[0, 1]).as_deref(), Some("rcb-not-a-bisection"));
        // equal points (-0.0 == 0.0) in two parts
        assert_eq!(sig(2, 1, &[0.0, 1.0, -0.0, 1.0], &[0, 1]).as_deref(), Some("rcb-same-point-split"));
        // 3-D: third level uses z
        let pts = [0.0f32, 0.0, 0.0, 0.0, 0.0, 1.0];
        assert_eq!(sig(3, 3, &pts, &[0, 1]), None);
        assert_eq!(sig(3, 2, &pts, &[0, 1]).as_deref(), Some("rcb-not-a-bisection"));
    }
}
