//! C07 — FiducciaMattheyses never increases the cut nor breaks its weight cap.
//!
//! op:  `fm <wt:i|f> <max_imbalance: none|f64 bits hex> <max_bad> <max_passes: none|N>
//!          <max_moves: none|N> <rows> {<deg> {<nbr> <w>}} <m> <ids…> <l> <weights…>`
//!      (`wt`: vertex weights given to the implementation as `i64` or as integer-valued `f64`;
//!      the matrix is `rows x rows`, CSR, rows strictly ascending.)
//!      The recorded op line carries the implementation's canonical line after `=>`: bucket
//!      iteration order is per-`HashSet` random, so on tie-sensitive cases the model driver
//!      searches for a choice sequence reproducing exactly that line (membership).
//!      A stale `=> …` suffix in corpus/replay lines is ignored and recomputed.
//! out: `ok <cap> | <ids> | <moves_per_pass> | <rewinded_moves_per_pass>` (`-` = empty list)
//!      | `ok-empty` | `lenmismatch` | `bionly` | `panic …`

use crate::common::*;
use coupe::sprs::CsMat;
use coupe::Partition as _;

#[derive(Clone, Debug)]
struct Case {
    f64w: bool,
    mi: Option<f64>,
    mb: usize,
    mp: Option<usize>,
    mm: Option<usize>,
    rows: Vec<Vec<(usize, i64)>>,
    ids: Vec<usize>,
    ws: Vec<i64>,
}

fn opt(o: &Option<usize>) -> String {
    match o {
        Some(v) => v.to_string(),
        None => "none".into(),
    }
}

fn format_op(c: &Case) -> String {
    let mut s = format!(
        "fm {} {} {} {} {} {}",
        if c.f64w { "f" } else { "i" },
        match c.mi {
            Some(x) => format!("{:x}", x.to_bits()),
            None => "none".into(),
        },
        c.mb,
        opt(&c.mp),
        opt(&c.mm),
        c.rows.len()
    );
    for r in &c.rows {
        s.push_str(&format!(" {}", r.len()));
        for (u, w) in r {
            s.push_str(&format!(" {} {}", u, w));
        }
    }
    s.push_str(&format!(" {}", c.ids.len()));
    for i in &c.ids {
        s.push_str(&format!(" {}", i));
    }
    s.push_str(&format!(" {}", c.ws.len()));
    for w in &c.ws {
        s.push_str(&format!(" {}", w));
    }
    s
}

fn parse_opt(t: &str) -> Option<Option<usize>> {
    if t == "none" {
        Some(None)
    } else {
        t.parse().ok().map(Some)
    }
}

fn parse_op(op: &str) -> Option<Case> {
    let base = op.split("=>").next()?;
    let mut it = base.split_whitespace();
    if it.next()? != "fm" {
        return None;
    }
    let f64w = match it.next()? {
        "f" => true,
        "i" => false,
        _ => return None,
    };
    let mi = match it.next()? {
        "none" => None,
        t => Some(f64::from_bits(u64::from_str_radix(t, 16).ok()?)),
    };
    let mb: usize = it.next()?.parse().ok()?;
    let mp = parse_opt(it.next()?)?;
    let mm = parse_opt(it.next()?)?;
    let n: usize = it.next()?.parse().ok()?;
    let mut rows = Vec::with_capacity(n);
    for _ in 0..n {
        let d: usize = it.next()?.parse().ok()?;
        let mut r = Vec::with_capacity(d);
        for _ in 0..d {
            let u: usize = it.next()?.parse().ok()?;
            let w: i64 = it.next()?.parse().ok()?;
            r.push((u, w));
        }
        rows.push(r);
    }
    let m: usize = it.next()?.parse().ok()?;
    let mut ids = Vec::with_capacity(m);
    for _ in 0..m {
        ids.push(it.next()?.parse().ok()?);
    }
    let l: usize = it.next()?.parse().ok()?;
    let mut ws = Vec::with_capacity(l);
    for _ in 0..l {
        ws.push(it.next()?.parse().ok()?);
    }
    if it.next().is_some() {
        return None;
    }
    // sprs invariants: square matrix, indices in range, rows strictly ascending
    for r in &rows {
        for (k, (u, _)) in r.iter().enumerate() {
            if *u >= n || (k > 0 && r[k - 1].0 >= *u) {
                return None;
            }
        }
    }
    Some(Case { f64w, mi, mb, mp, mm, rows, ids, ws })
}

fn list<T: std::fmt::Display>(xs: &[T]) -> String {
    if xs.is_empty() {
        "-".into()
    } else {
        join(xs)
    }
}

/// What one run of the implementation returned.
enum Ran {
    Ok { ids: Vec<usize>, moves: Vec<usize>, rewound: Vec<usize> },
    Err(String),
    Panic(String),
}

fn run_impl(c: &Case) -> Ran {
    let n = c.rows.len();
    let mut indptr = vec![0usize];
    let mut indices = vec![];
    let mut data = vec![];
    for r in &c.rows {
        for (u, w) in r {
            indices.push(*u);
            data.push(*w);
        }
        indptr.push(indices.len());
    }
    let mut ids = c.ids.clone();
    let res = catch(|| {
        let mat: CsMat<i64> = CsMat::new((n, n), indptr, indices, data);
        let mut fm = coupe::FiducciaMattheyses {
            max_imbalance: c.mi,
            max_bad_move_in_a_row: c.mb,
            max_passes: c.mp,
            max_moves_per_pass: c.mm,
        };
        if c.f64w {
            let w: Vec<f64> = c.ws.iter().map(|&x| x as f64).collect();
            fm.partition(&mut ids, (mat.view(), &w[..]))
        } else {
            fm.partition(&mut ids, (mat.view(), &c.ws[..]))
        }
    });
    match res {
        Caught::Ok(Ok(md)) => Ran::Ok {
            ids,
            moves: md.moves_per_pass.clone(),
            rewound: md.rewinded_moves_per_pass.clone(),
        },
        Caught::Ok(Err(coupe::Error::InputLenMismatch { .. })) => Ran::Err("lenmismatch".into()),
        Caught::Ok(Err(coupe::Error::BiPartitioningOnly)) => Ran::Err("bionly".into()),
        Caught::Ok(Err(e)) => Ran::Err(format!("err {:?}", e)),
        // assert_eq! messages span several lines; the protocol is line based
        Caught::Panic(m) => Ran::Panic(m.split_whitespace().collect::<Vec<_>>().join(" ")),
        Caught::Hang => Ran::Panic("hang".into()),
    }
}

fn loads(ws: &[i64], ids: &[usize]) -> [i64; 2] {
    let mut l = [0i64; 2];
    for (w, &i) in ws.iter().zip(ids) {
        if i < 2 {
            l[i] += *w;
        }
    }
    l
}

/// The threshold of the cap test as an integer (`cap < target` on integer targets), computed
/// with the expression of the source; `None` = the `unwrap` of the conversion fails.
fn cap_threshold(c: &Case) -> Option<i64> {
    let l = loads(&c.ws, &c.ids);
    match c.mi {
        None => Some(l[0].max(l[1])),
        Some(mi) => {
            let total = (l[0] + l[1]) as f64;
            let ideal = total / 2.0;
            let x = ideal + mi * ideal;
            const BIG: i64 = 1 << 62;
            if c.f64w {
                Some(if x.is_nan() || x >= BIG as f64 {
                    BIG
                } else if x <= -(BIG as f64) {
                    -BIG
                } else {
                    x.floor() as i64
                })
            } else if x >= -9223372036854775808.0 && x < 9223372036854775808.0 {
                Some(x as i64)
            } else {
                None
            }
        }
    }
}

/// Brute-force edge cut: every stored entry whose end points lie in different parts, halved
/// (the matrix is symmetric on valid inputs).
fn cut2(rows: &[Vec<(usize, i64)>], ids: &[usize]) -> i64 {
    let mut s = 0i64;
    for (v, r) in rows.iter().enumerate() {
        for (u, w) in r {
            if ids[v] != ids[*u] {
                s += *w;
            }
        }
    }
    s
}

#[derive(PartialEq)]
enum Validity {
    Valid,
    /// outside the property's quantifier; the string names why
    Malformed(&'static str),
}

fn validity(c: &Case) -> Validity {
    let n = c.rows.len();
    if c.ids.len() != n || c.ws.len() != n {
        return Validity::Malformed("len");
    }
    if c.ids.iter().any(|&i| i > 1) {
        return Validity::Malformed("parts");
    }
    if c.ws.iter().any(|&w| w < 0) {
        return Validity::Malformed("neg-vertex-weight");
    }
    for (v, r) in c.rows.iter().enumerate() {
        for (u, w) in r {
            if *u == v {
                return Validity::Malformed("self-loop");
            }
            if *w < 0 {
                return Validity::Malformed("neg-edge");
            }
            let back = c.rows[*u].iter().find(|(x, _)| *x == v).map(|(_, w)| *w);
            if back != Some(*w) {
                return Validity::Malformed("asymmetric");
            }
        }
    }
    if cap_threshold(c).is_none() {
        return Validity::Malformed("cap-not-representable");
    }
    if let Some(mi) = c.mi {
        if !mi.is_finite() {
            return Validity::Malformed("imbalance-not-finite");
        }
    }
    Validity::Valid
}

/// The property, stated on the implementation's output (independent of the model).
fn oracle(c: &Case, ids: &[usize], moves: &[usize], rewound: &[usize]) -> Option<(&'static str, String)> {
    let n = c.ids.len();
    if ids.len() != n {
        return Some(("fm-length-changed", format!("{} ids in, {} out", n, ids.len())));
    }
    if ids.iter().any(|&i| i > 1) {
        return Some(("fm-id-out-of-range", format!("ids {:?}", ids)));
    }
    let c_in = cut2(&c.rows, &c.ids);
    let c_out = cut2(&c.rows, ids);
    if c_out > c_in {
        return Some(("fm-cut-increased", format!("cut {} -> {} (doubled values)", c_in, c_out)));
    }
    let cap = cap_threshold(c).unwrap();
    if let Some(mi) = c.mi {
        // the threshold is what the statement names: (1 + max_imbalance) x half the total
        let l = loads(&c.ws, &c.ids);
        let real = (1.0 + mi) * ((l[0] + l[1]) as f64) / 2.0;
        if ((cap as f64) - real).abs() > 1.0 + 1e-9 * real.abs() && real.abs() < 4e18 {
            return Some(("fm-cap-formula", format!("cap {} vs (1+mi)*total/2 = {}", cap, real)));
        }
    }
    let l_in = loads(&c.ws, &c.ids);
    let l_out = loads(&c.ws, ids);
    for k in 0..2 {
        if l_out[k] > l_in[k].max(cap) {
            return Some((
                "fm-cap-broken",
                format!("part {} weighs {} > max(input {}, cap {})", k, l_out[k], l_in[k], cap),
            ));
        }
    }
    if moves.len() != rewound.len() {
        return Some(("fm-meta-lengths", format!("{} vs {}", moves.len(), rewound.len())));
    }
    if let Some(mp) = c.mp {
        if moves.len() > mp {
            return Some(("fm-meta-passes", format!("{} passes > max_passes {}", moves.len(), mp)));
        }
    }
    let mut kept = 0usize;
    for (m, r) in moves.iter().zip(rewound) {
        if let Some(mm) = c.mm {
            if *m > mm {
                return Some(("fm-meta-moves", format!("{} moves > max_moves_per_pass {}", m, mm)));
            }
        }
        if r > m {
            return Some(("fm-meta-rewound", format!("rewound {} > moves {}", r, m)));
        }
        kept += m - r;
    }
    let changed = ids.iter().zip(&c.ids).filter(|(a, b)| a != b).count();
    if changed > kept {
        return Some(("fm-meta-changed", format!("{} vertices relabelled, {} moves kept", changed, kept)));
    }
    None
}

pub fn run_op(ctx: &mut Ctx, op: &str) {
    if ctx.hang_limit_reached() {
        return;
    }
    let Some(c) = parse_op(op) else {
        ctx.record(op.to_string(), "bad-op".into(), false);
        return;
    };
    let base = format_op(&c);
    let valid = validity(&c);
    let runs = ctx.budget(3, 4);
    let mut seen: Vec<String> = vec![];
    for _ in 0..runs {
        let ran = run_impl(&c);
        let (out, verdict, nontrivial) = match &ran {
            Ran::Ok { ids, moves, rewound } => {
                if c.ids.is_empty() {
                    ("ok-empty".to_string(), None, false)
                } else {
                    let cap = cap_threshold(&c).unwrap_or(0);
                    let out = format!("ok {} | {} | {} | {}", cap, list(ids), list(moves), list(rewound));
                    let v = if valid == Validity::Valid { oracle(&c, ids, moves, rewound) } else { None };
                    let nt = valid == Validity::Valid
                        && c.ids.len() >= 2
                        && c.rows.iter().any(|r| !r.is_empty())
                        && moves.iter().sum::<usize>() > 0;
                    (out, v.map(|(s, w)| (s.to_string(), w)), nt)
                }
            }
            Ran::Err(e) => {
                let v = match (e.as_str(), &valid) {
                    ("lenmismatch", Validity::Malformed("len")) => None,
                    ("bionly", Validity::Malformed("parts")) => None,
                    _ => Some(("fm-unexpected-error".to_string(), format!("{} on {:?} input", e, match &valid {
                        Validity::Valid => "valid",
                        Validity::Malformed(w) => w,
                    }))),
                };
                (e.clone(), v, false)
            }
            Ran::Panic(m) => {
                let v = if valid == Validity::Valid {
                    Some(("panic".to_string(), format!("{} [{}]", m, panic_sig(m))))
                } else {
                    None
                };
                (format!("panic {}", m), v, false)
            }
        };
        if seen.contains(&out) {
            continue;
        }
        seen.push(out.clone());
        ctx.count(&format!("out:{}", out.split(' ').next().unwrap_or("")));
        if let Ran::Ok { moves, .. } = &ran {
            ctx.count(&format!("passes:{}", moves.len().min(4)));
        }
        let idx = ctx.record(format!("{} => {}", base, out), out, nontrivial);
        if let Some((sig, what)) = verdict {
            ctx.fail(idx, &sig, what);
        }
    }
    match &valid {
        Validity::Valid => ctx.count("input:valid"),
        Validity::Malformed(w) => ctx.count(&format!("input:malformed:{}", w)),
    }
    ctx.count(if seen.len() > 1 { "hash-order:outputs-differ-between-runs" } else { "hash-order:same-output-in-all-runs" });
}

// ------------------------------------------------------------------ generator

type Edges = Vec<(usize, usize, i64)>;

fn rows_of(n: usize, edges: &Edges) -> Vec<Vec<(usize, i64)>> {
    let mut rows: Vec<Vec<(usize, i64)>> = vec![vec![]; n];
    for &(u, v, w) in edges {
        if u != v && !rows[u].iter().any(|(x, _)| *x == v) {
            rows[u].push((v, w));
            rows[v].push((u, w));
        }
    }
    for r in rows.iter_mut() {
        r.sort();
    }
    rows
}

fn gen_graph(ctx: &mut Ctx, max_n: usize) -> (usize, Edges, &'static str) {
    let wmode = ctx.rng.usize(4);
    let ew = |rng: &mut Rng| match wmode {
        0 => 1,
        1 => rng.range(1, 3),
        2 => rng.range(1, 1000),
        _ => rng.range(0, 2),
    };
    let shape = ctx.rng.usize(8);
    let mut edges: Edges = vec![];
    match shape {
        0 | 1 => {
            let n = 1 + ctx.rng.usize(max_n);
            let den = *ctx.rng.pick(&[15u64, 30, 60]);
            for u in 0..n {
                for v in 0..u {
                    if ctx.rng.chance(den, 100) {
                        edges.push((u, v, ew(&mut ctx.rng)));
                    }
                }
            }
            (n, edges, "random")
        }
        2 | 3 => {
            let a = 1 + ctx.rng.usize(5);
            let b = 1 + ctx.rng.usize((max_n / a).max(1).min(6));
            for i in 0..a {
                for j in 0..b {
                    if i + 1 < a {
                        edges.push((i * b + j, (i + 1) * b + j, ew(&mut ctx.rng)));
                    }
                    if j + 1 < b {
                        edges.push((i * b + j, i * b + j + 1, ew(&mut ctx.rng)));
                    }
                }
            }
            (a * b, edges, "grid")
        }
        4 => {
            // two blocks without any edge between them
            let n1 = 1 + ctx.rng.usize(max_n / 2);
            let n2 = 1 + ctx.rng.usize(max_n / 2);
            for u in 0..n1 + n2 {
                for v in 0..u {
                    if (u < n1) == (v < n1) && ctx.rng.chance(50, 100) {
                        edges.push((u, v, ew(&mut ctx.rng)));
                    }
                }
            }
            (n1 + n2, edges, "disconnected")
        }
        5 => {
            // a random graph on some of the vertices, the others are isolated
            let n = 2 + ctx.rng.usize(max_n - 1);
            let live: Vec<bool> = (0..n).map(|_| ctx.rng.chance(60, 100)).collect();
            for u in 0..n {
                for v in 0..u {
                    if live[u] && live[v] && ctx.rng.chance(40, 100) {
                        edges.push((u, v, ew(&mut ctx.rng)));
                    }
                }
            }
            (n, edges, "isolated")
        }
        6 => {
            let n = 2 + ctx.rng.usize(max_n - 1);
            let kind = ctx.rng.usize(3);
            for u in 1..n {
                match kind {
                    0 => edges.push((u, u - 1, ew(&mut ctx.rng))),
                    1 => edges.push((u, 0, ew(&mut ctx.rng))),
                    _ => {
                        edges.push((u, u - 1, ew(&mut ctx.rng)));
                        if u == n - 1 && n > 2 {
                            edges.push((u, 0, ew(&mut ctx.rng)));
                        }
                    }
                }
            }
            (n, edges, "path-star-cycle")
        }
        _ => {
            let n = 1 + ctx.rng.usize(max_n.min(8));
            for u in 0..n {
                for v in 0..u {
                    edges.push((u, v, ew(&mut ctx.rng)));
                }
            }
            (n, edges, "complete")
        }
    }
}

fn gen_weights(ctx: &mut Ctx, n: usize, tie_free: bool) -> (Vec<i64>, &'static str) {
    if tie_free {
        return ((0..n).map(|_| ctx.rng.range(1, 1_000_000_000)).collect(), "vw-wide");
    }
    match ctx.rng.usize(4) {
        0 => (vec![1; n], "vw-unit"),
        1 => ((0..n).map(|_| ctx.rng.range(1, 3)).collect(), "vw-small"),
        2 => ((0..n).map(|_| ctx.rng.range(0, 2)).collect(), "vw-zeros"),
        _ => {
            let mut w: Vec<i64> = (0..n).map(|_| ctx.rng.range(1, 5)).collect();
            let k = ctx.rng.usize(n);
            w[k] = ctx.rng.range(50, 500);
            (w, "vw-dominant")
        }
    }
}

fn gen_ids(ctx: &mut Ctx, n: usize) -> (Vec<usize>, &'static str) {
    match ctx.rng.usize(8) {
        0 => (vec![0; n], "ids-all0"),
        1 => (vec![1; n], "ids-all1"),
        2 => ((0..n).map(|i| (i >= n / 2) as usize).collect(), "ids-halves"),
        3 => ((0..n).map(|i| i % 2).collect(), "ids-alternating"),
        _ => ((0..n).map(|_| ctx.rng.usize(2)).collect(), "ids-random"),
    }
}

fn gen_params(ctx: &mut Ctx, n: usize) -> (Option<f64>, usize, Option<usize>, Option<usize>) {
    let mi = match ctx.rng.usize(12) {
        0 | 1 | 2 => None,
        3 => Some(0.0),
        4 => Some(0.05),
        5 => Some(0.1),
        6 => Some(0.25),
        7 => Some(0.5),
        8 => Some(1.0),
        9 => Some(3.0),
        10 => Some(-0.5),
        _ => Some(ctx.rng.below(64) as f64 / 64.0),
    };
    let mb = match ctx.rng.usize(6) {
        0 => 0,
        1 => 1,
        2 => 2,
        3 => n,
        4 => usize::MAX,
        _ => ctx.rng.usize(5),
    };
    let mp = match ctx.rng.usize(6) {
        0 | 1 => None,
        2 => Some(0),
        3 => Some(1),
        4 => Some(2),
        _ => Some(1 + ctx.rng.usize(10)),
    };
    let mm = match ctx.rng.usize(7) {
        0 | 1 | 2 => None,
        3 => Some(0),
        4 => Some(1),
        5 => Some(n),
        _ => Some(ctx.rng.usize(n + 2)),
    };
    (mi, mb, mp, mm)
}

fn gen_case(ctx: &mut Ctx, max_n: usize, tie_free: bool) -> Case {
    let (n, edges, shape) = gen_graph(ctx, max_n);
    let (ws, wm) = gen_weights(ctx, n, tie_free);
    let (ids, im) = gen_ids(ctx, n);
    let (mi, mb, mp, mm) = gen_params(ctx, n);
    ctx.count(&format!("shape:{}", shape));
    ctx.count(wm);
    ctx.count(im);
    ctx.count(if mi.is_some() { "max_imbalance:some" } else { "max_imbalance:none" });
    ctx.count(if mp.is_some() { "max_passes:some" } else { "max_passes:none" });
    ctx.count(if mm.is_some() { "max_moves:some" } else { "max_moves:none" });
    let f64w = ctx.rng.chance(1, 3);
    ctx.count(if f64w { "weights:f64" } else { "weights:i64" });
    Case { f64w, mi, mb, mp, mm, rows: rows_of(n, &edges), ids, ws }
}

pub fn generate(ctx: &mut Ctx) {
    // (1) exhaustive: every symmetric graph on 3 vertices with edge weights in {absent,1,2},
    //     every two-way partition, two weight vectors, four parameter settings
    let settings: [(Option<f64>, usize, Option<usize>, Option<usize>); 4] = [
        (None, 0, None, None),
        (None, 2, None, None),
        (Some(0.5), 1, None, None),
        (Some(1.0), 1, Some(1), Some(1)),
    ];
    for code in 0..27usize {
        let (a, b, cc) = (code % 3, code / 3 % 3, code / 9);
        let mut edges: Edges = vec![];
        for (k, (u, v)) in [(a, (1, 0)), (b, (2, 0)), (cc, (2, 1))].iter().map(|(w, e)| (*w, *e)) {
            if k > 0 {
                edges.push((u, v, k as i64));
            }
        }
        for mask in 0..8usize {
            for ws in [[1i64, 1, 1], [1, 2, 3]] {
                for (mi, mb, mp, mm) in settings {
                    let c = Case {
                        f64w: false,
                        mi,
                        mb,
                        mp,
                        mm,
                        rows: rows_of(3, &edges),
                        ids: (0..3).map(|i| mask >> i & 1).collect(),
                        ws: ws.to_vec(),
                    };
                    ctx.count("stream:exhaustive3");
                    run_op(ctx, &format_op(&c));
                }
            }
        }
    }
    ctx.notes.push(
        "exhaustive sub-space: all symmetric graphs on 3 vertices with edge weights in {absent,1,2} x all 8 two-way \
         partitions x weights {[1,1,1],[1,2,3]} x 4 parameter settings; every case is run several times (fresh HashSet \
         hashers) and every distinct output is recorded as its own case"
            .into(),
    );
    // (1b) thorough only: every symmetric graph on 4 vertices with edge weights in {absent,1,2},
    //      every two-way partition, two weight vectors, two parameter settings
    if !ctx.quick() {
        let pairs = [(1usize, 0usize), (2, 0), (2, 1), (3, 0), (3, 1), (3, 2)];
        for code in 0..729usize {
            let mut edges: Edges = vec![];
            let mut k = code;
            for (u, v) in pairs {
                if k % 3 > 0 {
                    edges.push((u, v, (k % 3) as i64));
                }
                k /= 3;
            }
            let rows = rows_of(4, &edges);
            for mask in 0..16usize {
                for ws in [[1i64, 1, 1, 1], [1, 2, 3, 4]] {
                    for (mi, mb) in [(None, 2usize), (Some(0.5), 1)] {
                        let c = Case {
                            f64w: false,
                            mi,
                            mb,
                            mp: None,
                            mm: None,
                            rows: rows.clone(),
                            ids: (0..4).map(|i| mask >> i & 1).collect(),
                            ws: ws.to_vec(),
                        };
                        ctx.count("stream:exhaustive4");
                        run_op(ctx, &format_op(&c));
                    }
                }
            }
        }
        ctx.notes.push(
            "thorough: also all symmetric graphs on 4 vertices with edge weights in {absent,1,2} x all 16 two-way \
             partitions x weights {[1,1,1,1],[1,2,3,4]} x 2 parameter settings"
                .into(),
        );
    }
    // (2) tie-free stream (wide vertex weights): exact comparison with the model
    for _ in 0..ctx.budget(700, 14000) {
        let max_n = if ctx.quick() { 16 } else { 28 };
        let c = gen_case(ctx, max_n, true);
        ctx.count("stream:tie-free");
        run_op(ctx, &format_op(&c));
    }
    // (3) tie-heavy stream (unit / small weights): membership by bounded search; kept small
    for _ in 0..ctx.budget(300, 5000) {
        let max_n = 3 + ctx.rng.usize(8);
        let c = gen_case(ctx, max_n, false);
        ctx.count("stream:tie-heavy");
        run_op(ctx, &format_op(&c));
    }
    // (4) malformed stream: outside the quantifier; outcomes are compared with the model and counted,
    //     the oracle is not applied
    for _ in 0..ctx.budget(120, 1500) {
        let mut c = gen_case(ctx, 10, true);
        let n = c.ids.len();
        let kind = ctx.rng.usize(7);
        match kind {
            0 => {
                let k = ctx.rng.usize(n);
                c.ids[k] = 2 + ctx.rng.usize(3);
            }
            1 => {
                if ctx.rng.chance(1, 2) {
                    c.ws.pop();
                } else {
                    c.ws.push(1);
                }
            }
            2 => {
                if ctx.rng.chance(1, 2) {
                    c.ids.pop();
                    c.ws.pop();
                } else {
                    c.ids.push(0);
                    c.ws.push(1);
                }
            }
            3 => {
                // asymmetric: change or drop one direction of one edge
                let cand: Vec<usize> = (0..n).filter(|&v| !c.rows[v].is_empty()).collect();
                if !cand.is_empty() {
                    let v = *ctx.rng.pick(&cand);
                    let k = ctx.rng.usize(c.rows[v].len());
                    if ctx.rng.chance(1, 2) {
                        c.rows[v][k].1 += ctx.rng.range(1, 5);
                    } else {
                        c.rows[v].remove(k);
                    }
                }
            }
            4 => {
                // negative edge weights (kept symmetric)
                for v in 0..n {
                    for k in 0..c.rows[v].len() {
                        let u = c.rows[v][k].0;
                        if u < v && ctx.rng.chance(1, 2) {
                            let w = -ctx.rng.range(1, 9);
                            c.rows[v][k].1 = w;
                            if let Some(e) = c.rows[u].iter_mut().find(|e| e.0 == v) {
                                e.1 = w;
                            }
                        }
                    }
                }
            }
            5 => {
                let v = ctx.rng.usize(n);
                c.rows[v].push((v, ctx.rng.range(1, 5)));
                c.rows[v].sort();
            }
            _ => {
                c.mi = Some(*ctx.rng.pick(&[f64::NAN, f64::INFINITY, 1e300, -1e300, f64::NEG_INFINITY]));
            }
        }
        ctx.count("stream:malformed");
        run_op(ctx, &format_op(&c));
    }
    // (5) the empty input
    let c = Case { f64w: false, mi: None, mb: 0, mp: None, mm: None, rows: vec![], ids: vec![], ws: vec![] };
    run_op(ctx, &format_op(&c));
}
