//! C07 — FiducciaMattheyses never increases the cut nor breaks its weight cap.
//!
//! op:  `fm <wt:i|f> <max_imbalance: none|f64 bits hex> <max_bad> <max_passes: none|N>
//!          <max_moves: none|N> <rows> {<deg> {<nbr> <w>}} <m> <ids…> <l> <weights…>`
//!      (`wt`: vertex weights given to the implementation as `i64` or as integer-valued `f64`;
//!      the matrix is `rows x rows`, CSR, rows strictly ascending.)
//!      The recorded op line carries the implementation's canonical line after `=>`: bucket
//!      iteration order is per-`HashSet` random, so on tie-sensitive cases the model driver
//!      searches for a choice sequence reproducing exactly that line (membership).
//!      A stale `=> …` suffix in corpus/replay lines is ignored and recomputed.
//! op:  `fmr fm <input 1> ;; fm <input 2>`: object reuse, the SAME `FiducciaMattheyses` value (parameters of
//!      input 2) is used on input 1 and then on input 2; the canonical line is the result on input 2 and
//!      must be a result the model allows for input 2 alone (and equal a fresh value's when deterministic).
//! op:  `fmbig <shape> <n> <wkind> <idkind> <mi> <mb> <mp> <mm> <threads> <reuse> <seed>`: large generated
//!      case (rebuilt from these tokens), oracle only (the list-based model is quadratic per move and the
//!      output depends on the hash order: the driver answers `skip large-n (oracle only)`).
//! op:  `fmv <variant> fm …`: the `fm` case run through another legal input type / calling context / special
//!      value encoding (`w=<weight type>/t=<topology type>/c=<context>/nz=<mask of zero weights given as -0.0>/
//!      sc=<e: f64 weights k*2^e>`); the model predicts the plain case, so the line is compared like an `fm` line.
//! op:  `fmconc <pool> <calls> <nested> <seed>`: that many FM calls at once on one pool (each also its own `fmv` line);
//!      `fmproc <kind> <seed>`: a fixed first-call sequence in a child process. Driver: `skip …`.
//! out: `ok <cap> | <ids> | <moves_per_pass> | <rewinded_moves_per_pass>` (`-` = empty list)
//!      | `ok-empty` | `lenmismatch` | `bionly` | `panic …`

use crate::common::*;
use coupe::sprs::CsMat;
use coupe::Partition as _;

#[derive(Clone, Debug)]
struct Case {
    f64w: bool,
    mi: Option<f64>,
    mb: usize,
    mp: Option<usize>,
    mm: Option<usize>,
    rows: Vec<Vec<(usize, i64)>>,
    ids: Vec<usize>,
    ws: Vec<i64>,
}

fn opt(o: &Option<usize>) -> String {
    match o {
        Some(v) => v.to_string(),
        None => "none".into(),
    }
}

fn format_op(c: &Case) -> String {
    let mut s = format!(
        "fm {} {} {} {} {} {}",
        if c.f64w { "f" } else { "i" },
        match c.mi {
            Some(x) => format!("{:x}", x.to_bits()),
            None => "none".into(),
        },
        c.mb,
        opt(&c.mp),
        opt(&c.mm),
        c.rows.len()
    );
    for r in &c.rows {
        s.push_str(&format!(" {}", r.len()));
        for (u, w) in r {
            s.push_str(&format!(" {} {}", u, w));
        }
    }
    s.push_str(&format!(" {}", c.ids.len()));
    for i in &c.ids {
        s.push_str(&format!(" {}", i));
    }
    s.push_str(&format!(" {}", c.ws.len()));
    for w in &c.ws {
        s.push_str(&format!(" {}", w));
    }
    s
}

fn parse_opt(t: &str) -> Option<Option<usize>> {
    if t == "none" {
        Some(None)
    } else {
        t.parse().ok().map(Some)
    }
}

fn parse_op(op: &str) -> Option<Case> {
    let base = op.split("=>").next()?;
    let mut it = base.split_whitespace();
    if it.next()? != "fm" {
        return None;
    }
    let f64w = match it.next()? {
        "f" => true,
        "i" => false,
        _ => return None,
    };
    let mi = match it.next()? {
        "none" => None,
        t => Some(f64::from_bits(u64::from_str_radix(t, 16).ok()?)),
    };
    let mb: usize = it.next()?.parse().ok()?;
    let mp = parse_opt(it.next()?)?;
    let mm = parse_opt(it.next()?)?;
    let n: usize = it.next()?.parse().ok()?;
    let mut rows = Vec::with_capacity(n);
    for _ in 0..n {
        let d: usize = it.next()?.parse().ok()?;
        let mut r = Vec::with_capacity(d);
        for _ in 0..d {
            let u: usize = it.next()?.parse().ok()?;
            let w: i64 = it.next()?.parse().ok()?;
            r.push((u, w));
        }
        rows.push(r);
    }
    let m: usize = it.next()?.parse().ok()?;
    let mut ids = Vec::with_capacity(m);
    for _ in 0..m {
        ids.push(it.next()?.parse().ok()?);
    }
    let l: usize = it.next()?.parse().ok()?;
    let mut ws = Vec::with_capacity(l);
    for _ in 0..l {
        ws.push(it.next()?.parse().ok()?);
    }
    if it.next().is_some() {
        return None;
    }
    // sprs invariants: square matrix, indices in range, rows strictly ascending
    for r in &rows {
        for (k, (u, _)) in r.iter().enumerate() {
            if *u >= n || (k > 0 && r[k - 1].0 >= *u) {
                return None;
            }
        }
    }
    Some(Case { f64w, mi, mb, mp, mm, rows, ids, ws })
}

fn list<T: std::fmt::Display>(xs: &[T]) -> String {
    if xs.is_empty() {
        "-".into()
    } else {
        join(xs)
    }
}

/// What one run of the implementation returned.
enum Ran {
    Ok { ids: Vec<usize>, moves: Vec<usize>, rewound: Vec<usize> },
    Err(String),
    Panic(String),
    Hang,
}

fn call_fm(
    fm: &mut coupe::FiducciaMattheyses,
    c: &Case,
    ids: &mut [usize],
) -> Result<coupe::FmMetadata, coupe::Error> {
    let n = c.rows.len();
    let mut indptr = Vec::with_capacity(n + 1);
    indptr.push(0usize);
    let mut indices = vec![];
    let mut data = vec![];
    for r in &c.rows {
        for (u, w) in r {
            indices.push(*u);
            data.push(*w);
        }
        indptr.push(indices.len());
    }
    let mat: CsMat<i64> = CsMat::new((n, n), indptr, indices, data);
    if c.f64w {
        let w: Vec<f64> = c.ws.iter().map(|&x| x as f64).collect();
        fm.partition(ids, (mat.view(), &w[..]))
    } else {
        fm.partition(ids, (mat.view(), &c.ws[..]))
    }
}

fn run_impl(c: &Case) -> Ran {
    exec(c, None, None, None)
}

/// Run the implementation on `c`. `pre`: the SAME `FiducciaMattheyses` value is first used on that
/// other input (object reuse). `threads`: rayon pool size. `timeout`: watchdog in seconds.
fn exec(c: &Case, pre: Option<&Case>, threads: Option<usize>, timeout: Option<u64>) -> Ran {
    let c = c.clone();
    let pre = pre.cloned();
    let job = move || {
        let mut fm = coupe::FiducciaMattheyses {
            max_imbalance: c.mi,
            max_bad_move_in_a_row: c.mb,
            max_passes: c.mp,
            max_moves_per_pass: c.mm,
        };
        if let Some(p) = &pre {
            let mut pid = p.ids.clone();
            let _ = call_fm(&mut fm, p, &mut pid);
        }
        let mut ids = c.ids.clone();
        let r = call_fm(&mut fm, &c, &mut ids);
        let untouched = fm.max_imbalance.map(f64::to_bits) == c.mi.map(f64::to_bits)
            && fm.max_bad_move_in_a_row == c.mb
            && fm.max_passes == c.mp
            && fm.max_moves_per_pass == c.mm;
        (r.map(|md| (md.moves_per_pass.clone(), md.rewinded_moves_per_pass.clone())), ids, untouched)
    };
    let pooled = move || match threads {
        Some(t) => with_pool(t, job),
        None => job(),
    };
    let res = match timeout {
        Some(secs) => catch_timeout(secs, pooled),
        None => catch(pooled),
    };
    match res {
        Caught::Ok((_, _, false)) => Ran::Err("params-mutated".into()),
        Caught::Ok((Ok((moves, rewound)), ids, _)) => Ran::Ok { ids, moves, rewound },
        Caught::Ok((Err(coupe::Error::InputLenMismatch { .. }), _, _)) => Ran::Err("lenmismatch".into()),
        Caught::Ok((Err(coupe::Error::BiPartitioningOnly), _, _)) => Ran::Err("bionly".into()),
        Caught::Ok((Err(e), _, _)) => Ran::Err(format!("err {:?}", e)),
        // assert_eq! messages span several lines; the protocol is line based
        Caught::Panic(m) => Ran::Panic(m.split_whitespace().collect::<Vec<_>>().join(" ")),
        Caught::Hang => Ran::Hang,
    }
}

fn loads(ws: &[i64], ids: &[usize]) -> [i64; 2] {
    let mut l = [0i64; 2];
    for (w, &i) in ws.iter().zip(ids) {
        if i < 2 {
            l[i] += *w;
        }
    }
    l
}

/// The threshold of the cap test as an integer (`cap < target` on integer targets), computed
/// with the expression of the source; `None` = the `unwrap` of the conversion fails.
fn cap_threshold(c: &Case) -> Option<i64> {
    let l = loads(&c.ws, &c.ids);
    match c.mi {
        None => Some(l[0].max(l[1])),
        Some(mi) => {
            let total = (l[0] + l[1]) as f64;
            let ideal = total / 2.0;
            let x = ideal + mi * ideal;
            const BIG: i64 = 1 << 62;
            if c.f64w {
                Some(if x.is_nan() || x >= BIG as f64 {
                    BIG
                } else if x <= -(BIG as f64) {
                    -BIG
                } else {
                    x.floor() as i64
                })
            } else if x >= -9223372036854775808.0 && x < 9223372036854775808.0 {
                Some(x as i64)
            } else {
                None
            }
        }
    }
}

/// Brute-force edge cut: every stored entry whose end points lie in different parts, halved
/// (the matrix is symmetric on valid inputs).
fn cut2(rows: &[Vec<(usize, i64)>], ids: &[usize]) -> i64 {
    let mut s = 0i64;
    for (v, r) in rows.iter().enumerate() {
        for (u, w) in r {
            if ids[v] != ids[*u] {
                s += *w;
            }
        }
    }
    s
}

#[derive(PartialEq)]
enum Validity {
    Valid,
    /// outside the property's quantifier; the string names why
    Malformed(&'static str),
}

fn validity(c: &Case) -> Validity {
    let n = c.rows.len();
    if c.ids.len() != n || c.ws.len() != n {
        return Validity::Malformed("len");
    }
    if c.ids.iter().any(|&i| i > 1) {
        return Validity::Malformed("parts");
    }
    if c.ws.iter().any(|&w| w < 0) {
        return Validity::Malformed("neg-vertex-weight");
    }
    for (v, r) in c.rows.iter().enumerate() {
        for (u, w) in r {
            if *u == v {
                return Validity::Malformed("self-loop");
            }
            if *w < 0 {
                return Validity::Malformed("neg-edge");
            }
            let back = c.rows[*u].iter().find(|(x, _)| *x == v).map(|(_, w)| *w);
            if back != Some(*w) {
                return Validity::Malformed("asymmetric");
            }
        }
    }
    if cap_threshold(c).is_none() {
        return Validity::Malformed("cap-not-representable");
    }
    if let Some(mi) = c.mi {
        if !mi.is_finite() {
            return Validity::Malformed("imbalance-not-finite");
        }
    }
    Validity::Valid
}

/// The property, stated on the implementation's output (independent of the model).
fn oracle(c: &Case, ids: &[usize], moves: &[usize], rewound: &[usize]) -> Option<(&'static str, String)> {
    let n = c.ids.len();
    if ids.len() != n {
        return Some(("fm-length-changed", format!("{} ids in, {} out", n, ids.len())));
    }
    if ids.iter().any(|&i| i > 1) {
        return Some(("fm-id-out-of-range", format!("ids {:?}", ids)));
    }
    let c_in = cut2(&c.rows, &c.ids);
    let c_out = cut2(&c.rows, ids);
    if c_out > c_in {
        return Some(("fm-cut-increased", format!("cut {} -> {} (doubled values)", c_in, c_out)));
    }
    let cap = cap_threshold(c).unwrap();
    if let Some(mi) = c.mi {
        // the threshold is what the statement names: (1 + max_imbalance) x half the total
        let l = loads(&c.ws, &c.ids);
        let real = (1.0 + mi) * ((l[0] + l[1]) as f64) / 2.0;
        if ((cap as f64) - real).abs() > 1.0 + 1e-9 * real.abs() && real.abs() < 4e18 {
            return Some(("fm-cap-formula", format!("cap {} vs (1+mi)*total/2 = {}", cap, real)));
        }
    }
    let l_in = loads(&c.ws, &c.ids);
    let l_out = loads(&c.ws, ids);
    for k in 0..2 {
        if l_out[k] > l_in[k].max(cap) {
            return Some((
                "fm-cap-broken",
                format!("part {} weighs {} > max(input {}, cap {})", k, l_out[k], l_in[k], cap),
            ));
        }
    }
    if moves.len() != rewound.len() {
        return Some(("fm-meta-lengths", format!("{} vs {}", moves.len(), rewound.len())));
    }
    if let Some(mp) = c.mp {
        if moves.len() > mp {
            return Some(("fm-meta-passes", format!("{} passes > max_passes {}", moves.len(), mp)));
        }
    }
    let mut kept = 0usize;
    for (m, r) in moves.iter().zip(rewound) {
        if let Some(mm) = c.mm {
            if *m > mm {
                return Some(("fm-meta-moves", format!("{} moves > max_moves_per_pass {}", m, mm)));
            }
        }
        if r > m {
            return Some(("fm-meta-rewound", format!("rewound {} > moves {}", r, m)));
        }
        kept += m - r;
    }
    let changed = ids.iter().zip(&c.ids).filter(|(a, b)| a != b).count();
    if changed > kept {
        return Some(("fm-meta-changed", format!("{} vertices relabelled, {} moves kept", changed, kept)));
    }
    None
}

pub fn run_op(ctx: &mut Ctx, op: &str) {
    if ctx.hang_limit_reached() {
        return;
    }
    if op.starts_with("fmbig ") {
        run_big(ctx, op);
        return;
    }
    if op.starts_with("fmr ") {
        run_reuse(ctx, op);
        return;
    }
    if op.starts_with("fmv ") {
        run_variant_replay(ctx, op);
        return;
    }
    if op.starts_with("fmconc ") {
        run_concurrent(ctx, op);
        return;
    }
    if op.starts_with("fmproc ") {
        run_process_sequence(ctx, op);
        return;
    }
    let Some(c) = parse_op(op) else {
        ctx.record(op.to_string(), "bad-op".into(), false);
        return;
    };
    let base = format_op(&c);
    let valid = validity(&c);
    let runs = ctx.budget(3, 4);
    let mut seen: Vec<String> = vec![];
    for _ in 0..runs {
        let ran = run_impl(&c);
        let (out, verdict, nontrivial) = match &ran {
            Ran::Ok { ids, moves, rewound } => {
                if c.ids.is_empty() {
                    ("ok-empty".to_string(), None, false)
                } else {
                    let cap = cap_threshold(&c).unwrap_or(0);
                    let out = format!("ok {} | {} | {} | {}", cap, list(ids), list(moves), list(rewound));
                    let mut v = if valid == Validity::Valid { oracle(&c, ids, moves, rewound) } else { None };
                    // cross-validation of the array-based reference used on the large cases: where it meets no
                    // tie it must agree with the implementation (and, through the driver, with the Lean model)
                    if valid == Validity::Valid && v.is_none() {
                        if let Some((i2, m2, r2)) = reference(&c) {
                            if &i2 != ids || &m2 != moves || &r2 != rewound {
                                v = Some(("fm-differs-from-reference", format!("reference run: {} | {} | {}", list(&i2), list(&m2), list(&r2))));
                            } else {
                                ctx.count("reference:agrees-on-tie-free-case");
                            }
                        }
                    }
                    let nt = valid == Validity::Valid
                        && c.ids.len() >= 2
                        && c.rows.iter().any(|r| !r.is_empty())
                        && moves.iter().sum::<usize>() > 0;
                    (out, v.map(|(s, w)| (s.to_string(), w)), nt)
                }
            }
            Ran::Err(e) => {
                let v = match (e.as_str(), &valid) {
                    ("lenmismatch", Validity::Malformed("len")) => None,
                    ("bionly", Validity::Malformed("parts")) => None,
                    _ => Some(("fm-unexpected-error".to_string(), format!("{} on {:?} input", e, match &valid {
                        Validity::Valid => "valid",
                        Validity::Malformed(w) => w,
                    }))),
                };
                (e.clone(), v, false)
            }
            Ran::Panic(m) => {
                let v = if valid == Validity::Valid {
                    Some(("panic".to_string(), format!("{} [{}]", m, panic_sig(m))))
                } else {
                    None
                };
                (format!("panic {}", m), v, false)
            }
            Ran::Hang => ("hang".to_string(), Some(("hang".to_string(), "watchdog".to_string())), false),
        };
        if seen.contains(&out) {
            continue;
        }
        seen.push(out.clone());
        ctx.count(&format!("out:{}", out.split(' ').next().unwrap_or("")));
        if let Ran::Ok { moves, .. } = &ran {
            ctx.count(&format!("passes:{}", moves.len().min(4)));
        }
        let idx = ctx.record(format!("{} => {}", base, out), out, nontrivial);
        if let Some((sig, what)) = verdict {
            ctx.fail(idx, &sig, what);
        }
    }
    match &valid {
        Validity::Valid => ctx.count("input:valid"),
        Validity::Malformed(w) => ctx.count(&format!("input:malformed:{}", w)),
    }
    ctx.count(if seen.len() > 1 { "hash-order:outputs-differ-between-runs" } else { "hash-order:same-output-in-all-runs" });
}

// ------------------------------------------------------------------ object reuse

fn strict_decrease_ok(c: &Case, ids: &[usize], moves: &[usize], rewound: &[usize]) -> Option<(&'static str, String)> {
    // consequences of the pass structure, O(n + m): a pass that keeps moves lowers the cut strictly
    let kept: usize = moves.iter().zip(rewound).map(|(m, r)| m.saturating_sub(*r)).sum();
    let c_in = cut2(&c.rows, &c.ids);
    let c_out = cut2(&c.rows, ids);
    if kept > 0 && c_out >= c_in {
        return Some(("fm-kept-moves-without-gain", format!("{} moves kept but cut {} -> {} (doubled)", kept, c_in, c_out)));
    }
    None
}

fn run_reuse(ctx: &mut Ctx, op: &str) {
    let body = op.strip_prefix("fmr ").unwrap_or("");
    let base = body.split("=>").next().unwrap_or("");
    let mut halves = base.split(";;");
    let (Some(a), Some(b)) = (halves.next(), halves.next()) else {
        ctx.record(op.to_string(), "bad-op".into(), false);
        return;
    };
    let (Some(c1), Some(c2)) = (parse_op(a.trim()), parse_op(b.trim())) else {
        ctx.record(op.to_string(), "bad-op".into(), false);
        return;
    };
    let valid = validity(&c2) == Validity::Valid;
    let reused = exec(&c2, Some(&c1), None, None);
    let line = |r: &Ran| match r {
        Ran::Ok { ids, moves, rewound } => {
            if c2.ids.is_empty() {
                "ok-empty".to_string()
            } else {
                format!("ok {} | {} | {} | {}", cap_threshold(&c2).unwrap_or(0), list(ids), list(moves), list(rewound))
            }
        }
        Ran::Err(e) => e.clone(),
        Ran::Panic(m) => format!("panic {}", m),
        Ran::Hang => "hang".to_string(),
    };
    let lr = line(&reused);
    let mut verdict: Option<(String, String)> = None;
    if let Ran::Ok { ids, moves, rewound } = &reused {
        if valid && !c2.ids.is_empty() {
            verdict = oracle(&c2, ids, moves, rewound).map(|(s, w)| (s.to_string(), format!("second call of a reused value: {}", w)));
        }
    } else if valid {
        verdict = Some(("fm-reuse-differs".into(), format!("second call of a reused value: {}", lr)));
    }
    ctx.count("reuse");
    // when the reference run of input 2 meets no tie, the result is independent of the hash order: the reused
    // value must return exactly the reference result (ids and metadata), i.e. what a fresh value returns
    let refr = if valid && !c2.ids.is_empty() { reference(&c2) } else { None };
    match refr {
        Some((i2, m2, r2)) => {
            ctx.count("reuse:tie-free-input-compared-with-reference");
            let lref = format!("ok {} | {} | {} | {}", cap_threshold(&c2).unwrap_or(0), list(&i2), list(&m2), list(&r2));
            if lr != lref && verdict.is_none() {
                verdict = Some(("fm-reuse-differs".into(), format!("reference (fresh): {} / reused value: {}", lref, lr)));
            }
        }
        None => ctx.count("reuse:tie-sensitive-or-invalid-input"),
    }
    let idx = ctx.record(
        format!("fmr {} ;; {} => {}", format_op(&c1), format_op(&c2), lr),
        lr.clone(),
        valid && c2.ids.len() >= 2,
    );
    if let Some((sig, what)) = verdict {
        ctx.fail(idx, &sig, what);
    }
}

/// Array-based reference run of the algorithm as the Lean model defines it (same selection rule:
/// largest gain among the admissible free vertices, then smallest target weight). Returns `None`
/// as soon as that rule leaves a choice (a tie): the implementation's answer then depends on the
/// hash order. O(n) per move. Used where the Lean model itself is too slow (large n).
fn reference(c: &Case) -> Option<(Vec<usize>, Vec<usize>, Vec<usize>)> {
    let n = c.ids.len();
    let cap = cap_threshold(c)?;
    let mut part = c.ids.clone();
    let mut pw = loads(&c.ws, &c.ids);
    let mut best = cut2(&c.rows, &c.ids) / 2;
    let (mut moves, mut rewound) = (vec![], vec![]);
    let mut gains = vec![0i64; n];
    let mut locked = vec![false; n];
    let mut pass = 0usize;
    while c.mp.map_or(true, |m| pass < m) {
        pass += 1;
        let old = best;
        let mut cur = best;
        let mut best_at: Option<usize> = None;
        let mut bad = 0usize;
        let mut hist: Vec<(usize, usize)> = vec![];
        for v in 0..n {
            locked[v] = false;
            gains[v] = c.rows[v].iter().map(|(u, w)| if part[*u] == part[v] { -*w } else { *w }).sum();
        }
        let mut k = 0usize;
        while c.mm.map_or(true, |m| k < m) {
            let mut sel: Option<(i64, i64, usize)> = None;
            let mut tie = false;
            for v in 0..n {
                if locked[v] {
                    continue;
                }
                let tw = pw[1 - part[v]] + c.ws[v];
                if cap < tw {
                    continue;
                }
                match sel {
                    None => sel = Some((gains[v], tw, v)),
                    Some((g, t, _)) => {
                        if gains[v] > g || (gains[v] == g && tw < t) {
                            sel = Some((gains[v], tw, v));
                            tie = false;
                        } else if gains[v] == g && tw == t {
                            tie = true;
                        }
                    }
                }
            }
            let Some((g, _, v)) = sel else { break };
            if tie {
                return None;
            }
            if g <= 0 {
                if bad >= c.mb {
                    break;
                }
                bad += 1;
            } else {
                bad = 0;
            }
            locked[v] = true;
            let ip = part[v];
            part[v] = 1 - ip;
            pw[ip] -= c.ws[v];
            pw[1 - ip] += c.ws[v];
            hist.push((v, ip));
            cur -= g;
            if cur < best {
                best = cur;
                best_at = Some(k);
            }
            for (u, w) in &c.rows[v] {
                if !locked[*u] {
                    gains[*u] += if part[*u] == ip { 2 * *w } else { -2 * *w };
                }
            }
            k += 1;
        }
        let r = best_at.map_or(0, |b| b + 1);
        moves.push(hist.len());
        rewound.push(hist.len() - r);
        for (v, ip) in hist.drain(r..) {
            part[v] = ip;
            pw[ip] += c.ws[v];
            pw[1 - ip] -= c.ws[v];
        }
        if old <= best {
            break;
        }
    }
    Some((part, moves, rewound))
}

// ------------------------------------------------------------------ large cases

#[derive(Clone, Debug)]
struct Big {
    shape: String,
    n: usize,
    wkind: String,
    idkind: String,
    mi: Option<f64>,
    mb: usize,
    mp: Option<usize>,
    mm: Option<usize>,
    threads: usize,
    reuse: bool,
    seed: u64,
}

fn format_big(b: &Big) -> String {
    format!(
        "fmbig {} {} {} {} {} {} {} {} {} {} {}",
        b.shape,
        b.n,
        b.wkind,
        b.idkind,
        match b.mi {
            Some(x) => format!("{:x}", x.to_bits()),
            None => "none".into(),
        },
        b.mb,
        opt(&b.mp),
        opt(&b.mm),
        b.threads,
        b.reuse as u8,
        b.seed
    )
}

fn parse_big(op: &str) -> Option<Big> {
    let base = op.split("=>").next()?;
    let t: Vec<&str> = base.split_whitespace().collect();
    if t.len() != 12 || t[0] != "fmbig" {
        return None;
    }
    let n: usize = t[2].parse().ok()?;
    if n == 0 || n >= 1 << 18 {
        return None;
    }
    Some(Big {
        shape: t[1].to_string(),
        n,
        wkind: t[3].to_string(),
        idkind: t[4].to_string(),
        mi: match t[5] {
            "none" => None,
            x => Some(f64::from_bits(u64::from_str_radix(x, 16).ok()?)),
        },
        mb: t[6].parse().ok()?,
        mp: parse_opt(t[7])?,
        mm: parse_opt(t[8])?,
        threads: t[9].parse().ok()?,
        reuse: t[10] == "1",
        seed: t[11].parse().ok()?,
    })
}

/// Deterministic construction of a large sparse symmetric graph + weights + ids from the tokens.
fn build_big(b: &Big, n: usize, salt: u64) -> Option<Case> {
    let mut rng = Rng::new(b.seed ^ salt.wrapping_mul(0x9E37_79B9_7F4A_7C15));
    let mut rows: Vec<Vec<(usize, i64)>> = vec![Vec::with_capacity(4); n];
    let add = |rows: &mut Vec<Vec<(usize, i64)>>, u: usize, v: usize, w: i64| {
        if u != v && u < n && v < n && !rows[u].iter().any(|(x, _)| *x == v) {
            rows[u].push((v, w));
            rows[v].push((u, w));
        }
    };
    match b.shape.as_str() {
        // grids numbered row by row; the last row may be partial
        "grid4096" | "grid8192" | "gridsq" => {
            let width = match b.shape.as_str() {
                "grid4096" => 4096,
                "grid8192" => 8192,
                _ => ((n as f64).sqrt() as usize).max(1),
            };
            for v in 0..n {
                if (v + 1) % width != 0 {
                    add(&mut rows, v, v + 1, 1);
                }
                add(&mut rows, v, v + width, 1);
            }
        }
        // a path with a small gadget (two chords) every 64 vertices, edge weights 1..3
        "pathgadget" => {
            for v in 0..n {
                add(&mut rows, v, v + 1, 1 + (v % 3) as i64);
                if v % 64 == 0 {
                    add(&mut rows, v, v + 2, 2);
                    add(&mut rows, v, v + 3, 1);
                }
            }
        }
        // comb: a spine path (even vertices) with one pendant tooth per spine vertex (odd vertices);
        // with ids `alt` every tooth gains by joining the spine's part: one-directional pressure on the cap
        "comb" => {
            for v in (0..n).step_by(2) {
                add(&mut rows, v, v + 1, 1);
                add(&mut rows, v, v + 2, 1);
            }
        }
        // random graph with degree <= 4, edge weights 1..9
        "rand4" => {
            for v in 0..n {
                for _ in 0..2 {
                    let u = rng.usize(n);
                    if rows[v].len() < 4 && rows[u].len() < 4 {
                        let w = rng.range(1, 9);
                        add(&mut rows, v, u, w);
                    }
                }
            }
        }
        _ => return None,
    }
    for r in rows.iter_mut() {
        r.sort();
    }
    let ws: Vec<i64> = match b.wkind.as_str() {
        "unit" => vec![1; n],
        "small" => (0..n).map(|_| rng.range(1, 3)).collect(),
        // pairwise distinct (low 18 bits = vertex number, n < 2^18)
        "wide" => (0..n).map(|v| (rng.range(1, 1_000_000) << 18) + v as i64).collect(),
        _ => return None,
    };
    let ids: Vec<usize> = match b.idkind.as_str() {
        "blocks4096" => (0..n).map(|v| (v / 4096) % 2).collect(),
        "blocks8192" => (0..n).map(|v| (v / 8192) % 2).collect(),
        "split30" => (0..n).map(|v| (v >= n * 3 / 10) as usize).collect(),
        "alt" => (0..n).map(|v| v % 2).collect(),
        "random" => (0..n).map(|_| rng.usize(2)).collect(),
        _ => return None,
    };
    Some(Case { f64w: false, mi: b.mi, mb: b.mb, mp: b.mp, mm: b.mm, rows, ids, ws })
}

fn size_class(n: usize) -> &'static str {
    match n {
        0..=4096 => "<=4096",
        4097..=8192 => "4097..8192",
        8193..=16384 => "8193..16384",
        16385..=20000 => "16385..20000",
        20001..=65536 => "20001..65536",
        65537..=131072 => "65537..131072",
        _ => ">131072",
    }
}

fn run_big(ctx: &mut Ctx, op: &str) {
    let Some(b) = parse_big(op) else {
        ctx.record(op.to_string(), "bad-op".into(), false);
        return;
    };
    let Some(c) = build_big(&b, b.n, 0) else {
        ctx.record(op.to_string(), "bad-op".into(), false);
        return;
    };
    // reuse: the same value is first used on another, smaller and ten times heavier input
    let pre = if b.reuse {
        build_big(&b, b.n / 2 + 7, 1).map(|mut p| {
            for w in p.ws.iter_mut() {
                *w *= 10;
            }
            p
        })
    } else {
        None
    };
    let secs = if ctx.quick() { 120 } else { 400 };
    let ran = exec(&c, pre.as_ref(), Some(b.threads), Some(secs));
    ctx.count(&format!("large:{}", size_class(b.n)));
    ctx.count(&format!("large:shape:{}", b.shape));
    ctx.count(&format!("large:threads:{}", b.threads));
    if b.reuse {
        ctx.count("reuse");
        ctx.count("reuse:large");
    }
    let base = format_big(&b);
    let (out, mut verdict): (String, Option<(String, String)>) = match &ran {
        Ran::Ok { ids, moves, rewound } => {
            let cap = cap_threshold(&c).unwrap_or(0);
            let li = loads(&c.ws, &c.ids);
            let lo = loads(&c.ws, ids);
            let kept: usize = moves.iter().zip(rewound).map(|(m, r)| m.saturating_sub(*r)).sum();
            let maxm = moves.iter().copied().max().unwrap_or(0);
            if maxm > 8192 {
                ctx.count("large:pass-with-more-than-8192-moves");
            }
            if maxm > 16384 {
                ctx.count("large:pass-with-more-than-16384-moves");
            }
            let out = format!(
                "ok cap={} cut2={}->{} loads={}/{}->{}/{} passes={} moves={} kept={} maxmoves={}",
                cap,
                cut2(&c.rows, &c.ids),
                cut2(&c.rows, ids),
                li[0],
                li[1],
                lo[0],
                lo[1],
                moves.len(),
                moves.iter().sum::<usize>(),
                kept,
                maxm
            );
            let v = oracle(&c, ids, moves, rewound)
                .or_else(|| strict_decrease_ok(&c, ids, moves, rewound))
                .map(|(s, w)| (s.to_string(), w));
            (out, v)
        }
        Ran::Err(e) => (e.clone(), Some(("fm-unexpected-error".into(), e.clone()))),
        Ran::Panic(m) => (format!("panic {}", m), Some(("panic".into(), format!("{} [{}]", m, panic_sig(m))))),
        Ran::Hang => ("hang".into(), Some(("hang".into(), format!("no result after {} s", secs)))),
    };
    // distinct wide weights: the run is (almost surely) tie-free, hence deterministic: ids and metadata must be
    // exactly those of the reference run (this also covers object reuse: the reference sees only this input)
    if b.wkind == "wide" && verdict.is_none() {
        if let Ran::Ok { ids, moves, rewound } = &ran {
            match reference(&c) {
                Some((i2, m2, r2)) => {
                    ctx.count("large:compared-with-reference");
                    if &i2 != ids || &m2 != moves || &r2 != rewound {
                        let diff = i2.iter().zip(ids).filter(|(a, b)| a != b).count();
                        verdict = Some((
                            "fm-large-differs-from-reference".into(),
                            format!(
                                "{} ids differ from the tie-free reference run; metadata {:?}/{:?}, reference {:?}/{:?}",
                                diff, moves, rewound, m2, r2
                            ),
                        ));
                    }
                }
                None => ctx.count("large:reference-met-a-tie"),
            }
        }
    }
    let idx = ctx.record(format!("{} => {}", base, out), out, true);
    if let Some((sig, what)) = verdict {
        ctx.fail(idx, &sig, what);
    }
}

fn gen_large(ctx: &mut Ctx) {
    let big = |shape: &str, n: usize, wk: &str, ik: &str, mi: Option<f64>, mb: usize, mp: Option<usize>, mm: Option<usize>, th: usize, reuse: bool, seed: u64| Big {
        shape: shape.into(),
        n,
        wkind: wk.into(),
        idkind: ik.into(),
        mi,
        mb,
        mp,
        mm,
        threads: th,
        reuse,
        seed,
    };
    let s = ctx.rng.next() % 1_000_000;
    let m = usize::MAX;
    let mut list = vec![
        // just above / far above 2^12, 2^13, 2^14; block-aligned ids and row-by-row grids; long passes
        big("grid4096", 20_517, "unit", "blocks4096", Some(0.25), m, Some(1), None, 2, false, s),
        big("pathgadget", 16_385 + 37, "small", "split30", None, m, Some(2), None, 3, false, s + 1),
        big("rand4", 20_001, "wide", "random", Some(0.1), 20_001, Some(1), Some(8_500), 16, false, s + 2),
        big("grid8192", 16_385 + 38, "unit", "blocks8192", Some(1.0), m, Some(1), Some(9001), 1, false, s + 3),
        big("rand4", 8_193 + 7, "wide", "random", None, m, Some(2), None, 2, true, s + 4),
        big("gridsq", 4_097, "small", "alt", Some(0.5), 3, None, None, 3, false, s + 5),
        // the cap starts to bind after 16 500 of 18 011 one-directional moves and stays binding
        big("comb", 36_022, "unit", "alt", Some(16_500.0 / 18_011.0), m, Some(1), Some(24_000), 2, false, s + 16),
        big("comb", 12_289, "wide", "alt", Some(0.45), m, Some(1), None, 3, false, s + 17),
    ];
    if !ctx.quick() {
        list.extend(vec![
            big("grid4096", 65_537 + 11, "unit", "blocks4096", Some(0.25), m, Some(1), Some(17_000), 16, false, s + 6),
            big("rand4", 70_001, "wide", "random", Some(0.2), m, Some(2), Some(9_000), 3, false, s + 7),
            big("grid8192", 131_077, "small", "blocks8192", Some(0.5), m, Some(1), Some(10_000), 2, false, s + 8),
            big("pathgadget", 140_003, "unit", "split30", None, m, Some(1), Some(12_000), 1, false, s + 9),
            big("rand4", 140_003, "wide", "blocks4096", None, m, Some(1), Some(9_000), 16, true, s + 10),
            big("gridsq", 20_001, "wide", "split30", None, m, Some(3), None, 1, true, s + 11),
            big("pathgadget", 32_768 + 5, "wide", "blocks8192", Some(0.05), 50, None, Some(8_200), 2, false, s + 12),
            big("grid4096", 16_384 + 4096 + 1, "small", "random", Some(3.0), m, Some(2), None, 3, false, s + 13),
            big("rand4", 24_577, "unit", "alt", Some(0.3), m, Some(1), None, 16, false, s + 14),
            big("gridsq", 8_193, "unit", "blocks4096", None, 10, None, None, 1, true, s + 15),
            big("comb", 131_077 + 1, "unit", "alt", Some(0.75), m, Some(1), Some(60_000), 16, false, s + 18),
            big("comb", 70_001, "wide", "alt", Some(0.3), m, Some(1), Some(20_000), 2, false, s + 19),
        ]);
    }
    for b in list {
        ctx.count("stream:large");
        run_op(ctx, &format_big(&b));
    }
    ctx.notes.push(
        "large stream: oracle only (cut, cap, metadata in O(n+m), plus 'kept moves => cut strictly lower', and on \
         distinct-weight inputs ids and metadata must equal an array-based reference run of the model's rules, also \
         after object reuse); the Lean model is not run (list-based, quadratic per move; unit-weight outputs depend on the hash order). Every move of these runs also passes the \
         implementation's own debug_assert on the tracked cut."
            .into(),
    );
}

fn gen_corners(ctx: &mut Ctx) {
    // exactly one and two vertices, exhaustive
    for w in [0i64, 1, 2, 5] {
        let edges: Edges = if w > 0 { vec![(1, 0, w)] } else { vec![] };
        for mask in 0..4usize {
            for ws in [[1i64, 1], [1, 3], [0, 2]] {
                for (mi, mb, mp, mm) in [
                    (None, 0usize, None, None),
                    (None, usize::MAX, None, None),
                    (Some(0.5), 1, None, None),
                    (Some(1.0), 2, Some(usize::MAX), Some(usize::MAX)),
                ] {
                    let c = Case { f64w: mask == 3, mi, mb, mp, mm, rows: rows_of(2, &edges), ids: vec![mask & 1, mask >> 1], ws: ws.to_vec() };
                    ctx.count("corner:two-vertices");
                    run_op(ctx, &format_op(&c));
                }
            }
        }
    }
    for id in 0..2usize {
        for w in [0i64, 1, 7] {
            let c = Case { f64w: false, mi: Some(0.0), mb: 1, mp: None, mm: None, rows: vec![vec![]], ids: vec![id], ws: vec![w] };
            ctx.count("corner:one-vertex");
            run_op(ctx, &format_op(&c));
        }
    }
    // limits at usize::MAX
    for _ in 0..ctx.budget(20, 200) {
        let mut c = gen_case(ctx, 12, true);
        c.mp = Some(usize::MAX);
        c.mm = Some(usize::MAX);
        c.mb = usize::MAX;
        ctx.count("corner:limits-usize-max");
        run_op(ctx, &format_op(&c));
    }
    // i64 vertex weights near 2^60 whose total fits; max_imbalance None: the cap is the heaviest input part,
    // exactly (a cap that went through f64 is off by up to 128 there)
    for k in 0..ctx.budget(40, 400) {
        let base: i64 = (1 << 60) + 256 * ctx.rng.range(-1000, 1000);
        let c = if k % 2 == 0 {
            // crafted: part 0 = {a, v} weighs base-2, part 1 = {b} weighs base-4; moving v (weight 4, one edge to b)
            // would give base, two above the cap base-2, but not above the cap rounded to a multiple of 256
            let wv = ctx.rng.range(3, 100);
            let d = ctx.rng.range(1, (wv - 1).min(120));
            // L0 = base - d (heaviest), L1 = base - d - wv + e  with 1 <= e <= d: target = L1 + wv = base - d + e > L0
            let e = ctx.rng.range(1, d);
            let a = base - d - wv;
            let bw = base - d - wv + e;
            let we = ctx.rng.range(1, 9);
            let flip = ctx.rng.chance(1, 2);
            let (p0, p1) = if flip { (1, 0) } else { (0, 1) };
            Case {
                f64w: false,
                mi: None,
                mb: ctx.rng.usize(3),
                mp: None,
                mm: None,
                rows: rows_of(3, &vec![(1, 2, we)]),
                ids: vec![p0, p0, p1],
                ws: vec![a, wv, bw],
            }
        } else {
            let mut c = gen_case(ctx, 7, true);
            let n = c.ids.len();
            c.mi = None;
            c.f64w = false;
            for i in 0..n {
                c.ws[i] = if i < 6 && ctx.rng.chance(2, 3) { base + ctx.rng.range(-300, 300) } else { ctx.rng.range(1, 300) };
            }
            c
        };
        ctx.count("corner:i64-weights-near-2^60");
        run_op(ctx, &format_op(&c));
    }
    // integer-valued f64 weights near 2^50..2^51 whose total stays below 2^53
    for _ in 0..ctx.budget(20, 200) {
        let mut c = gen_case(ctx, 7, true);
        let n = c.ids.len();
        c.mi = None;
        c.f64w = true;
        for i in 0..n {
            c.ws[i] = if i < 3 && ctx.rng.chance(2, 3) { (1i64 << 51) + ctx.rng.range(-300, 300) } else { ctx.rng.range(1, 300) };
        }
        ctx.count("corner:f64-weights-near-2^51");
        run_op(ctx, &format_op(&c));
    }
    // object reuse, small (the second result is also compared with the model)
    for k in 0..ctx.budget(60, 600) {
        let c1 = gen_case(ctx, 12, true);
        let mut c2 = gen_case(ctx, 12, k % 4 != 3);
        if k % 2 == 0 {
            c2.mi = None;
        }
        let mut c1 = c1;
        c1.f64w = c2.f64w;
        if k % 3 == 0 {
            // first input much heavier: a cap remembered from the first call would be far too large
            for w in c1.ws.iter_mut() {
                *w = (*w).saturating_mul(1000).min(1 << 50);
            }
        }
        c1.mi = c2.mi;
        c1.mb = c2.mb;
        c1.mp = c2.mp;
        c1.mm = c2.mm;
        run_op(ctx, &format!("fmr {} ;; {}", format_op(&c1), format_op(&c2)));
    }
}

// ------------------------------------------------------------------ special values / plumbing / context

#[derive(Clone, Copy, Debug, PartialEq)]
enum WTy {
    I64,
    F64,
    I32,
    U32,
    U64,
    Usize,
    F32,
    I128,
    U8,
    I16,
}

#[derive(Clone, Copy, Debug, PartialEq)]
enum Topo {
    View,
    RefView,
    RefRefView,
    Grid(usize, usize),
    RefGrid(usize, usize),
    /// through `coupe_tools::parse_algorithm("fm,…")` on a quad mesh of a x b elements
    Tools(usize, usize),
}

#[derive(Clone, Copy, Debug, PartialEq)]
enum CallCtx {
    Global,
    Pool(usize),
    Join(usize),
    Spawn(usize),
}

#[derive(Clone, Copy, Debug)]
struct Variant {
    w: WTy,
    t: Topo,
    c: CallCtx,
    /// bit i%64 set: a zero weight of vertex i is given as -0.0 (f64 / f32 only)
    nz: u64,
    /// f64 weights are k * 2^e
    sc: Option<i32>,
}

impl Variant {
    fn plain(f64w: bool) -> Self {
        Variant { w: if f64w { WTy::F64 } else { WTy::I64 }, t: Topo::View, c: CallCtx::Global, nz: 0, sc: None }
    }
    fn is_float(&self) -> bool {
        matches!(self.w, WTy::F64 | WTy::F32)
    }
    fn token(&self) -> String {
        let w = format!("{:?}", self.w).to_lowercase();
        let t = match self.t {
            Topo::View => "view".to_string(),
            Topo::RefView => "refview".to_string(),
            Topo::RefRefView => "refrefview".to_string(),
            Topo::Grid(a, b) => format!("grid:{}x{}", a, b),
            Topo::RefGrid(a, b) => format!("refgrid:{}x{}", a, b),
            Topo::Tools(a, b) => format!("tools:{}x{}", a, b),
        };
        let c = match self.c {
            CallCtx::Global => "global".to_string(),
            CallCtx::Pool(t) => format!("pool{}", t),
            CallCtx::Join(t) => format!("join{}", t),
            CallCtx::Spawn(t) => format!("spawn{}", t),
        };
        format!("w={}/t={}/c={}/nz={}/sc={}", w, t, c, self.nz, self.sc.map_or("none".to_string(), |e| e.to_string()))
    }
    fn parse(tok: &str) -> Option<Variant> {
        let mut v = Variant::plain(false);
        for part in tok.split('/') {
            let (k, x) = part.split_once('=')?;
            match k {
                "w" => {
                    v.w = match x {
                        "i64" => WTy::I64,
                        "f64" => WTy::F64,
                        "i32" => WTy::I32,
                        "u32" => WTy::U32,
                        "u64" => WTy::U64,
                        "usize" => WTy::Usize,
                        "f32" => WTy::F32,
                        "i128" => WTy::I128,
                        "u8" => WTy::U8,
                        "i16" => WTy::I16,
                        _ => return None,
                    }
                }
                "t" => {
                    let dims = |d: &str| -> Option<(usize, usize)> {
                        let (a, b) = d.split_once('x')?;
                        let (a, b) = (a.parse().ok()?, b.parse().ok()?);
                        if a == 0 || b == 0 || a * b > 100_000 {
                            return None;
                        }
                        Some((a, b))
                    };
                    v.t = match x {
                        "view" => Topo::View,
                        "refview" => Topo::RefView,
                        "refrefview" => Topo::RefRefView,
                        _ => {
                            let (kind, d) = x.split_once(':')?;
                            let (a, b) = dims(d)?;
                            match kind {
                                "grid" => Topo::Grid(a, b),
                                "refgrid" => Topo::RefGrid(a, b),
                                "tools" => Topo::Tools(a, b),
                                _ => return None,
                            }
                        }
                    }
                }
                "c" => {
                    v.c = if x == "global" {
                        CallCtx::Global
                    } else if let Some(t) = x.strip_prefix("pool") {
                        CallCtx::Pool(t.parse().ok().filter(|t| (1..=64).contains(t))?)
                    } else if let Some(t) = x.strip_prefix("join") {
                        CallCtx::Join(t.parse().ok().filter(|t| (1..=64).contains(t))?)
                    } else if let Some(t) = x.strip_prefix("spawn") {
                        CallCtx::Spawn(t.parse().ok().filter(|t| (1..=64).contains(t))?)
                    } else {
                        return None;
                    }
                }
                "nz" => v.nz = x.parse().ok()?,
                "sc" => v.sc = if x == "none" { None } else { Some(x.parse().ok().filter(|e| (-1074..=1023).contains(e))?) },
                _ => return None,
            }
        }
        Some(v)
    }
    /// cause signature of a dependence on this variant
    fn sig(&self) -> &'static str {
        if self.nz != 0 {
            "negzero-dependent@fm"
        } else if self.sc.is_some() {
            "scale-dependent@fm"
        } else if self.c != CallCtx::Global {
            "context-dependent@fm"
        } else {
            "input-type-dependent@fm"
        }
    }
}

/// 2^e as an f64, exact for -1074 <= e <= 1023 (no `powi`: its intermediate results over/underflow).
fn pow2(e: i32) -> f64 {
    if e >= -1022 {
        f64::from_bits(((e + 1023) as u64) << 52)
    } else {
        f64::from_bits(1u64 << (e + 1074))
    }
}

fn grid_rows(a: usize, b: usize) -> Vec<Vec<(usize, i64)>> {
    use coupe::Topology;
    let g = coupe::Grid::new_2d(std::num::NonZeroUsize::new(a).unwrap(), std::num::NonZeroUsize::new(b).unwrap());
    let n = a * b;
    (0..n)
        .map(|v| {
            let mut r: Vec<(usize, i64)> = Topology::<i64>::neighbors(&g, v).collect();
            r.sort();
            r
        })
        .collect()
}

fn quad_mesh(a: usize, b: usize) -> mesh_io::Mesh {
    let mut coords = vec![];
    for i in 0..=a {
        for j in 0..=b {
            coords.push(j as f64);
            coords.push(i as f64);
        }
    }
    let mut nodes = vec![];
    for i in 0..a {
        for j in 0..b {
            let n00 = i * (b + 1) + j;
            nodes.extend_from_slice(&[n00, n00 + 1, n00 + b + 2, n00 + b + 1]);
        }
    }
    let nn = (a + 1) * (b + 1);
    mesh_io::Mesh::from_raw_parts(2, coords, vec![0; nn], vec![(mesh_io::ElementType::Quadrangle, nodes, vec![0; a * b])])
}

fn tools_rows(a: usize, b: usize) -> Vec<Vec<(usize, i64)>> {
    let m = coupe_tools::dual(&quad_mesh(a, b));
    let n = m.rows();
    (0..n)
        .map(|v| {
            let row = m.outer_view(v).unwrap();
            row.iter().map(|(u, w)| (u, *w as i64)).collect()
        })
        .collect()
}

type CallOut = Result<(Vec<usize>, Vec<usize>), String>;

fn call_w<W: coupe::FmWeight>(fm: &mut coupe::FiducciaMattheyses, c: &Case, t: Topo, w: &[W], ids: &mut [usize]) -> CallOut {
    let n = c.rows.len();
    let mut indptr = Vec::with_capacity(n + 1);
    indptr.push(0usize);
    let mut indices = vec![];
    let mut data = vec![];
    for r in &c.rows {
        for (u, x) in r {
            indices.push(*u);
            data.push(*x);
        }
        indptr.push(indices.len());
    }
    let mat: CsMat<i64> = CsMat::new((n, n), indptr, indices, data);
    let view = mat.view();
    let nzu = |x: usize| std::num::NonZeroUsize::new(x).unwrap();
    let r = match t {
        Topo::View => fm.partition(ids, (view, w)),
        Topo::RefView => fm.partition(ids, (&view, w)),
        Topo::RefRefView => {
            let r1 = &view;
            fm.partition(ids, (&r1, w))
        }
        Topo::Grid(a, b) => fm.partition(ids, (coupe::Grid::new_2d(nzu(a), nzu(b)), w)),
        Topo::RefGrid(a, b) => {
            let g = coupe::Grid::new_2d(nzu(a), nzu(b));
            fm.partition(ids, (&g, w))
        }
        Topo::Tools(..) => return Err("bad-variant".into()),
    };
    match r {
        Ok(md) => Ok((md.moves_per_pass.clone(), md.rewinded_moves_per_pass.clone())),
        Err(coupe::Error::InputLenMismatch { .. }) => Err("lenmismatch".into()),
        Err(coupe::Error::BiPartitioningOnly) => Err("bionly".into()),
        Err(e) => Err(format!("err {:?}", e)),
    }
}

fn conv<W: coupe::num_traits::FromPrimitive>(ws: &[i64]) -> Option<Vec<W>> {
    ws.iter().map(|&k| W::from_i64(k)).collect()
}

fn parse_debug_list(s: &str, key: &str) -> Option<Vec<usize>> {
    let i = s.find(key)? + key.len();
    let rest = &s[i..];
    let j = rest.find(']')?;
    let inner = rest[..j].trim_start_matches(|ch: char| ch == ':' || ch == ' ' || ch == '[');
    if inner.trim().is_empty() {
        return Some(vec![]);
    }
    inner.split(',').map(|t| t.trim().parse().ok()).collect()
}

fn call_tools(c: &Case, v: &Variant, a: usize, b: usize, ids: &mut [usize]) -> CallOut {
    if tools_rows(a, b) != c.rows {
        return Err("bad-variant".into());
    }
    let Some(mi) = c.mi else { return Err("bad-variant".into()) };
    let spec = format!("fm,{},{},{},{}", mi, c.mb, c.mp.unwrap_or(0), c.mm.unwrap_or(0));
    let weights = match v.w {
        WTy::I64 => mesh_io::weight::Array::Integers(c.ws.iter().map(|&k| vec![k]).collect()),
        WTy::F64 => mesh_io::weight::Array::Floats(c.ws.iter().map(|&k| vec![k as f64]).collect()),
        _ => return Err("bad-variant".into()),
    };
    let problem = coupe_tools::Problem::<2>::new(quad_mesh(a, b), weights, coupe_tools::EdgeWeightDistribution::Uniform);
    let mut algo = coupe_tools::parse_algorithm::<2>(&spec).map_err(|e| format!("err tools: {}", e))?;
    let mut runner = algo.to_runner(&problem);
    match runner(ids) {
        Ok(Some(md)) => {
            let s = format!("{:?}", md);
            let moves = parse_debug_list(&s, "moves_per_pass").ok_or("err tools: metadata")?;
            let rew = parse_debug_list(&s, "rewinded_moves_per_pass").ok_or("err tools: metadata")?;
            Ok((moves, rew))
        }
        Ok(None) => Err("err tools: no metadata".into()),
        Err(e) => Err(format!("err tools: {}", e)),
    }
}

/// One call of the implementation in the variant's types (no context, no panic capture).
fn call_variant(c: &Case, v: &Variant) -> (CallOut, Vec<usize>) {
    let mut fm = coupe::FiducciaMattheyses {
        max_imbalance: c.mi,
        max_bad_move_in_a_row: c.mb,
        max_passes: c.mp,
        max_moves_per_pass: c.mm,
    };
    let mut ids = c.ids.clone();
    if let Topo::Tools(a, b) = v.t {
        let r = call_tools(c, v, a, b, &mut ids);
        return (r, ids);
    }
    macro_rules! int {
        ($t:ty) => {
            match conv::<$t>(&c.ws) {
                Some(w) => call_w::<$t>(&mut fm, c, v.t, &w, &mut ids),
                None => Err("bad-variant".into()),
            }
        };
    }
    let r = match v.w {
        WTy::I64 => int!(i64),
        WTy::I32 => int!(i32),
        WTy::U32 => int!(u32),
        WTy::U64 => int!(u64),
        WTy::Usize => int!(usize),
        WTy::I128 => int!(i128),
        WTy::U8 => int!(u8),
        WTy::I16 => int!(i16),
        WTy::F64 => {
            let s = pow2(v.sc.unwrap_or(0));
            let w: Vec<f64> = c
                .ws
                .iter()
                .enumerate()
                .map(|(i, &k)| if k == 0 && v.nz >> (i % 64) & 1 == 1 { -0.0 } else { k as f64 * s })
                .collect();
            call_w::<f64>(&mut fm, c, v.t, &w, &mut ids)
        }
        WTy::F32 => {
            let w: Vec<f32> = c
                .ws
                .iter()
                .enumerate()
                .map(|(i, &k)| if k == 0 && v.nz >> (i % 64) & 1 == 1 { -0.0 } else { k as f32 })
                .collect();
            call_w::<f32>(&mut fm, c, v.t, &w, &mut ids)
        }
    };
    (r, ids)
}

fn to_ran(r: (CallOut, Vec<usize>)) -> Ran {
    match r {
        (Ok((moves, rewound)), ids) => Ran::Ok { ids, moves, rewound },
        (Err(e), _) => Ran::Err(e),
    }
}

fn exec_variant(c: &Case, v: &Variant) -> Ran {
    let (c, v) = (c.clone(), *v);
    let job = move || call_variant(&c, &v);
    let wrapped = move || match v.c {
        CallCtx::Global => job(),
        CallCtx::Pool(t) => with_pool(t, job),
        CallCtx::Join(t) => with_pool(t, || coupe::rayon::join(job, || ()).0),
        CallCtx::Spawn(t) => with_pool(t, || {
            let mut out = None;
            coupe::rayon::scope(|s| s.spawn(|_| out = Some(job())));
            out.expect("spawned task ran")
        }),
    };
    match catch_timeout(60, wrapped) {
        Caught::Ok(r) => to_ran(r),
        Caught::Panic(m) => Ran::Panic(m.split_whitespace().collect::<Vec<_>>().join(" ")),
        Caught::Hang => Ran::Hang,
    }
}

fn canon(c: &Case, r: &Ran) -> String {
    match r {
        Ran::Ok { ids, moves, rewound } => {
            if c.ids.is_empty() {
                "ok-empty".to_string()
            } else {
                format!("ok {} | {} | {} | {}", cap_threshold(c).unwrap_or(0), list(ids), list(moves), list(rewound))
            }
        }
        Ran::Err(e) => e.clone(),
        Ran::Panic(m) => format!("panic {}", m),
        Ran::Hang => "hang".to_string(),
    }
}

/// Full oracle + (where the model's rules leave no choice) exact equality with the reference run.
fn judge(c: &Case, r: &Ran, sig: &str) -> Option<(String, String)> {
    match r {
        Ran::Ok { ids, moves, rewound } => {
            if let Some((s, w)) = oracle(c, ids, moves, rewound) {
                return Some((s.to_string(), w));
            }
            if let Some((i2, m2, r2)) = reference(c) {
                if &i2 != ids || &m2 != moves || &r2 != rewound {
                    return Some((
                        sig.to_string(),
                        format!(
                            "got {} | {} | {}, the plain call gives (tie-free reference) {} | {} | {}",
                            list(ids), list(moves), list(rewound), list(&i2), list(&m2), list(&r2)
                        ),
                    ));
                }
            }
            None
        }
        Ran::Err(e) => Some(("fm-unexpected-error".into(), e.clone())),
        Ran::Panic(m) => Some(("panic".into(), format!("{} [{}]", m, panic_sig(m)))),
        Ran::Hang => Some(("hang".into(), "watchdog".into())),
    }
}

fn run_variant(ctx: &mut Ctx, c: &Case, v: &Variant) {
    let mut c = c.clone();
    c.f64w = v.is_float();
    if validity(&c) != Validity::Valid {
        ctx.record(format!("fmv {} {}", v.token(), format_op(&c)), "bad-op".into(), false);
        return;
    }
    let ran = exec_variant(&c, v);
    let out = canon(&c, &ran);
    let verdict = judge(&c, &ran, v.sig());
    ctx.count(&format!("plumbing:weights:{:?}", v.w).to_lowercase());
    ctx.count(&format!(
        "plumbing:topology:{}",
        match v.t {
            Topo::View => "view",
            Topo::RefView => "&view",
            Topo::RefRefView => "&&view",
            Topo::Grid(..) => "grid",
            Topo::RefGrid(..) => "&grid",
            Topo::Tools(..) => "tools-entry-point",
        }
    ));
    ctx.count(&format!(
        "context:{}",
        match v.c {
            CallCtx::Global => "global-pool",
            CallCtx::Pool(_) => "pool.install",
            CallCtx::Join(_) => "inside-rayon-join",
            CallCtx::Spawn(_) => "inside-rayon-scope-spawn",
        }
    ));
    let nt = c.ids.len() >= 2 && matches!(&ran, Ran::Ok { moves, .. } if moves.iter().sum::<usize>() > 0);
    let idx = ctx.record(format!("fmv {} {} => {}", v.token(), format_op(&c), out), out, nt);
    if let Some((sig, what)) = verdict {
        ctx.fail(idx, &sig, format!("[{}] {}", v.token(), what));
    }
}

fn run_variant_replay(ctx: &mut Ctx, op: &str) {
    let mut it = op.splitn(3, ' ');
    let (_, tok, rest) = (it.next(), it.next().unwrap_or(""), it.next().unwrap_or(""));
    match (Variant::parse(tok), parse_op(rest)) {
        (Some(v), Some(c)) => run_variant(ctx, &c, &v),
        _ => {
            ctx.record(op.to_string(), "bad-op".into(), false);
        }
    }
}

/// Small valid case whose weights fit the variant's weight type and whose cap is exactly representable in it.
fn fit_case(ctx: &mut Ctx, c: &mut Case, w: WTy) {
    let n = c.ids.len();
    let dyadic = [None, Some(0.25), Some(0.5), Some(1.0), Some(3.0), Some(0.125)];
    match w {
        WTy::U8 => {
            for x in c.ws.iter_mut() {
                *x = 1 + *x % 15;
            }
            c.mi = *ctx.rng.pick(&[None, Some(0.25), Some(0.125), Some(0.0)]);
        }
        WTy::I16 => {
            for x in c.ws.iter_mut() {
                *x = 1 + *x % 1000;
            }
        }
        WTy::F32 => {
            // integers whose sums stay below 2^24, cap with few fractional bits: exact in f32
            for x in c.ws.iter_mut() {
                *x = 1 + *x % 4000;
            }
            c.mi = *ctx.rng.pick(&dyadic);
        }
        WTy::I32 | WTy::U32 => {
            for x in c.ws.iter_mut() {
                *x = 1 + *x % 10_000_000;
            }
        }
        _ => {}
    }
    if matches!(w, WTy::U8 | WTy::U32 | WTy::U64 | WTy::Usize) {
        // the cap must be convertible to an unsigned type
        if let Some(mi) = c.mi {
            if mi < -1.0 {
                c.mi = Some(0.0);
            }
        }
    }
    let _ = n;
}

fn gen_special(ctx: &mut Ctx) {
    let wtys = [WTy::I64, WTy::F64, WTy::I32, WTy::U32, WTy::U64, WTy::Usize, WTy::F32, WTy::I128, WTy::U8, WTy::I16];
    let views = [Topo::View, Topo::RefView, Topo::RefRefView];
    // (a) every admitted weight type x view / &view / &&view
    for k in 0..ctx.budget(80, 800) {
        let mut c = gen_case(ctx, 12, k % 5 != 4);
        let w = wtys[k % wtys.len()];
        fit_case(ctx, &mut c, w);
        let t = *ctx.rng.pick(&views);
        ctx.count("special-stream:plumbing");
        run_variant(ctx, &c, &Variant { w, t, c: CallCtx::Global, nz: 0, sc: None });
    }
    // (b) Grid<2> as the topology (unit edge weights), against the same graph as a matrix view
    for k in 0..ctx.budget(24, 240) {
        let (a, b) = (1 + ctx.rng.usize(5), 1 + ctx.rng.usize(5));
        let mut c = gen_case(ctx, 4, k % 4 != 3);
        let n = a * b;
        c.rows = grid_rows(a, b);
        let (ws, _) = gen_weights(ctx, n, k % 4 != 3);
        c.ws = ws;
        c.ids = gen_ids(ctx, n).0;
        let w = *ctx.rng.pick(&[WTy::I64, WTy::F64, WTy::U32]);
        fit_case(ctx, &mut c, w);
        ctx.count("special-stream:grid-topology");
        for t in [Topo::Grid(a, b), Topo::RefGrid(a, b), Topo::View] {
            run_variant(ctx, &c, &Variant { w, t, c: CallCtx::Global, nz: 0, sc: None });
        }
    }
    // (c) the tools entry point `parse_algorithm("fm,…")` on a quad mesh
    for _ in 0..ctx.budget(12, 120) {
        let (a, b) = (1 + ctx.rng.usize(5), 1 + ctx.rng.usize(5));
        let mut c = gen_case(ctx, 4, true);
        let n = a * b;
        c.rows = tools_rows(a, b);
        c.ws = gen_weights(ctx, n, true).0;
        c.ids = gen_ids(ctx, n).0;
        c.mi = Some(*ctx.rng.pick(&[0.0, 0.05, 0.1, 0.25, 0.5, 1.0, 3.0]));
        c.mb = ctx.rng.usize(4);
        // the tool maps 0 to "no limit"
        c.mp = if ctx.rng.chance(1, 2) { None } else { Some(1 + ctx.rng.usize(3)) };
        c.mm = if ctx.rng.chance(1, 2) { None } else { Some(1 + ctx.rng.usize(n)) };
        let w = *ctx.rng.pick(&[WTy::I64, WTy::F64]);
        ctx.count("special-stream:tools-entry-point");
        run_variant(ctx, &c, &Variant { w, t: Topo::Tools(a, b), c: CallCtx::Global, nz: 0, sc: None });
    }
    // (d) -0.0 vertex weights (f64, f32): an odd and an even number of them, also all weights zero
    for k in 0..ctx.budget(48, 480) {
        let mut c = gen_case(ctx, 10, true);
        let n = c.ids.len();
        let zeros = if k % 8 == 7 { n } else { 1 + ctx.rng.usize(4.min(n)) };
        let mut idx: Vec<usize> = (0..n).collect();
        ctx.rng.shuffle(&mut idx);
        let mut nz = 0u64;
        let mut neg = 0;
        for (j, &i) in idx.iter().take(zeros).enumerate() {
            c.ws[i] = 0;
            // every zero, or all but one: both parities occur
            if j > 0 || k % 2 == 0 {
                nz |= 1 << (i % 64);
                neg += 1;
            }
        }
        let w = if k % 6 == 5 { WTy::F32 } else { WTy::F64 };
        fit_case(ctx, &mut c, w);
        for &i in idx.iter().take(zeros) {
            c.ws[i] = 0;
        }
        ctx.count(if neg % 2 == 1 { "special:negzero-odd-count" } else { "special:negzero-even-count" });
        if zeros == n {
            ctx.count("special:negzero-all-weights-zero");
        }
        run_variant(ctx, &c, &Variant { w, t: Topo::View, c: CallCtx::Global, nz, sc: None });
    }
    // (e) explicit zero edge weights (stored entries)
    for _ in 0..ctx.budget(24, 240) {
        let mut c = gen_case(ctx, 10, true);
        let n = c.ids.len();
        for v in 0..n {
            for k in 0..c.rows[v].len() {
                let u = c.rows[v][k].0;
                if u < v && ctx.rng.chance(1, 3) {
                    c.rows[v][k].1 = 0;
                    if let Some(e) = c.rows[u].iter_mut().find(|e| e.0 == v) {
                        e.1 = 0;
                    }
                }
            }
        }
        ctx.count("special:zero-edge-weight");
        let f = c.f64w;
        run_variant(ctx, &c, &Variant::plain(f));
    }
    // (f) f64 weights k * 2^e: subnormal, straddling the smallest normal, near overflow; the result must be the
    //     one of the integer weights k (exact scale invariance; max_imbalance None or dyadic so that the cap is exact)
    for k in 0..ctx.budget(60, 600) {
        let mut c = gen_case(ctx, 8, k % 3 != 2);
        let n = c.ids.len();
        c.mi = *ctx.rng.pick(&[None, None, Some(0.25), Some(0.5), Some(1.0), Some(3.0), Some(0.125)]);
        let (e, class) = match k % 6 {
            0 => (-1070, "special:f64-subnormal"),
            1 => (-1060, "special:f64-subnormal"),
            2 => (-1030, "special:f64-straddling-smallest-normal"),
            3 => (1018, "special:f64-total-near-overflow"),
            4 => (1017, "special:f64-total-near-overflow"),
            _ => (-1022, "special:f64-smallest-normal-multiples"),
        };
        let mut budget = if e >= 1017 { if e == 1018 { 63i64 } else { 127 } } else { i64::MAX };
        for x in c.ws.iter_mut() {
            let hi = match e {
                -1030 => 1000,
                1018 | 1017 => (budget / n as i64).max(1).min(24),
                _ => 50,
            };
            *x = if k % 3 == 2 { 1 + *x % 3.min(hi) } else { 1 + *x % hi };
            if e >= 1017 {
                *x = (*x).min(budget.max(0));
                budget -= *x;
            }
        }
        ctx.count(class);
        run_variant(ctx, &c, &Variant { w: WTy::F64, t: Topo::View, c: CallCtx::Global, nz: 0, sc: Some(e) });
    }
    {
        // 64 weights of 2^-1030 (about 8.7e-311) on a path, and three weights of 2^1022 (total 1.35e308)
        let edges: Edges = (1..64).map(|u| (u, u - 1, 1)).collect();
        for mi in [None, Some(0.25)] {
            let c = Case { f64w: true, mi, mb: 2, mp: None, mm: None, rows: rows_of(64, &edges), ids: (0..64).map(|i| (i / 3) % 2).collect(), ws: vec![1; 64] };
            ctx.count("special:f64-subnormal");
            run_variant(ctx, &c, &Variant { w: WTy::F64, t: Topo::View, c: CallCtx::Global, nz: 0, sc: Some(-1030) });
            let c = Case { f64w: true, mi, mb: 2, mp: None, mm: None, rows: rows_of(3, &vec![(1, 0, 2), (2, 1, 1)]), ids: vec![0, 1, 0], ws: vec![1, 1, 1] };
            ctx.count("special:f64-total-near-overflow");
            run_variant(ctx, &c, &Variant { w: WTy::F64, t: Topo::View, c: CallCtx::Global, nz: 0, sc: Some(1022) });
        }
    }
    // (g) calling contexts: pool.install, from inside a rayon task (join / scope.spawn)
    for k in 0..ctx.budget(36, 360) {
        let mut c = gen_case(ctx, 12, k % 6 != 5);
        let t = *ctx.rng.pick(&[1usize, 2, 3, 4, 16]);
        let cc = match k % 3 {
            0 => CallCtx::Pool(t),
            1 => CallCtx::Join(t),
            _ => CallCtx::Spawn(t),
        };
        let w = *ctx.rng.pick(&[WTy::I64, WTy::F64, WTy::U64]);
        fit_case(ctx, &mut c, w);
        ctx.count("special-stream:context");
        let t = *ctx.rng.pick(&views);
        run_variant(ctx, &c, &Variant { w, t, c: cc, nz: 0, sc: None });
    }
    // (h) many calls at once on one pool
    for k in 0..ctx.budget(4, 24) {
        let pool = if k % 2 == 0 { 4 } else { 16 };
        let calls = [8usize, 16, 32, 24][k % 4];
        let nested = (k / 2) % 2;
        let seed = ctx.rng.next() % 1_000_000;
        run_op(ctx, &format!("fmconc {} {} {} {}", pool, calls, nested, seed));
    }
    // (i) first-call sequences in a fresh process (static / thread-local state initialised by the first call)
    for kind in 0..4 {
        let seed = ctx.rng.next() % 1_000_000;
        run_op(ctx, &format!("fmproc {} {}", kind, seed));
    }
    ctx.notes.push(
        "special stream: every case is a valid small FM input run through another admitted input type (10 weight types, \
         view/&view/&&view/Grid/&Grid, the tools entry point), special values (-0.0 weights, stored zero edge weights, f64 \
         weights k*2^e subnormal / around 2^-1022 / total near f64::MAX) or calling context (pool.install, inside join / \
         scope.spawn, 8-32 concurrent calls on pools of 4 and 16, first-call sequences in a child process); judged by the \
         full oracle, by exact equality with the tie-free reference run of the plain integer case, and by the Lean model \
         through the driver (the model predicts the plain case)."
            .into(),
    );
}

fn conc_inputs(ctx: &mut Ctx, calls: usize, seed: u64) -> Vec<(Case, Variant)> {
    let saved = std::mem::replace(&mut ctx.rng, Rng::new(seed ^ 0xC07C_07C0));
    let mut v = vec![];
    for k in 0..calls {
        let mut c = gen_case(ctx, 14, k % 6 != 5);
        let w = [WTy::I64, WTy::F64, WTy::I32, WTy::U64][k % 4];
        fit_case(ctx, &mut c, w);
        c.f64w = w == WTy::F64;
        let t = [Topo::View, Topo::RefView][k / 4 % 2];
        v.push((c, Variant { w, t, c: CallCtx::Global, nz: 0, sc: None }));
    }
    ctx.rng = saved;
    v
}

fn run_concurrent(ctx: &mut Ctx, op: &str) {
    let t: Vec<&str> = op.split("=>").next().unwrap_or("").split_whitespace().collect();
    let parsed = (|| {
        if t.len() != 5 {
            return None;
        }
        let pool: usize = t[1].parse().ok().filter(|p| (1..=64).contains(p))?;
        let calls: usize = t[2].parse().ok().filter(|c| (1..=256).contains(c))?;
        let nested: usize = t[3].parse().ok()?;
        let seed: u64 = t[4].parse().ok()?;
        Some((pool, calls, nested, seed))
    })();
    let Some((pool, calls, nested, seed)) = parsed else {
        ctx.record(op.to_string(), "bad-op".into(), false);
        return;
    };
    use coupe::rayon::iter::{IntoParallelRefIterator, ParallelIterator};
    let inputs = conc_inputs(ctx, calls, seed);
    let shared = inputs.clone();
    let res = catch_timeout(120, move || {
        with_pool(pool, move || {
            let go = || shared.par_iter().map(|(c, v)| call_variant(c, v)).collect::<Vec<_>>();
            if nested == 1 {
                // the batch itself is started from inside a task of the pool
                let mut out = None;
                coupe::rayon::scope(|s| s.spawn(|_| out = Some(go())));
                out.expect("spawned task ran")
            } else {
                go()
            }
        })
    });
    ctx.count(&format!("context:concurrent-calls-pool{}", pool));
    ctx.count("context:concurrent-batches");
    let base = format!("fmconc {} {} {} {}", pool, calls, nested, seed);
    let (out, verdict) = match res {
        Caught::Ok(results) => {
            let mut verdict = None;
            for ((c, v), r) in inputs.iter().zip(results) {
                let ran = to_ran(r);
                let line = canon(c, &ran);
                ctx.count("context:concurrent-calls");
                // each call is also its own line for the model driver
                ctx.record(format!("fmv {} {} => {}", v.token(), format_op(c), line), line, false);
                if verdict.is_none() {
                    verdict = judge(c, &ran, "context-dependent@fm")
                        .map(|(s, w)| (s, format!("one of {} concurrent calls on a pool of {}: {} (fmv {} {})", calls, pool, w, v.token(), format_op(c))));
                }
            }
            (format!("ok {} calls", calls), verdict)
        }
        Caught::Panic(m) => {
            let m = m.split_whitespace().collect::<Vec<_>>().join(" ");
            (format!("panic {}", m), Some(("panic".to_string(), format!("{} concurrent calls on a pool of {}: {}", calls, pool, m))))
        }
        Caught::Hang => ("hang".into(), Some(("hang".to_string(), format!("{} concurrent calls on a pool of {}", calls, pool)))),
    };
    let idx = ctx.record(format!("{} => {}", base, out), out, true);
    if let Some((sig, what)) = verdict {
        ctx.fail(idx, &sig, what);
    }
}

fn run_process_sequence(ctx: &mut Ctx, op: &str) {
    let t: Vec<&str> = op.split("=>").next().unwrap_or("").split_whitespace().collect();
    let parsed = (|| {
        if t.len() != 3 {
            return None;
        }
        Some((t[1].parse::<usize>().ok().filter(|k| *k < 4)?, t[2].parse::<u64>().ok()?))
    })();
    let Some((kind, seed)) = parsed else {
        ctx.record(op.to_string(), "bad-op".into(), false);
        return;
    };
    // the first call of the child process uses the instantiation named by `kind`; the usual ones follow
    let saved = std::mem::replace(&mut ctx.rng, Rng::new(seed ^ 0x5EC0_07));
    let mut lines = vec![];
    let first = match kind {
        0 => Variant { w: WTy::U32, t: Topo::Grid(3, 4), c: CallCtx::Global, nz: 0, sc: None },
        1 => Variant { w: WTy::F32, t: Topo::RefView, c: CallCtx::Spawn(3), nz: 0, sc: None },
        2 => Variant { w: WTy::U64, t: Topo::RefRefView, c: CallCtx::Pool(2), nz: 0, sc: None },
        _ => Variant { w: WTy::F64, t: Topo::Tools(3, 3), c: CallCtx::Global, nz: 0, sc: None },
    };
    for k in 0..6 {
        let mut c = gen_case(ctx, 12, true);
        let v = if k == 0 { first } else { Variant::plain(k % 2 == 0) };
        match v.t {
            Topo::Grid(a, b) => {
                c.rows = grid_rows(a, b);
                c.ws = gen_weights(ctx, a * b, true).0;
                c.ids = gen_ids(ctx, a * b).0;
            }
            Topo::Tools(a, b) => {
                c.rows = tools_rows(a, b);
                c.ws = gen_weights(ctx, a * b, true).0;
                c.ids = gen_ids(ctx, a * b).0;
                c.mi = Some(0.25);
                c.mp = None;
                c.mm = None;
            }
            _ => {}
        }
        fit_case(ctx, &mut c, v.w);
        c.f64w = v.is_float();
        lines.push(format!("C07 fmv {} {}", v.token(), format_op(&c)));
    }
    ctx.rng = saved;
    ctx.count("context:first-call-sequence-in-child-process");
    let dir = std::env::temp_dir().join(format!("c07-child-{}-{}-{}", std::process::id(), kind, seed));
    let _ = std::fs::create_dir_all(&dir);
    let ops = dir.join("ops.txt");
    let (out, verdict): (String, Option<(String, String)>) = (|| {
        if std::fs::write(&ops, lines.join("\n") + "\n").is_err() {
            return ("skipped cannot-write".to_string(), None);
        }
        let exe = match std::env::current_exe() {
            Ok(e) => e,
            Err(_) => return ("skipped no-exe".to_string(), None),
        };
        let st = std::process::Command::new(exe)
            .args(["replay", "C07", "--ops"])
            .arg(&ops)
            .arg("--out")
            .arg(&dir)
            .stdout(std::process::Stdio::null())
            .stderr(std::process::Stdio::null())
            .status();
        match st {
            Ok(s) if s.success() => {
                let fails = std::fs::read_to_string(dir.join("oracle.jsonl")).unwrap_or_default();
                let n = std::fs::read_to_string(dir.join("impl.txt")).map(|t| t.lines().count()).unwrap_or(0);
                if let Some(l) = fails.lines().next() {
                    (format!("failed {} cases", n), Some(("process-state-dependent@fm".to_string(), format!("in a fresh process, first call {}: {}", first.token(), l))))
                } else if n < lines.len() {
                    (format!("failed {} cases", n), Some(("process-state-dependent@fm".to_string(), format!("child recorded {} of {} cases", n, lines.len()))))
                } else {
                    (format!("ok {} cases", n), None)
                }
            }
            Ok(s) => (format!("failed child status {:?}", s.code()), Some(("process-state-dependent@fm".to_string(), format!("child process exited with {:?}", s.code())))),
            Err(_) => ("skipped cannot-spawn".to_string(), None),
        }
    })();
    let _ = std::fs::remove_dir_all(&dir);
    let idx = ctx.record(format!("fmproc {} {} => {}", kind, seed, out), out, true);
    if let Some((sig, what)) = verdict {
        ctx.fail(idx, &sig, what);
    }
}

// ------------------------------------------------------------------ generator

type Edges = Vec<(usize, usize, i64)>;

fn rows_of(n: usize, edges: &Edges) -> Vec<Vec<(usize, i64)>> {
    let mut rows: Vec<Vec<(usize, i64)>> = vec![vec![]; n];
    for &(u, v, w) in edges {
        if u != v && !rows[u].iter().any(|(x, _)| *x == v) {
            rows[u].push((v, w));
            rows[v].push((u, w));
        }
    }
    for r in rows.iter_mut() {
        r.sort();
    }
    rows
}

fn gen_graph(ctx: &mut Ctx, max_n: usize) -> (usize, Edges, &'static str) {
    let wmode = ctx.rng.usize(4);
    let ew = |rng: &mut Rng| match wmode {
        0 => 1,
        1 => rng.range(1, 3),
        2 => rng.range(1, 1000),
        _ => rng.range(0, 2),
    };
    let shape = ctx.rng.usize(8);
    let mut edges: Edges = vec![];
    match shape {
        0 | 1 => {
            let n = 1 + ctx.rng.usize(max_n);
            let den = *ctx.rng.pick(&[15u64, 30, 60]);
            for u in 0..n {
                for v in 0..u {
                    if ctx.rng.chance(den, 100) {
                        edges.push((u, v, ew(&mut ctx.rng)));
                    }
                }
            }
            (n, edges, "random")
        }
        2 | 3 => {
            let a = 1 + ctx.rng.usize(5);
            let b = 1 + ctx.rng.usize((max_n / a).max(1).min(6));
            for i in 0..a {
                for j in 0..b {
                    if i + 1 < a {
                        edges.push((i * b + j, (i + 1) * b + j, ew(&mut ctx.rng)));
                    }
                    if j + 1 < b {
                        edges.push((i * b + j, i * b + j + 1, ew(&mut ctx.rng)));
                    }
                }
            }
            (a * b, edges, "grid")
        }
        4 => {
            // two blocks without any edge between them
            let n1 = 1 + ctx.rng.usize(max_n / 2);
            let n2 = 1 + ctx.rng.usize(max_n / 2);
            for u in 0..n1 + n2 {
                for v in 0..u {
                    if (u < n1) == (v < n1) && ctx.rng.chance(50, 100) {
                        edges.push((u, v, ew(&mut ctx.rng)));
                    }
                }
            }
            (n1 + n2, edges, "disconnected")
        }
        5 => {
            // a random graph on some of the vertices, the others are isolated
            let n = 2 + ctx.rng.usize(max_n - 1);
            let live: Vec<bool> = (0..n).map(|_| ctx.rng.chance(60, 100)).collect();
            for u in 0..n {
                for v in 0..u {
                    if live[u] && live[v] && ctx.rng.chance(40, 100) {
                        edges.push((u, v, ew(&mut ctx.rng)));
                    }
                }
            }
            (n, edges, "isolated")
        }
        6 => {
            let n = 2 + ctx.rng.usize(max_n - 1);
            let kind = ctx.rng.usize(3);
            for u in 1..n {
                match kind {
                    0 => edges.push((u, u - 1, ew(&mut ctx.rng))),
                    1 => edges.push((u, 0, ew(&mut ctx.rng))),
                    _ => {
                        edges.push((u, u - 1, ew(&mut ctx.rng)));
                        if u == n - 1 && n > 2 {
                            edges.push((u, 0, ew(&mut ctx.rng)));
                        }
                    }
                }
            }
            (n, edges, "path-star-cycle")
        }
        _ => {
            let n = 1 + ctx.rng.usize(max_n.min(8));
            for u in 0..n {
                for v in 0..u {
                    edges.push((u, v, ew(&mut ctx.rng)));
                }
            }
            (n, edges, "complete")
        }
    }
}

fn gen_weights(ctx: &mut Ctx, n: usize, tie_free: bool) -> (Vec<i64>, &'static str) {
    if tie_free {
        return ((0..n).map(|_| ctx.rng.range(1, 1_000_000_000)).collect(), "vw-wide");
    }
    match ctx.rng.usize(4) {
        0 => (vec![1; n], "vw-unit"),
        1 => ((0..n).map(|_| ctx.rng.range(1, 3)).collect(), "vw-small"),
        2 => ((0..n).map(|_| ctx.rng.range(0, 2)).collect(), "vw-zeros"),
        _ => {
            let mut w: Vec<i64> = (0..n).map(|_| ctx.rng.range(1, 5)).collect();
            let k = ctx.rng.usize(n);
            w[k] = ctx.rng.range(50, 500);
            (w, "vw-dominant")
        }
    }
}

fn gen_ids(ctx: &mut Ctx, n: usize) -> (Vec<usize>, &'static str) {
    match ctx.rng.usize(8) {
        0 => (vec![0; n], "ids-all0"),
        1 => (vec![1; n], "ids-all1"),
        2 => ((0..n).map(|i| (i >= n / 2) as usize).collect(), "ids-halves"),
        3 => ((0..n).map(|i| i % 2).collect(), "ids-alternating"),
        _ => ((0..n).map(|_| ctx.rng.usize(2)).collect(), "ids-random"),
    }
}

fn gen_params(ctx: &mut Ctx, n: usize) -> (Option<f64>, usize, Option<usize>, Option<usize>) {
    let mi = match ctx.rng.usize(12) {
        0 | 1 | 2 => None,
        3 => Some(0.0),
        4 => Some(0.05),
        5 => Some(0.1),
        6 => Some(0.25),
        7 => Some(0.5),
        8 => Some(1.0),
        9 => Some(3.0),
        10 => Some(-0.5),
        _ => Some(ctx.rng.below(64) as f64 / 64.0),
    };
    let mb = match ctx.rng.usize(6) {
        0 => 0,
        1 => 1,
        2 => 2,
        3 => n,
        4 => usize::MAX,
        _ => ctx.rng.usize(5),
    };
    let mp = match ctx.rng.usize(6) {
        0 | 1 => None,
        2 => Some(0),
        3 => Some(1),
        4 => Some(2),
        _ => Some(1 + ctx.rng.usize(10)),
    };
    let mm = match ctx.rng.usize(7) {
        0 | 1 | 2 => None,
        3 => Some(0),
        4 => Some(1),
        5 => Some(n),
        _ => Some(ctx.rng.usize(n + 2)),
    };
    (mi, mb, mp, mm)
}

fn gen_case(ctx: &mut Ctx, max_n: usize, tie_free: bool) -> Case {
    let (n, edges, shape) = gen_graph(ctx, max_n);
    let (ws, wm) = gen_weights(ctx, n, tie_free);
    let (ids, im) = gen_ids(ctx, n);
    let (mi, mb, mp, mm) = gen_params(ctx, n);
    ctx.count(&format!("shape:{}", shape));
    ctx.count(wm);
    ctx.count(im);
    ctx.count(if mi.is_some() { "max_imbalance:some" } else { "max_imbalance:none" });
    ctx.count(if mp.is_some() { "max_passes:some" } else { "max_passes:none" });
    ctx.count(if mm.is_some() { "max_moves:some" } else { "max_moves:none" });
    let f64w = ctx.rng.chance(1, 3);
    ctx.count(if f64w { "weights:f64" } else { "weights:i64" });
    Case { f64w, mi, mb, mp, mm, rows: rows_of(n, &edges), ids, ws }
}

pub fn generate(ctx: &mut Ctx) {
    // (1) exhaustive: every symmetric graph on 3 vertices with edge weights in {absent,1,2},
    //     every two-way partition, two weight vectors, four parameter settings
    let settings: [(Option<f64>, usize, Option<usize>, Option<usize>); 4] = [
        (None, 0, None, None),
        (None, 2, None, None),
        (Some(0.5), 1, None, None),
        (Some(1.0), 1, Some(1), Some(1)),
    ];
    for code in 0..27usize {
        let (a, b, cc) = (code % 3, code / 3 % 3, code / 9);
        let mut edges: Edges = vec![];
        for (k, (u, v)) in [(a, (1, 0)), (b, (2, 0)), (cc, (2, 1))].iter().map(|(w, e)| (*w, *e)) {
            if k > 0 {
                edges.push((u, v, k as i64));
            }
        }
        for mask in 0..8usize {
            for ws in [[1i64, 1, 1], [1, 2, 3]] {
                for (mi, mb, mp, mm) in settings {
                    let c = Case {
                        f64w: false,
                        mi,
                        mb,
                        mp,
                        mm,
                        rows: rows_of(3, &edges),
                        ids: (0..3).map(|i| mask >> i & 1).collect(),
                        ws: ws.to_vec(),
                    };
                    ctx.count("stream:exhaustive3");
                    run_op(ctx, &format_op(&c));
                }
            }
        }
    }
    ctx.notes.push(
        "exhaustive sub-space: all symmetric graphs on 3 vertices with edge weights in {absent,1,2} x all 8 two-way \
         partitions x weights {[1,1,1],[1,2,3]} x 4 parameter settings; every case is run several times (fresh HashSet \
         hashers) and every distinct output is recorded as its own case"
            .into(),
    );
    // (1b) thorough only: every symmetric graph on 4 vertices with edge weights in {absent,1,2},
    //      every two-way partition, two weight vectors, two parameter settings
    if !ctx.quick() {
        let pairs = [(1usize, 0usize), (2, 0), (2, 1), (3, 0), (3, 1), (3, 2)];
        for code in 0..729usize {
            let mut edges: Edges = vec![];
            let mut k = code;
            for (u, v) in pairs {
                if k % 3 > 0 {
                    edges.push((u, v, (k % 3) as i64));
                }
                k /= 3;
            }
            let rows = rows_of(4, &edges);
            for mask in 0..16usize {
                for ws in [[1i64, 1, 1, 1], [1, 2, 3, 4]] {
                    for (mi, mb) in [(None, 2usize), (Some(0.5), 1)] {
                        let c = Case {
                            f64w: false,
                            mi,
                            mb,
                            mp: None,
                            mm: None,
                            rows: rows.clone(),
                            ids: (0..4).map(|i| mask >> i & 1).collect(),
                            ws: ws.to_vec(),
                        };
                        ctx.count("stream:exhaustive4");
                        run_op(ctx, &format_op(&c));
                    }
                }
            }
        }
        ctx.notes.push(
            "thorough: also all symmetric graphs on 4 vertices with edge weights in {absent,1,2} x all 16 two-way \
             partitions x weights {[1,1,1,1],[1,2,3,4]} x 2 parameter settings"
                .into(),
        );
    }
    // (2) tie-free stream (wide vertex weights): exact comparison with the model
    for _ in 0..ctx.budget(700, 14000) {
        let max_n = if ctx.quick() { 16 } else { 28 };
        let c = gen_case(ctx, max_n, true);
        ctx.count("stream:tie-free");
        run_op(ctx, &format_op(&c));
    }
    // (3) tie-heavy stream (unit / small weights): membership by bounded search; kept small
    for _ in 0..ctx.budget(300, 5000) {
        let max_n = 3 + ctx.rng.usize(8);
        let c = gen_case(ctx, max_n, false);
        ctx.count("stream:tie-heavy");
        run_op(ctx, &format_op(&c));
    }
    // (4) malformed stream: outside the quantifier; outcomes are compared with the model and counted,
    //     the oracle is not applied
    for _ in 0..ctx.budget(120, 1500) {
        let mut c = gen_case(ctx, 10, true);
        let n = c.ids.len();
        let kind = ctx.rng.usize(7);
        match kind {
            0 => {
                let k = ctx.rng.usize(n);
                c.ids[k] = 2 + ctx.rng.usize(3);
            }
            1 => {
                if ctx.rng.chance(1, 2) {
                    c.ws.pop();
                } else {
                    c.ws.push(1);
                }
            }
            2 => {
                if ctx.rng.chance(1, 2) {
                    c.ids.pop();
                    c.ws.pop();
                } else {
                    c.ids.push(0);
                    c.ws.push(1);
                }
            }
            3 => {
                // asymmetric: change or drop one direction of one edge
                let cand: Vec<usize> = (0..n).filter(|&v| !c.rows[v].is_empty()).collect();
                if !cand.is_empty() {
                    let v = *ctx.rng.pick(&cand);
                    let k = ctx.rng.usize(c.rows[v].len());
                    if ctx.rng.chance(1, 2) {
                        c.rows[v][k].1 += ctx.rng.range(1, 5);
                    } else {
                        c.rows[v].remove(k);
                    }
                }
            }
            4 => {
                // negative edge weights (kept symmetric)
                for v in 0..n {
                    for k in 0..c.rows[v].len() {
                        let u = c.rows[v][k].0;
                        if u < v && ctx.rng.chance(1, 2) {
                            let w = -ctx.rng.range(1, 9);
                            c.rows[v][k].1 = w;
                            if let Some(e) = c.rows[u].iter_mut().find(|e| e.0 == v) {
                                e.1 = w;
                            }
                        }
                    }
                }
            }
            5 => {
                let v = ctx.rng.usize(n);
                c.rows[v].push((v, ctx.rng.range(1, 5)));
                c.rows[v].sort();
            }
            _ => {
                c.mi = Some(*ctx.rng.pick(&[f64::NAN, f64::INFINITY, 1e300, -1e300, f64::NEG_INFINITY]));
            }
        }
        ctx.count("stream:malformed");
        run_op(ctx, &format_op(&c));
    }
    // (6) corners (tiny sizes, limits, weights near the type's range, object reuse) and (7) large sizes
    gen_corners(ctx);
    gen_special(ctx);
    gen_large(ctx);
    // (5) the empty input
    let c = Case { f64w: false, mi: None, mb: 0, mp: None, mm: None, rows: vec![], ids: vec![], ws: vec![] };
    run_op(ctx, &format_op(&c));
}
