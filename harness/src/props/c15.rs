//! C15 — KernighanLin never increases the cut and preserves part sizes.
//!
//! op:  `kl <max_passes|-> <max_flips|-> <max_bad> <wlen> <n> <ids…> <rows> {<deg> {<j> <w>}…}…`
//!      (CSR rows with strictly increasing column indices, integer-valued `f64` edge
//!      weights, `wlen` = length of the vertex-weight slice, `-` = `None`)
//! out: `ok <cut before> <cut after> | <ids>` (cuts as `Topology::edge_cut` of the view
//!      reports them) | `panic file:line: message`

use crate::common::*;
use coupe::sprs::CsMat;
use coupe::Partition as _;
use coupe::Topology as _;

type Rows = Vec<Vec<(usize, i64)>>;

#[derive(Clone, Debug)]
struct Case {
    mp: Option<usize>,
    mf: Option<usize>,
    mb: usize,
    wlen: usize,
    ids: Vec<usize>,
    rows: Rows,
}

fn opt(x: Option<usize>) -> String {
    match x {
        Some(v) => v.to_string(),
        None => "-".into(),
    }
}

fn format_op(c: &Case) -> String {
    let mut s = format!(
        "kl {} {} {} {} {}",
        opt(c.mp),
        opt(c.mf),
        c.mb,
        c.wlen,
        c.ids.len()
    );
    for i in &c.ids {
        s.push_str(&format!(" {}", i));
    }
    s.push_str(&format!(" {}", c.rows.len()));
    for r in &c.rows {
        s.push_str(&format!(" {}", r.len()));
        for (j, w) in r {
            s.push_str(&format!(" {} {}", j, w));
        }
    }
    s
}

fn parse_opt(t: &str) -> Option<Option<usize>> {
    if t == "-" {
        Some(None)
    } else {
        t.parse().ok().map(Some)
    }
}

fn parse_op(op: &str) -> Option<Case> {
    let mut it = op.split_whitespace();
    if it.next()? != "kl" {
        return None;
    }
    let mp = parse_opt(it.next()?)?;
    let mf = parse_opt(it.next()?)?;
    let mb: usize = it.next()?.parse().ok()?;
    let wlen: usize = it.next()?.parse().ok()?;
    let n: usize = it.next()?.parse().ok()?;
    let mut ids = Vec::with_capacity(n);
    for _ in 0..n {
        ids.push(it.next()?.parse().ok()?);
    }
    let r: usize = it.next()?.parse().ok()?;
    let mut rows = Vec::with_capacity(r);
    for _ in 0..r {
        let d: usize = it.next()?.parse().ok()?;
        let mut row: Vec<(usize, i64)> = Vec::with_capacity(d);
        for _ in 0..d {
            let j: usize = it.next()?.parse().ok()?;
            let w: i64 = it.next()?.parse().ok()?;
            if let Some(&(pj, _)) = row.last() {
                if pj >= j {
                    return None; // not a valid CsMat row
                }
            }
            row.push((j, w));
        }
        rows.push(row);
    }
    if it.next().is_some() || wlen > 1 << 20 {
        return None;
    }
    Some(Case { mp, mf, mb, wlen, ids, rows })
}

// ------------------------------------------------------------------ graphs

/// symmetric rows from an undirected edge list (later duplicates are dropped)
fn from_edges(n: usize, edges: &[(usize, usize, i64)]) -> Rows {
    let mut rows: Rows = vec![vec![]; n];
    for &(a, b, w) in edges {
        if a == b || rows[a].iter().any(|&(j, _)| j == b) {
            continue;
        }
        rows[a].push((b, w));
        rows[b].push((a, w));
    }
    for r in rows.iter_mut() {
        r.sort();
    }
    rows
}

fn weight(rng: &mut Rng, mode: usize) -> i64 {
    match mode {
        0 => 1,
        1 => rng.range(1, 9),
        2 => rng.range(1, 1000),
        _ => *rng.pick(&[1, 1, 1, 2, 5, 100]),
    }
}

fn grid_edges(r: usize, c: usize, rng: &mut Rng, wmode: usize) -> Vec<(usize, usize, i64)> {
    let mut e = vec![];
    for i in 0..r {
        for j in 0..c {
            if j + 1 < c {
                e.push((i * c + j, i * c + j + 1, weight(rng, wmode)));
            }
            if i + 1 < r {
                e.push((i * c + j, (i + 1) * c + j, weight(rng, wmode)));
            }
        }
    }
    e
}

/// (shape name, symmetric graph)
fn random_graph(rng: &mut Rng, maxn: usize) -> (&'static str, Rows) {
    let wmode = rng.usize(4);
    match rng.usize(8) {
        0 => {
            // grid
            let r = 1 + rng.usize(4);
            let c = (2 + rng.usize(4)).min(maxn / r).max(2);
            ("grid", from_edges(r * c, &grid_edges(r, c, rng, wmode)))
        }
        1 => {
            // two components without a connecting edge
            let n = 4 + rng.usize(maxn - 3);
            let h = 2 + rng.usize(n - 3);
            let mut e = vec![];
            for a in 0..n {
                for b in a + 1..n {
                    if (a < h) == (b < h) && rng.chance(1, 2) {
                        e.push((a, b, weight(rng, wmode)));
                    }
                }
            }
            ("disconnected", from_edges(n, &e))
        }
        2 => {
            // sparse with isolated vertices
            let n = 3 + rng.usize(maxn - 2);
            let live = 2 + rng.usize(n - 2);
            let mut e = vec![];
            for a in 0..live {
                for b in a + 1..live {
                    if rng.chance(1, 2) {
                        e.push((a, b, weight(rng, wmode)));
                    }
                }
            }
            // scatter the live vertices among the isolated ones
            let mut perm: Vec<usize> = (0..n).collect();
            rng.shuffle(&mut perm);
            let e: Vec<_> = e.into_iter().map(|(a, b, w)| (perm[a], perm[b], w)).collect();
            ("isolated", from_edges(n, &e))
        }
        3 => {
            // path / cycle
            let n = 2 + rng.usize(maxn - 1);
            let mut e: Vec<_> = (0..n - 1).map(|i| (i, i + 1, weight(rng, wmode))).collect();
            if n > 2 && rng.chance(1, 2) {
                e.push((n - 1, 0, weight(rng, wmode)));
            }
            ("path_cycle", from_edges(n, &e))
        }
        4 => {
            // complete / star
            let n = 2 + rng.usize(maxn.min(9) - 1);
            let star = rng.chance(1, 2);
            let mut e = vec![];
            for a in 0..n {
                for b in a + 1..n {
                    if !star || a == 0 {
                        e.push((a, b, weight(rng, wmode)));
                    }
                }
            }
            (if star { "star" } else { "complete" }, from_edges(n, &e))
        }
        _ => {
            // G(n, p)
            let n = 2 + rng.usize(maxn - 1);
            let den = 1 + rng.usize(5) as u64;
            let mut e = vec![];
            for a in 0..n {
                for b in a + 1..n {
                    if rng.chance(1, den) {
                        e.push((a, b, weight(rng, wmode)));
                    }
                }
            }
            ("gnp", from_edges(n, &e))
        }
    }
}

/// two-way 0/1 colouring with both colours used (n >= 2)
fn random_colouring(rng: &mut Rng, n: usize) -> (&'static str, Vec<usize>) {
    match rng.usize(5) {
        0 => {
            // balanced, shuffled
            let mut v: Vec<usize> = (0..n).map(|i| usize::from(i >= n / 2)).collect();
            rng.shuffle(&mut v);
            ("balanced", v)
        }
        1 => {
            // one vertex alone
            let mut v = vec![rng.usize(2); n];
            let k = rng.usize(n);
            v[k] = 1 - v[k];
            ("singleton", v)
        }
        2 => {
            // contiguous halves (often locally optimal on paths and grids)
            let cut = 1 + rng.usize(n - 1);
            ("contiguous", (0..n).map(|i| usize::from(i >= cut)).collect())
        }
        3 => {
            // alternating (worst case on paths)
            let o = rng.usize(2);
            ("alternating", (0..n).map(|i| (i + o) % 2).collect())
        }
        _ => {
            let mut v: Vec<usize> = (0..n).map(|_| rng.usize(2)).collect();
            if v.iter().all(|&x| x == v[0]) {
                let k = rng.usize(n);
                v[k] = 1 - v[k];
            }
            ("random", v)
        }
    }
}

fn relabel(rng: &mut Rng, ids: &mut [usize]) -> &'static str {
    let (name, a, b) = match rng.usize(6) {
        0 | 1 => ("labels_01", 0, 1),
        2 => ("labels_37", 3, 7),
        3 => ("labels_73", 7, 3),
        4 => ("labels_big", 5, 1_000_000),
        _ => ("labels_10", 1, 0),
    };
    for x in ids.iter_mut() {
        *x = if *x == 0 { a } else { b };
    }
    name
}

fn random_limits(rng: &mut Rng, n: usize) -> (Option<usize>, Option<usize>, usize) {
    let mp = match rng.usize(6) {
        0 => Some(0),
        1 => Some(1),
        2 => Some(2 + rng.usize(3)),
        _ => None,
    };
    let mf = match rng.usize(6) {
        0 => Some(0),
        1 => Some(1),
        2 => Some(rng.usize(n + 2)),
        _ => None,
    };
    (mp, mf, rng.usize(4))
}

pub fn generate(ctx: &mut Ctx) {
    // ---- exhaustive: every graph on <= N vertices with unit weights x every 2-colouring
    //      with both colours used x a grid of limits
    //      (quick: 5 vertices only without limits, max_bad_move 0 and 1)
    let limits: [(Option<usize>, Option<usize>); 6] = [
        (None, None),
        (Some(1), None),
        (None, Some(1)),
        (Some(0), None),
        (None, Some(0)),
        (Some(2), Some(2)),
    ];
    for n in 2..=5 {
        let reduced = n == 5 && ctx.quick();
        let pairs: Vec<(usize, usize)> =
            (0..n).flat_map(|a| (a + 1..n).map(move |b| (a, b))).collect();
        for mask in 0u32..(1u32 << pairs.len()) {
            let edges: Vec<_> = pairs
                .iter()
                .enumerate()
                .filter(|(k, _)| mask >> k & 1 == 1)
                .map(|(_, &(a, b))| (a, b, 1i64))
                .collect();
            let rows = from_edges(n, &edges);
            for col in 1u32..(1u32 << n) - 1 {
                let ids: Vec<usize> = (0..n).map(|i| (col >> i & 1) as usize).collect();
                for &(mp, mf) in &limits[..if reduced { 1 } else { 6 }] {
                    for mb in 0..if reduced { 2 } else { 3 } {
                        let c = Case { mp, mf, mb, wlen: n, ids: ids.clone(), rows: rows.clone() };
                        ctx.count(&format!("exhaustive_n{}", n));
                        run_op(ctx, &format_op(&c));
                    }
                }
            }
        }
    }
    ctx.notes.push(format!(
        "exhaustive sub-space: all graphs on 2..=5 vertices (unit weights) x all 2-colourings using both colours x 6 (max_passes, max_flips) settings x max_bad_move 0..=2{}",
        if ctx.quick() { " (5 vertices: no limits, max_bad_move 0..=1 only)" } else { "" }
    ));

    // ---- random symmetric graphs
    let maxn = if ctx.quick() { 12 } else { 16 };
    for _ in 0..ctx.budget(15_000, 200_000) {
        let (shape, rows) = random_graph(&mut ctx.rng, maxn);
        let n = rows.len();
        let (cshape, mut ids) = random_colouring(&mut ctx.rng, n);
        let (mp, mf, mb) = random_limits(&mut ctx.rng, n);
        let mut c = Case { mp, mf, mb, wlen: n, ids: vec![], rows };
        let mut cshape = cshape;
        if ctx.rng.chance(1, 6) {
            // locally optimal input: what an unlimited run returns
            let (out, _) = run_impl(&Case { mp: None, mf: None, mb: 1, ids: ids.clone(), ..c.clone() });
            if let Caught::Ok((p, _, _)) = out {
                ids = p;
                cshape = "fixpoint";
            }
        }
        let lshape = relabel(&mut ctx.rng, &mut ids);
        c.ids = ids;
        ctx.count(&format!("graph_{}", shape));
        ctx.count(&format!("colouring_{}", cshape));
        ctx.count(lshape);
        ctx.count(&format!("max_bad_{}", mb));
        ctx.count(&format!("max_passes_{}", mp.map_or("none".into(), |v| v.min(2).to_string())));
        ctx.count(&format!(
            "max_flips_{}",
            mf.map_or("none".into(), |v| if v >= 2 { "2+".into() } else { v.to_string() })
        ));
        run_op(ctx, &format_op(&c));
    }

    // ---- outside the property's quantifier (the theorems kl_sizes / kl_cut_le still cover the
    //      first four, kl_unimplemented the label counts; the rest are the modelled panics)
    for _ in 0..ctx.budget(1500, 15_000) {
        let (_, mut rows) = random_graph(&mut ctx.rng, 8);
        let n = rows.len();
        let (_, mut ids) = random_colouring(&mut ctx.rng, n);
        let (mp, mf, mb) = random_limits(&mut ctx.rng, n);
        let mut wlen = n;
        let kind = ctx.rng.usize(10);
        let name = match kind {
            0 => {
                // asymmetric: drop / change one direction of some edges
                for r in rows.iter_mut() {
                    for e in r.iter_mut() {
                        if ctx.rng.chance(1, 3) {
                            e.1 = ctx.rng.range(1, 9);
                        }
                    }
                    if !r.is_empty() && ctx.rng.chance(1, 3) {
                        let k = ctx.rng.usize(r.len());
                        r.remove(k);
                    }
                }
                "asymmetric"
            }
            1 => {
                // negative and zero weights (symmetric)
                let mut e = vec![];
                for a in 0..n {
                    for &(b, _) in rows[a].iter().filter(|&&(b, _)| a < b) {
                        e.push((a, b, ctx.rng.range(-5, 5)));
                    }
                }
                rows = from_edges(n, &e);
                "negative_weights"
            }
            2 => {
                // diagonal entries
                for (v, r) in rows.iter_mut().enumerate() {
                    if ctx.rng.chance(1, 2) {
                        r.push((v, ctx.rng.range(1, 9)));
                        r.sort();
                    }
                }
                "self_loops"
            }
            3 => {
                wlen = if ctx.rng.chance(1, 2) { ctx.rng.usize(n + 1) } else { n + 1 + ctx.rng.usize(3) };
                "weights_len"
            }
            4 => {
                let l = ctx.rng.usize(2);
                ids = vec![l; n];
                "one_label"
            }
            5 => {
                let k = ctx.rng.usize(n);
                ids[k] = 2;
                if n >= 3 {
                    "three_labels"
                } else {
                    "two_labels_02"
                }
            }
            6 => {
                rows.truncate(ctx.rng.usize(n));
                "rows_missing"
            }
            7 => {
                for _ in 0..1 + ctx.rng.usize(2) {
                    rows.push(vec![]);
                }
                "rows_extra"
            }
            8 => {
                let v = ctx.rng.usize(n);
                rows[v].push((n + ctx.rng.usize(2), 1));
                "neighbour_out_of_range"
            }
            _ => {
                ids.clear();
                rows.clear();
                wlen = 0;
                "empty"
            }
        };
        ctx.count(&format!("malformed_{}", name));
        run_op(ctx, &format_op(&Case { mp, mf, mb, wlen, ids, rows }));
    }
}

// ------------------------------------------------------------------ running

type Job = Box<dyn FnOnce() -> Ran + Send>;

struct Worker {
    jobs: std::sync::mpsc::Sender<Job>,
    results: std::sync::mpsc::Receiver<Caught<Ran>>,
}

static WORKER: std::sync::Mutex<Option<Worker>> = std::sync::Mutex::new(None);

fn spawn_worker() -> Worker {
    let (jtx, jrx) = std::sync::mpsc::channel::<Job>();
    let (rtx, rrx) = std::sync::mpsc::channel();
    std::thread::Builder::new()
        .stack_size(16 << 20)
        .spawn(move || {
            // the jobs run *inside* a small rayon pool, so that `edge_cut`'s par_iter does not
            // have to wake the global pool from outside for every call
            let pool = coupe::rayon::ThreadPoolBuilder::new().num_threads(2).build().expect("pool");
            for job in jrx {
                let r = pool.install(|| catch(job));
                if rtx.send(r).is_err() {
                    break;
                }
            }
        })
        .expect("spawn");
    Worker { jobs: jtx, results: rrx }
}

/// `catch_timeout` without a thread per case: one long-lived worker; after a hang the worker
/// is abandoned (it cannot be killed) and a fresh one serves the following cases.
fn on_worker(secs: u64, f: impl FnOnce() -> Ran + Send + 'static) -> Caught<Ran> {
    let mut g = WORKER.lock().unwrap_or_else(|e| e.into_inner());
    let w = g.get_or_insert_with(spawn_worker);
    if w.jobs.send(Box::new(f)).is_err() {
        *g = None;
        return Caught::Panic("worker thread died".into());
    }
    match recv_patient(&w.results, secs) {
        Some(r) => r,
        None => {
            *g = None;
            Caught::Hang
        }
    }
}

type Ran = (Vec<usize>, f64, f64);

/// Run the real `KernighanLin::partition`; returns (ids after, edge_cut before, edge_cut after)
/// and whether the matrix could be built.
fn run_impl(c: &Case) -> (Caught<Ran>, bool) {
    let nrows = c.rows.len();
    let ncols = c
        .rows
        .iter()
        .flat_map(|r| r.iter().map(|&(j, _)| j + 1))
        .max()
        .unwrap_or(0)
        .max(nrows);
    let mut indptr = vec![0usize];
    let mut indices = vec![];
    let mut data = vec![];
    for r in &c.rows {
        for &(j, w) in r {
            indices.push(j);
            data.push(w as f64);
        }
        indptr.push(indices.len());
    }
    let Ok(mat) = CsMat::try_new((nrows, ncols), indptr, indices, data) else {
        return (Caught::Hang, false);
    };
    let ids0 = c.ids.clone();
    let weights = vec![1.0f64; c.wlen];
    let (mp, mf, mb) = (c.mp, c.mf, c.mb);
    let r = on_worker(60, move || {
        let mut p = ids0.clone();
        coupe::KernighanLin {
            max_passes: mp,
            max_flips_per_pass: mf,
            max_imbalance_per_flip: None,
            max_bad_move_in_a_row: mb,
        }
        .partition(&mut p, (mat.view(), &weights[..]))
        .unwrap();
        let before = mat.view().edge_cut(&ids0);
        let after = mat.view().edge_cut(&p);
        (p, before, after)
    });
    (r, true)
}

/// Oracle's own cut: dense matrix, every unordered pair {i, j} with different labels counted
/// once with the weight stored at (max, min) – for a symmetric matrix the textbook edge cut.
fn brute_cut(n: usize, dense: &[i64], ids: &[usize]) -> i64 {
    let mut s = 0;
    for i in 0..n {
        for j in 0..i {
            if ids[i] != ids[j] {
                s += dense[i * n + j];
            }
        }
    }
    s
}

pub fn run_op(ctx: &mut Ctx, op: &str) {
    if ctx.hang_limit_reached() {
        return;
    }
    let Some(c) = parse_op(op) else {
        ctx.record(op.to_string(), "bad-op".into(), false);
        return;
    };
    let n = c.ids.len();
    let (res, built) = run_impl(&c);
    if !built {
        ctx.record(op.to_string(), "bad-op".into(), false);
        return;
    }
    // classification of the input (independent of the model)
    let mut labels: Vec<usize> = c.ids.clone();
    labels.sort();
    labels.dedup();
    let two_way = labels.len() == 2;
    let well_formed = c.rows.len() == n && c.rows.iter().all(|r| r.iter().all(|&(j, _)| j < n));
    let mut dense = vec![0i64; n * n];
    let mut symmetric = well_formed;
    let mut positive = true;
    let mut nedges = 0;
    if well_formed {
        for (v, r) in c.rows.iter().enumerate() {
            for &(j, w) in r {
                dense[v * n + j] = w;
                positive &= w > 0 && j != v;
                nedges += 1;
            }
        }
        for i in 0..n {
            for j in 0..n {
                symmetric &= dense[i * n + j] == dense[j * n + i];
            }
        }
    }
    // the property's quantifier
    let in_scope = two_way && well_formed && symmetric && positive && c.wlen == n;
    let nontrivial = in_scope && nedges > 0;

    let mut verdict: Option<(&str, String)> = None;
    let out = match res {
        Caught::Ok((p, before, after)) => {
            // oracle (on every input the implementation accepts, in scope or not)
            let mut a = c.ids.clone();
            let mut b = p.clone();
            a.sort();
            b.sort();
            if p.len() != n {
                verdict = Some(("kl-length", format!("{} ids in, {} out", n, p.len())));
            } else if a != b {
                verdict = Some((
                    "kl-part-sizes",
                    format!("label multiset changed: {:?} -> {:?}", c.ids, p),
                ));
            } else if well_formed {
                let (cb, ca) = (brute_cut(n, &dense, &c.ids), brute_cut(n, &dense, &p));
                if ca > cb {
                    verdict = Some((
                        "kl-cut-increased",
                        format!("edge cut {} -> {} ({:?} -> {:?})", cb, ca, c.ids, p),
                    ));
                } else if cb as f64 != before || ca as f64 != after {
                    verdict = Some((
                        "kl-edge-cut-value",
                        format!("edge_cut reports {} / {}, brute force {} / {}", before, after, cb, ca),
                    ));
                }
                if symmetric {
                    // each undirected edge once, from the other triangle as well
                    let mut up = 0;
                    for i in 0..n {
                        for j in i + 1..n {
                            if p[i] != p[j] {
                                up += dense[i * n + j];
                            }
                        }
                    }
                    if up != ca && verdict.is_none() {
                        verdict = Some(("kl-oracle-internal", format!("{} vs {}", up, ca)));
                    }
                }
                if p != c.ids {
                    ctx.count(if ca < cb { "moved_cut_lower" } else { "moved_cut_equal" });
                } else {
                    ctx.count("unchanged");
                }
            }
            format!("ok {} {} | {}", before as i64, after as i64, join(&p))
        }
        Caught::Panic(m) => {
            if in_scope || (two_way && well_formed) {
                // kl_total: no panic on a well-formed graph and a two-way partition
                verdict = Some(("panic", format!("{} [{}]", m, panic_sig(&m))));
            }
            format!("panic {}", m)
        }
        Caught::Hang => {
            verdict = Some(("hang", "watchdog (60 s)".into()));
            "hang".into()
        }
    };
    ctx.count(out.split(' ').next().unwrap_or(""));
    ctx.count(if in_scope { "in_scope" } else { "out_of_scope" });
    let idx = ctx.record(op.to_string(), out, nontrivial);
    if let Some((sig, what)) = verdict {
        ctx.fail(idx, sig, what);
    }
}
