//! C15 — KernighanLin never increases the cut and preserves part sizes.
//!
//! op:  `kl <max_passes|-> <max_flips|-> <max_bad> <wlen> <n> <ids…> <rows> {<deg> {<j> <w>}…}…`
//!      (CSR rows with strictly increasing column indices, integer-valued `f64` edge
//!      weights, `wlen` = length of the vertex-weight slice, `-` = `None`)
//! out: `ok <cut before> <cut after> | <ids>` (cuts as `Topology::edge_cut` of the view
//!      reports them) | `panic file:line: message`

use crate::common::*;
use coupe::sprs::CsMat;
use coupe::Partition as _;
use coupe::Topology as _;

type Rows = Vec<Vec<(usize, i64)>>;

#[derive(Clone, Debug)]
struct Case {
    mp: Option<usize>,
    mf: Option<usize>,
    mb: usize,
    wlen: usize,
    ids: Vec<usize>,
    rows: Rows,
    /// `klx` only: rayon pool size the call runs in (0 = the worker's own 2-thread pool)
    threads: usize,
    /// `klx` only: the same `KernighanLin` value is first used on another input
    reuse: bool,
}

fn opt(x: Option<usize>) -> String {
    match x {
        Some(v) => v.to_string(),
        None => "-".into(),
    }
}

fn format_op(c: &Case) -> String {
    let head = if c.threads == 0 && !c.reuse {
        "kl".to_string()
    } else {
        format!("klx {} {}", c.threads, u8::from(c.reuse))
    };
    let mut s = format!(
        "{} {} {} {} {} {}",
        head,
        opt(c.mp),
        opt(c.mf),
        c.mb,
        c.wlen,
        c.ids.len()
    );
    for i in &c.ids {
        s.push_str(&format!(" {}", i));
    }
    s.push_str(&format!(" {}", c.rows.len()));
    for r in &c.rows {
        s.push_str(&format!(" {}", r.len()));
        for (j, w) in r {
            s.push_str(&format!(" {} {}", j, w));
        }
    }
    s
}

fn parse_opt(t: &str) -> Option<Option<usize>> {
    if t == "-" {
        Some(None)
    } else {
        t.parse().ok().map(Some)
    }
}

fn parse_op(op: &str) -> Option<Case> {
    let mut it = op.split_whitespace();
    let (threads, reuse) = match it.next()? {
        "kl" => (0, false),
        "klx" => {
            let t: usize = it.next()?.parse().ok()?;
            let r: u8 = it.next()?.parse().ok()?;
            if t > 64 || r > 1 {
                return None;
            }
            (t, r == 1)
        }
        _ => return None,
    };
    let mp = parse_opt(it.next()?)?;
    let mf = parse_opt(it.next()?)?;
    let mb: usize = it.next()?.parse().ok()?;
    let wlen: usize = it.next()?.parse().ok()?;
    let n: usize = it.next()?.parse().ok()?;
    let mut ids = Vec::with_capacity(n);
    for _ in 0..n {
        ids.push(it.next()?.parse().ok()?);
    }
    let r: usize = it.next()?.parse().ok()?;
    let mut rows = Vec::with_capacity(r);
    for _ in 0..r {
        let d: usize = it.next()?.parse().ok()?;
        let mut row: Vec<(usize, i64)> = Vec::with_capacity(d);
        for _ in 0..d {
            let j: usize = it.next()?.parse().ok()?;
            let w: i64 = it.next()?.parse().ok()?;
            if let Some(&(pj, _)) = row.last() {
                if pj >= j {
                    return None; // not a valid CsMat row
                }
            }
            row.push((j, w));
        }
        rows.push(row);
    }
    if it.next().is_some() || wlen > 1 << 20 {
        return None;
    }
    Some(Case { mp, mf, mb, wlen, ids, rows, threads, reuse })
}

// ------------------------------------------------------------------ graphs

/// symmetric rows from an undirected edge list (later duplicates are dropped)
fn from_edges(n: usize, edges: &[(usize, usize, i64)]) -> Rows {
    let mut rows: Rows = vec![vec![]; n];
    for &(a, b, w) in edges {
        if a == b || rows[a].iter().any(|&(j, _)| j == b) {
            continue;
        }
        rows[a].push((b, w));
        rows[b].push((a, w));
    }
    for r in rows.iter_mut() {
        r.sort();
    }
    rows
}

fn weight(rng: &mut Rng, mode: usize) -> i64 {
    match mode {
        0 => 1,
        1 => rng.range(1, 9),
        2 => rng.range(1, 1000),
        _ => *rng.pick(&[1, 1, 1, 2, 5, 100]),
    }
}

fn grid_edges(r: usize, c: usize, rng: &mut Rng, wmode: usize) -> Vec<(usize, usize, i64)> {
    let mut e = vec![];
    for i in 0..r {
        for j in 0..c {
            if j + 1 < c {
                e.push((i * c + j, i * c + j + 1, weight(rng, wmode)));
            }
            if i + 1 < r {
                e.push((i * c + j, (i + 1) * c + j, weight(rng, wmode)));
            }
        }
    }
    e
}

/// (shape name, symmetric graph)
fn random_graph(rng: &mut Rng, maxn: usize) -> (&'static str, Rows) {
    let wmode = rng.usize(4);
    match rng.usize(8) {
        0 => {
            // grid
            let r = 1 + rng.usize(4);
            let c = (2 + rng.usize(4)).min(maxn / r).max(2);
            ("grid", from_edges(r * c, &grid_edges(r, c, rng, wmode)))
        }
        1 => {
            // two components without a connecting edge
            let n = 4 + rng.usize(maxn - 3);
            let h = 2 + rng.usize(n - 3);
            let mut e = vec![];
            for a in 0..n {
                for b in a + 1..n {
                    if (a < h) == (b < h) && rng.chance(1, 2) {
                        e.push((a, b, weight(rng, wmode)));
                    }
                }
            }
            ("disconnected", from_edges(n, &e))
        }
        2 => {
            // sparse with isolated vertices
            let n = 3 + rng.usize(maxn - 2);
            let live = 2 + rng.usize(n - 2);
            let mut e = vec![];
            for a in 0..live {
                for b in a + 1..live {
                    if rng.chance(1, 2) {
                        e.push((a, b, weight(rng, wmode)));
                    }
                }
            }
            // scatter the live vertices among the isolated ones
            let mut perm: Vec<usize> = (0..n).collect();
            rng.shuffle(&mut perm);
            let e: Vec<_> = e.into_iter().map(|(a, b, w)| (perm[a], perm[b], w)).collect();
            ("isolated", from_edges(n, &e))
        }
        3 => {
            // path / cycle
            let n = 2 + rng.usize(maxn - 1);
            let mut e: Vec<_> = (0..n - 1).map(|i| (i, i + 1, weight(rng, wmode))).collect();
            if n > 2 && rng.chance(1, 2) {
                e.push((n - 1, 0, weight(rng, wmode)));
            }
            ("path_cycle", from_edges(n, &e))
        }
        4 => {
            // complete / star
            let n = 2 + rng.usize(maxn.min(9) - 1);
            let star = rng.chance(1, 2);
            let mut e = vec![];
            for a in 0..n {
                for b in a + 1..n {
                    if !star || a == 0 {
                        e.push((a, b, weight(rng, wmode)));
                    }
                }
            }
            (if star { "star" } else { "complete" }, from_edges(n, &e))
        }
        _ => {
            // G(n, p)
            let n = 2 + rng.usize(maxn - 1);
            let den = 1 + rng.usize(5) as u64;
            let mut e = vec![];
            for a in 0..n {
                for b in a + 1..n {
                    if rng.chance(1, den) {
                        e.push((a, b, weight(rng, wmode)));
                    }
                }
            }
            ("gnp", from_edges(n, &e))
        }
    }
}

/// two-way 0/1 colouring with both colours used (n >= 2)
fn random_colouring(rng: &mut Rng, n: usize) -> (&'static str, Vec<usize>) {
    match rng.usize(5) {
        0 => {
            // balanced, shuffled
            let mut v: Vec<usize> = (0..n).map(|i| usize::from(i >= n / 2)).collect();
            rng.shuffle(&mut v);
            ("balanced", v)
        }
        1 => {
            // one vertex alone
            let mut v = vec![rng.usize(2); n];
            let k = rng.usize(n);
            v[k] = 1 - v[k];
            ("singleton", v)
        }
        2 => {
            // contiguous halves (often locally optimal on paths and grids)
            let cut = 1 + rng.usize(n - 1);
            ("contiguous", (0..n).map(|i| usize::from(i >= cut)).collect())
        }
        3 => {
            // alternating (worst case on paths)
            let o = rng.usize(2);
            ("alternating", (0..n).map(|i| (i + o) % 2).collect())
        }
        _ => {
            let mut v: Vec<usize> = (0..n).map(|_| rng.usize(2)).collect();
            if v.iter().all(|&x| x == v[0]) {
                let k = rng.usize(n);
                v[k] = 1 - v[k];
            }
            ("random", v)
        }
    }
}

fn relabel(rng: &mut Rng, ids: &mut [usize]) -> &'static str {
    let (name, a, b) = match rng.usize(6) {
        0 | 1 => ("labels_01", 0, 1),
        2 => ("labels_37", 3, 7),
        3 => ("labels_73", 7, 3),
        4 => ("labels_big", 5, 1_000_000),
        _ => ("labels_10", 1, 0),
    };
    for x in ids.iter_mut() {
        *x = if *x == 0 { a } else { b };
    }
    name
}

fn random_limits(rng: &mut Rng, n: usize) -> (Option<usize>, Option<usize>, usize) {
    let mp = match rng.usize(6) {
        0 => Some(0),
        1 => Some(1),
        2 => Some(2 + rng.usize(3)),
        _ => None,
    };
    let mf = match rng.usize(6) {
        0 => Some(0),
        1 => Some(1),
        2 => Some(rng.usize(n + 2)),
        _ => None,
    };
    (mp, mf, rng.usize(4))
}

pub fn generate(ctx: &mut Ctx) {
    // ---- exhaustive: every graph on <= N vertices with unit weights x every 2-colouring
    //      with both colours used x a grid of limits
    //      (quick: 5 vertices only without limits, max_bad_move 0 and 1)
    let limits: [(Option<usize>, Option<usize>); 6] = [
        (None, None),
        (Some(1), None),
        (None, Some(1)),
        (Some(0), None),
        (None, Some(0)),
        (Some(2), Some(2)),
    ];
    for n in 2..=5 {
        let reduced = n == 5 && ctx.quick();
        let pairs: Vec<(usize, usize)> =
            (0..n).flat_map(|a| (a + 1..n).map(move |b| (a, b))).collect();
        for mask in 0u32..(1u32 << pairs.len()) {
            let edges: Vec<_> = pairs
                .iter()
                .enumerate()
                .filter(|(k, _)| mask >> k & 1 == 1)
                .map(|(_, &(a, b))| (a, b, 1i64))
                .collect();
            let rows = from_edges(n, &edges);
            for col in 1u32..(1u32 << n) - 1 {
                let ids: Vec<usize> = (0..n).map(|i| (col >> i & 1) as usize).collect();
                for &(mp, mf) in &limits[..if reduced { 1 } else { 6 }] {
                    for mb in 0..if reduced { 2 } else { 3 } {
                        let c = Case { mp, mf, mb, wlen: n, ids: ids.clone(), rows: rows.clone(), threads: 0, reuse: false };
                        ctx.count(&format!("exhaustive_n{}", n));
                        run_op(ctx, &format_op(&c));
                    }
                }
            }
        }
    }
    ctx.notes.push(format!(
        "exhaustive sub-space: all graphs on 2..=5 vertices (unit weights) x all 2-colourings using both colours x 6 (max_passes, max_flips) settings x max_bad_move 0..=2{}",
        if ctx.quick() { " (5 vertices: no limits, max_bad_move 0..=1 only)" } else { "" }
    ));

    // ---- random symmetric graphs
    let maxn = if ctx.quick() { 12 } else { 16 };
    for _ in 0..ctx.budget(15_000, 200_000) {
        let (shape, rows) = random_graph(&mut ctx.rng, maxn);
        let n = rows.len();
        let (cshape, mut ids) = random_colouring(&mut ctx.rng, n);
        let (mp, mf, mb) = random_limits(&mut ctx.rng, n);
        let mut c = Case { mp, mf, mb, wlen: n, ids: vec![], rows, threads: 0, reuse: false };
        let mut cshape = cshape;
        if ctx.rng.chance(1, 6) {
            // locally optimal input: what an unlimited run returns
            let (out, _) = run_impl(&Case { mp: None, mf: None, mb: 1, ids: ids.clone(), ..c.clone() });
            if let Caught::Ok((p, _, _, _)) = out {
                ids = p;
                cshape = "fixpoint";
            }
        }
        let lshape = relabel(&mut ctx.rng, &mut ids);
        c.ids = ids;
        ctx.count(&format!("graph_{}", shape));
        ctx.count(&format!("colouring_{}", cshape));
        ctx.count(lshape);
        ctx.count(&format!("max_bad_{}", mb));
        ctx.count(&format!("max_passes_{}", mp.map_or("none".into(), |v| v.min(2).to_string())));
        ctx.count(&format!(
            "max_flips_{}",
            mf.map_or("none".into(), |v| if v >= 2 { "2+".into() } else { v.to_string() })
        ));
        run_op(ctx, &format_op(&c));
    }

    // ---- outside the property's quantifier (the theorems kl_sizes / kl_cut_le still cover the
    //      first four, kl_unimplemented the label counts; the rest are the modelled panics)
    for _ in 0..ctx.budget(1500, 15_000) {
        let (_, mut rows) = random_graph(&mut ctx.rng, 8);
        let n = rows.len();
        let (_, mut ids) = random_colouring(&mut ctx.rng, n);
        let (mp, mf, mb) = random_limits(&mut ctx.rng, n);
        let mut wlen = n;
        let kind = ctx.rng.usize(10);
        let name = match kind {
            0 => {
                // asymmetric: drop / change one direction of some edges
                for r in rows.iter_mut() {
                    for e in r.iter_mut() {
                        if ctx.rng.chance(1, 3) {
                            e.1 = ctx.rng.range(1, 9);
                        }
                    }
                    if !r.is_empty() && ctx.rng.chance(1, 3) {
                        let k = ctx.rng.usize(r.len());
                        r.remove(k);
                    }
                }
                "asymmetric"
            }
            1 => {
                // negative and zero weights (symmetric)
                let mut e = vec![];
                for a in 0..n {
                    for &(b, _) in rows[a].iter().filter(|&&(b, _)| a < b) {
                        e.push((a, b, ctx.rng.range(-5, 5)));
                    }
                }
                rows = from_edges(n, &e);
                "negative_weights"
            }
            2 => {
                // diagonal entries
                for (v, r) in rows.iter_mut().enumerate() {
                    if ctx.rng.chance(1, 2) {
                        r.push((v, ctx.rng.range(1, 9)));
                        r.sort();
                    }
                }
                "self_loops"
            }
            3 => {
                wlen = if ctx.rng.chance(1, 2) { ctx.rng.usize(n + 1) } else { n + 1 + ctx.rng.usize(3) };
                "weights_len"
            }
            4 => {
                let l = ctx.rng.usize(2);
                ids = vec![l; n];
                "one_label"
            }
            5 => {
                let k = ctx.rng.usize(n);
                ids[k] = 2;
                if n >= 3 {
                    "three_labels"
                } else {
                    "two_labels_02"
                }
            }
            6 => {
                rows.truncate(ctx.rng.usize(n));
                "rows_missing"
            }
            7 => {
                for _ in 0..1 + ctx.rng.usize(2) {
                    rows.push(vec![]);
                }
                "rows_extra"
            }
            8 => {
                let v = ctx.rng.usize(n);
                rows[v].push((n + ctx.rng.usize(2), 1));
                "neighbour_out_of_range"
            }
            _ => {
                ids.clear();
                rows.clear();
                wlen = 0;
                "empty"
            }
        };
        ctx.count(&format!("malformed_{}", name));
        run_op(ctx, &format_op(&Case { mp, mf, mb, wlen, ids, rows, threads: 0, reuse: false }));
    }

    generate_large(ctx);
}

// ------------------------------------------------------------------ large / corner stream

/// Sparse symmetric graph on exactly `n` vertices.  kind 0: grid numbered row by row (the
/// `n - r*c` left-over vertices continue the last row as a path); kind 1: ring plus random
/// chords, every degree <= 4.
fn large_graph(rng: &mut Rng, n: usize, kind: usize, wmode: usize) -> Rows {
    let mut e = vec![];
    if kind == 0 {
        let r = (n as f64).sqrt() as usize;
        let c = n / r;
        e = grid_edges(r, c, rng, wmode);
        for v in r * c..n {
            e.push((v - 1, v, weight(rng, wmode)));
        }
    } else {
        let mut deg = vec![2usize; n];
        for v in 0..n {
            e.push((v, (v + 1) % n, weight(rng, wmode)));
        }
        for _ in 0..n {
            let (a, b) = (rng.usize(n), rng.usize(n));
            if a != b && deg[a] < 4 && deg[b] < 4 {
                deg[a] += 1;
                deg[b] += 1;
                e.push((a, b, weight(rng, wmode)));
            }
        }
    }
    from_edges(n, &e)
}

fn large_colouring(rng: &mut Rng, n: usize, kind: usize) -> (&'static str, Vec<usize>) {
    match kind % 4 {
        0 => {
            let mut v: Vec<usize> = (0..n).map(|i| usize::from(i >= n / 2)).collect();
            rng.shuffle(&mut v);
            ("balanced_random", v)
        }
        // block-aligned: labels constant on blocks of 64 consecutive vertices
        1 => ("balanced_blocks64", (0..n).map(|i| (i / 64) % 2).collect()),
        2 => ("unbalanced_contiguous", (0..n).map(|i| usize::from(i >= n / 5)).collect()),
        _ => {
            let mut v: Vec<usize> = (0..n).map(|i| usize::from(i >= n / 4)).collect();
            rng.shuffle(&mut v);
            ("unbalanced_random", v)
        }
    }
}

fn set_labels(ids: &mut [usize], k: usize) {
    let (a, b) = [(3, 7), (7, 3), (5, 1_000_000), (1, 0)][k % 4];
    for x in ids.iter_mut() {
        *x = if *x == 0 { a } else { b };
    }
}

/// Size- and corner-gated paths: the largest sizes a quadratic algorithm allows (every flip
/// recomputes all gains and the whole edge cut), not multiples of powers of two, sparse graphs,
/// several passes, rayon pools of 1/2/3/16 threads, object reuse, parameter corners.
fn generate_large(ctx: &mut Ctx) {
    // (n, max_passes, graph kind, colouring kind, threads, reuse); sizes up to 420 are compared
    // with the proven Lean model, sizes up to 21000 with its array transcription in the driver
    // (itself compared with the proven model on every smaller case), above that oracle only.  Colouring kinds 0 and 3 (random) need many passes, 1 and 2 are block-aligned.
    type L = (usize, Option<usize>, usize, usize, usize, bool);
    let quick: &[L] = &[
        (131, None, 1, 0, 3, true),
        (263, None, 0, 3, 1, true),
        (311, None, 1, 1, 16, true),
        (419, None, 0, 0, 2, true),
        (1013, None, 1, 3, 3, true),
        (1531, None, 0, 0, 16, false),
        (2053, None, 1, 2, 2, false),
        (4099, Some(4), 0, 0, 1, false),
        (8197, Some(3), 1, 3, 3, false),
        (16421, Some(1), 0, 3, 2, false),
    ];
    let thorough: &[L] = &[
        (131, None, 0, 0, 1, true),
        (263, None, 1, 0, 2, true),
        (311, None, 0, 3, 3, true),
        (389, None, 1, 3, 16, true),
        (419, None, 1, 0, 1, true),
        (419, None, 0, 1, 3, true),
        (1013, None, 0, 0, 2, true),
        (1531, None, 1, 0, 3, true),
        (2053, None, 0, 3, 16, false),
        (3001, None, 1, 0, 1, false),
        (4099, None, 0, 0, 2, false),
        (4099, None, 1, 3, 3, true),
        (8197, None, 0, 0, 16, false),
        (8197, Some(3), 1, 2, 1, false),
        (16421, Some(3), 0, 0, 2, false),
        (20001, Some(2), 1, 3, 3, false),
        (65537 + 11, Some(1), 0, 2, 16, false),
    ];
    let table = if ctx.quick() { quick } else { thorough };
    for (k, &(n, mp, gk, ck, threads, reuse)) in table.iter().enumerate() {
        let rows = large_graph(&mut ctx.rng, n, gk, if k % 3 == 0 { 1 } else { 0 });
        let (cname, mut ids) = large_colouring(&mut ctx.rng, n, ck);
        set_labels(&mut ids, k);
        let c = Case { mp, mf: None, mb: 1 + k % 3, wlen: n, ids, rows, threads, reuse };
        ctx.count(&format!(
            "large:{}",
            match n {
                0..=420 => "n<=420",
                421..=2100 => "n 421..2100",
                2101..=4096 => "n 2101..4096",
                4097..=8192 => "n 4097..8192",
                8193..=16384 => "n 8193..16384",
                16385..=65536 => "n 16385..65536",
                _ => "n>65536",
            }
        ));
        ctx.count(&format!("large_graph:{}", if gk == 0 { "grid" } else { "ring_chords_deg4" }));
        ctx.count(&format!("large_colouring:{}", cname));
        ctx.count(&format!("large_threads:{}", threads));
        if mp.is_none() && n <= 2100 {
            // how many passes really swap: compare the outputs under max_passes 1, 2, 3
            let probe = |m: usize| match run_impl(&Case { mp: Some(m), threads: 0, reuse: false, ..c.clone() }).0 {
                Caught::Ok((p, _, _, _)) => Some(p),
                _ => None,
            };
            let (p1, p2, p3) = (probe(1), probe(2), probe(3));
            ctx.count(if p2 != p3 {
                "large_passes:third pass swaps"
            } else if p1 != p2 {
                "large_passes:second pass swaps"
            } else {
                "large_passes:one pass"
            });
        }
        let t0 = std::time::Instant::now();
        run_op(ctx, &format_op(&c));
        if std::env::var_os("C15_TIMES").is_some() {
            eprintln!("large n={} mp={:?} {} threads={} reuse={}: {:?}", n, mp, cname, threads, reuse, t0.elapsed());
        }
    }

    // corners -------------------------------------------------------------
    let base = |rng: &mut Rng, maxn: usize| {
        let (_, rows) = random_graph(rng, maxn);
        let n = rows.len();
        let (_, mut ids) = random_colouring(rng, n);
        set_labels(&mut ids, rng.usize(4));
        Case { mp: None, mf: None, mb: 1 + rng.usize(3), wlen: n, ids, rows, threads: 0, reuse: false }
    };
    for i in 0..ctx.budget(60, 600) {
        // limits at the top of the type's range
        let mut c = base(&mut ctx.rng, 12);
        match i % 3 {
            0 => c.mp = Some(usize::MAX),
            1 => c.mf = Some(usize::MAX),
            _ => {
                c.mp = Some(usize::MAX);
                c.mf = Some(usize::MAX - 1);
            }
        }
        ctx.count("corner:limits_usize_max");
        run_op(ctx, &format_op(&c));
    }
    for _ in 0..ctx.budget(60, 600) {
        // max_flips_per_pass around n/2 (the other bound of the pass loop)
        let mut c = base(&mut ctx.rng, 12);
        let h = c.ids.len() / 2;
        c.mf = Some((h + ctx.rng.usize(3)).saturating_sub(1));
        ctx.count("corner:max_flips_around_half");
        run_op(ctx, &format_op(&c));
    }
    for _ in 0..ctx.budget(60, 600) {
        // weights 2^40..2^44: gains and cuts stay far below 2^53 (n <= 8), sums still exact
        let mut c = base(&mut ctx.rng, 8);
        for v in 0..c.rows.len() {
            for k in 0..c.rows[v].len() {
                let j = c.rows[v][k].0;
                if v < j {
                    let w = (1i64 << 40) + ctx.rng.range(0, (1i64 << 44) - (1i64 << 40));
                    c.rows[v][k].1 = w;
                    let m = c.rows[j].iter().position(|e| e.0 == v).unwrap();
                    c.rows[j][m].1 = w;
                }
            }
        }
        ctx.count("corner:weights_2^40..2^44");
        run_op(ctx, &format_op(&c));
    }
    for i in 0..ctx.budget(40, 400) {
        // exactly two and exactly three vertices, weighted, every label pair
        let n = 2 + i % 2;
        let mut e = vec![(0, 1, ctx.rng.range(1, 9))];
        if n == 3 {
            if ctx.rng.chance(1, 2) {
                e.push((1, 2, ctx.rng.range(1, 9)));
            }
            if ctx.rng.chance(1, 2) {
                e.push((0, 2, ctx.rng.range(1, 9)));
            }
        }
        if ctx.rng.chance(1, 5) {
            e.clear();
        }
        let (_, mut ids) = random_colouring(&mut ctx.rng, n);
        set_labels(&mut ids, i);
        let (mp, mf, mb) = random_limits(&mut ctx.rng, n);
        ctx.count(&format!("corner:n={}", n));
        run_op(ctx, &format_op(&Case { mp, mf, mb, wlen: n, ids, rows: from_edges(n, &e), threads: 0, reuse: false }));
    }
    // reuse of the same value on small and medium inputs, several pool sizes
    for i in 0..ctx.budget(150, 3000) {
        let mut c = base(&mut ctx.rng, if i % 10 == 0 { 60 } else { 14 });
        let (mp, mf, mb) = random_limits(&mut ctx.rng, c.ids.len());
        c.mp = mp;
        c.mf = mf;
        c.mb = mb;
        c.reuse = true;
        c.threads = [0, 1, 3][i % 3];
        run_op(ctx, &format_op(&c));
    }
    ctx.notes.push(
        "large/corner stream: KernighanLin is quadratic per pass (all gains and the whole edge cut are recomputed at every flip), so the largest sizes are 16421 (quick, 1 pass) and 65548 (thorough, 1 pass of n/5 flips); up to 2053 (quick) / 8197 (thorough) with unlimited passes; n <= 420 is compared with the proven Lean model, n <= 21000 with the driver's array transcription of it (checked against the proven model on every case with n <= 420), 65548 is oracle-only (`skip large-n`)".into(),
    );
}

// ------------------------------------------------------------------ running

type Job = Box<dyn FnOnce() -> Ran + Send>;

struct Worker {
    jobs: std::sync::mpsc::Sender<Job>,
    results: std::sync::mpsc::Receiver<Caught<Ran>>,
}

static WORKER: std::sync::Mutex<Option<Worker>> = std::sync::Mutex::new(None);

fn spawn_worker() -> Worker {
    let (jtx, jrx) = std::sync::mpsc::channel::<Job>();
    let (rtx, rrx) = std::sync::mpsc::channel();
    std::thread::Builder::new()
        .stack_size(16 << 20)
        .spawn(move || {
            // the jobs run *inside* a small rayon pool, so that `edge_cut`'s par_iter does not
            // have to wake the global pool from outside for every call
            let pool = coupe::rayon::ThreadPoolBuilder::new().num_threads(2).build().expect("pool");
            for job in jrx {
                let r = pool.install(|| catch(job));
                if rtx.send(r).is_err() {
                    break;
                }
            }
        })
        .expect("spawn");
    Worker { jobs: jtx, results: rrx }
}

/// `catch_timeout` without a thread per case: one long-lived worker; after a hang the worker
/// is abandoned (it cannot be killed) and a fresh one serves the following cases.
fn on_worker(secs: u64, f: impl FnOnce() -> Ran + Send + 'static) -> Caught<Ran> {
    let mut g = WORKER.lock().unwrap_or_else(|e| e.into_inner());
    let w = g.get_or_insert_with(spawn_worker);
    if w.jobs.send(Box::new(f)).is_err() {
        *g = None;
        return Caught::Panic("worker thread died".into());
    }
    match recv_patient(&w.results, secs) {
        Some(r) => r,
        None => {
            *g = None;
            Caught::Hang
        }
    }
}

/// ids after, edge_cut before, edge_cut after (as the view reports them), and for `reuse` cases
/// the ids a *reused* `KernighanLin` value returns for the same input
type Ran = (Vec<usize>, f64, f64, Option<Vec<usize>>);

/// Run the real `KernighanLin::partition`; also returns whether the matrix could be built.
fn run_impl(c: &Case) -> (Caught<Ran>, bool) {
    let nrows = c.rows.len();
    let ncols = c
        .rows
        .iter()
        .flat_map(|r| r.iter().map(|&(j, _)| j + 1))
        .max()
        .unwrap_or(0)
        .max(nrows);
    let mut indptr = vec![0usize];
    let mut indices = vec![];
    let mut data = vec![];
    for r in &c.rows {
        for &(j, w) in r {
            indices.push(j);
            data.push(w as f64);
        }
        indptr.push(indices.len());
    }
    let Ok(mat) = CsMat::try_new((nrows, ncols), indptr, indices, data) else {
        return (Caught::Hang, false);
    };
    let ids0 = c.ids.clone();
    let weights = vec![1.0f64; c.wlen];
    let (mp, mf, mb) = (c.mp, c.mf, c.mb);
    let (threads, reuse) = (c.threads, c.reuse);
    let r = on_worker(60 + c.ids.len() as u64 / 40, move || {
        let body = move || {
            let make = || coupe::KernighanLin {
                max_passes: mp,
                max_flips_per_pass: mf,
                max_imbalance_per_flip: None,
                max_bad_move_in_a_row: mb,
            };
            // fresh value, fresh buffer
            let mut p = ids0.clone();
            make().partition(&mut p, (mat.view(), &weights[..])).unwrap();
            let reused = if reuse {
                // the SAME value: first another input (the ids rotated by one place: same part
                // sizes, another partition), then the input of the case
                let mut alg = make();
                let mut q = ids0.clone();
                q.rotate_left(1);
                alg.partition(&mut q, (mat.view(), &weights[..])).unwrap();
                let mut p2 = ids0.clone();
                alg.partition(&mut p2, (mat.view(), &weights[..])).unwrap();
                Some(p2)
            } else {
                None
            };
            let before = mat.view().edge_cut(&ids0);
            let after = mat.view().edge_cut(&p);
            (p, before, after, reused)
        };
        if threads > 0 {
            with_pool(threads, body)
        } else {
            body()
        }
    });
    (r, true)
}

/// Oracle's own cut, O(m): every stored entry (v, j) of the chosen triangle whose end points
/// carry different labels – for a symmetric matrix either triangle is the textbook edge cut
/// (every undirected edge once).
fn tri_cut(rows: &Rows, ids: &[usize], lower: bool) -> i64 {
    let mut s = 0;
    for (v, r) in rows.iter().enumerate() {
        for &(j, w) in r {
            if (if lower { j < v } else { j > v }) && ids[v] != ids[j] {
                s += w;
            }
        }
    }
    s
}

fn short(ids: &[usize]) -> String {
    let mut s = format!("{:?}", &ids[..ids.len().min(40)]);
    if ids.len() > 40 {
        s.push_str(&format!("… ({} ids)", ids.len()));
    }
    s
}

pub fn run_op(ctx: &mut Ctx, op: &str) {
    if ctx.hang_limit_reached() {
        return;
    }
    let Some(c) = parse_op(op) else {
        ctx.record(op.to_string(), "bad-op".into(), false);
        return;
    };
    let n = c.ids.len();
    let (res, built) = run_impl(&c);
    if !built {
        ctx.record(op.to_string(), "bad-op".into(), false);
        return;
    }
    // classification of the input (independent of the model)
    let mut labels: Vec<usize> = c.ids.clone();
    labels.sort();
    labels.dedup();
    let two_way = labels.len() == 2;
    let well_formed = c.rows.len() == n && c.rows.iter().all(|r| r.iter().all(|&(j, _)| j < n));
    let mut symmetric = well_formed;
    let mut positive = true;
    let mut nedges = 0;
    if well_formed {
        for (v, r) in c.rows.iter().enumerate() {
            for &(j, w) in r {
                positive &= w > 0 && j != v;
                nedges += 1;
                // rows are strictly increasing (parse_op), so the mirror entry is found by bisection
                symmetric &= match c.rows[j].binary_search_by_key(&v, |e| e.0) {
                    Ok(k) => c.rows[j][k].1 == w,
                    Err(_) => false,
                };
            }
        }
    }
    // the property's quantifier
    let in_scope = two_way && well_formed && symmetric && positive && c.wlen == n;
    let nontrivial = in_scope && nedges > 0;

    let mut verdict: Option<(&str, String)> = None;
    let out = match res {
        Caught::Ok((p, before, after, reused)) => {
            // oracle (on every input the implementation accepts, in scope or not)
            let mut a = c.ids.clone();
            let mut b = p.clone();
            a.sort();
            b.sort();
            if p.len() != n {
                verdict = Some(("kl-length", format!("{} ids in, {} out", n, p.len())));
            } else if a != b {
                verdict = Some((
                    "kl-part-sizes",
                    format!("label multiset changed: {} -> {}", short(&c.ids), short(&p)),
                ));
            } else if well_formed {
                let (cb, ca) = (tri_cut(&c.rows, &c.ids, true), tri_cut(&c.rows, &p, true));
                if ca > cb {
                    verdict = Some((
                        "kl-cut-increased",
                        format!("edge cut {} -> {} ({} -> {})", cb, ca, short(&c.ids), short(&p)),
                    ));
                } else if cb as f64 != before || ca as f64 != after {
                    verdict = Some((
                        "kl-edge-cut-value",
                        format!("edge_cut reports {} / {}, brute force {} / {}", before, after, cb, ca),
                    ));
                }
                if symmetric {
                    // each undirected edge once, from the other triangle as well
                    let up = tri_cut(&c.rows, &p, false);
                    if up != ca && verdict.is_none() {
                        verdict = Some(("kl-oracle-internal", format!("{} vs {}", up, ca)));
                    }
                }
                if p != c.ids {
                    ctx.count(if ca < cb { "moved_cut_lower" } else { "moved_cut_equal" });
                } else {
                    ctx.count("unchanged");
                }
            }
            if let Some(p2) = &reused {
                ctx.count("reuse");
                if *p2 != p && verdict.is_none() {
                    verdict = Some((
                        "kl-reuse-differs",
                        format!(
                            "the same KernighanLin value used a second time returns {} instead of {}",
                            short(p2),
                            short(&p)
                        ),
                    ));
                }
            }
            format!("ok {} {} | {}", before as i64, after as i64, join(&p))
        }
        Caught::Panic(m) => {
            if in_scope || (two_way && well_formed) {
                // kl_total: no panic on a well-formed graph and a two-way partition
                verdict = Some(("panic", format!("{} [{}]", m, panic_sig(&m))));
            }
            format!("panic {}", m)
        }
        Caught::Hang => {
            verdict = Some(("hang", format!("watchdog ({} s)", 60 + n / 40)));
            "hang".into()
        }
    };
    ctx.count(out.split(' ').next().unwrap_or(""));
    ctx.count(if in_scope { "in_scope" } else { "out_of_scope" });
    let idx = ctx.record(op.to_string(), out, nontrivial);
    if let Some((sig, what)) = verdict {
        ctx.fail(idx, sig, what);
    }
}
