//! C15 — KernighanLin never increases the cut and preserves part sizes.
//!
//! op:  `kl <max_passes|-> <max_flips|-> <max_bad> <wlen> <n> <ids…> <rows> {<deg> {<j> <w>}…}…`
//!      (CSR rows with strictly increasing column indices, integer-valued `f64` edge
//!      weights, `wlen` = length of the vertex-weight slice, `-` = `None`)
//! out: `ok <cut before> <cut after> | <ids>` (cuts as `Topology::edge_cut` of the view
//!      reports them) | `panic file:line: message`
//!
//! op:  `klt <topo> <max_imbalance|-> <max_passes|-> <max_flips|-> <max_bad> <wn> <vertex weights…>
//!       <n> <ids…> <rows> {<deg> {<j> <w>}…}…` – every field of the algorithm struct, the vertex
//!      weights and the *type* of the topology are part of the input: `topo` = `csv` (CsMatView),
//!      `csr` (&CsMatView), `cus` / `cusr` (a user-defined `Topology` by value / by reference whose
//!      neighbour lists come in exactly the order of the op: shuffled, descending, …),
//!      `g2:W:H` / `g2r:W:H` (`coupe::Grid<2>` / `&Grid<2>`), `g3:W:H:D` / `g3r:W:H:D`;
//!      `max_imbalance` = 16 hex digits of the f64; vertex weights are integers.  Same output line.

use crate::common::*;
use coupe::sprs::CsMat;
use coupe::Partition as _;
use coupe::Topology as _;

type Rows = Vec<Vec<(usize, i64)>>;

#[derive(Clone, Debug)]
struct Case {
    mp: Option<usize>,
    mf: Option<usize>,
    mb: usize,
    wlen: usize,
    ids: Vec<usize>,
    rows: Rows,
    /// `klx` only: rayon pool size the call runs in (0 = the worker's own 2-thread pool)
    threads: usize,
    /// `klx` only: the same `KernighanLin` value is first used on another input
    reuse: bool,
}

fn opt(x: Option<usize>) -> String {
    match x {
        Some(v) => v.to_string(),
        None => "-".into(),
    }
}

fn format_op(c: &Case) -> String {
    let head = if c.threads == 0 && !c.reuse {
        "kl".to_string()
    } else {
        format!("klx {} {}", c.threads, u8::from(c.reuse))
    };
    let mut s = format!(
        "{} {} {} {} {} {}",
        head,
        opt(c.mp),
        opt(c.mf),
        c.mb,
        c.wlen,
        c.ids.len()
    );
    for i in &c.ids {
        s.push_str(&format!(" {}", i));
    }
    s.push_str(&format!(" {}", c.rows.len()));
    for r in &c.rows {
        s.push_str(&format!(" {}", r.len()));
        for (j, w) in r {
            s.push_str(&format!(" {} {}", j, w));
        }
    }
    s
}

fn parse_opt(t: &str) -> Option<Option<usize>> {
    if t == "-" {
        Some(None)
    } else {
        t.parse().ok().map(Some)
    }
}

fn parse_op(op: &str) -> Option<Case> {
    let mut it = op.split_whitespace();
    let (threads, reuse) = match it.next()? {
        "kl" => (0, false),
        "klx" => {
            let t: usize = it.next()?.parse().ok()?;
            let r: u8 = it.next()?.parse().ok()?;
            if t > 64 || r > 1 {
                return None;
            }
            (t, r == 1)
        }
        _ => return None,
    };
    let mp = parse_opt(it.next()?)?;
    let mf = parse_opt(it.next()?)?;
    let mb: usize = it.next()?.parse().ok()?;
    let wlen: usize = it.next()?.parse().ok()?;
    let n: usize = it.next()?.parse().ok()?;
    let mut ids = Vec::with_capacity(n);
    for _ in 0..n {
        ids.push(it.next()?.parse().ok()?);
    }
    let r: usize = it.next()?.parse().ok()?;
    let mut rows = Vec::with_capacity(r);
    for _ in 0..r {
        let d: usize = it.next()?.parse().ok()?;
        let mut row: Vec<(usize, i64)> = Vec::with_capacity(d);
        for _ in 0..d {
            let j: usize = it.next()?.parse().ok()?;
            let w: i64 = it.next()?.parse().ok()?;
            if let Some(&(pj, _)) = row.last() {
                if pj >= j {
                    return None; // not a valid CsMat row
                }
            }
            row.push((j, w));
        }
        rows.push(row);
    }
    if it.next().is_some() || wlen > 1 << 20 {
        return None;
    }
    Some(Case { mp, mf, mb, wlen, ids, rows, threads, reuse })
}

// ------------------------------------------------------------------ graphs

/// symmetric rows from an undirected edge list (later duplicates are dropped)
fn from_edges(n: usize, edges: &[(usize, usize, i64)]) -> Rows {
    let mut rows: Rows = vec![vec![]; n];
    for &(a, b, w) in edges {
        if a == b || rows[a].iter().any(|&(j, _)| j == b) {
            continue;
        }
        rows[a].push((b, w));
        rows[b].push((a, w));
    }
    for r in rows.iter_mut() {
        r.sort();
    }
    rows
}

fn weight(rng: &mut Rng, mode: usize) -> i64 {
    match mode {
        0 => 1,
        1 => rng.range(1, 9),
        2 => rng.range(1, 1000),
        _ => *rng.pick(&[1, 1, 1, 2, 5, 100]),
    }
}

fn grid_edges(r: usize, c: usize, rng: &mut Rng, wmode: usize) -> Vec<(usize, usize, i64)> {
    let mut e = vec![];
    for i in 0..r {
        for j in 0..c {
            if j + 1 < c {
                e.push((i * c + j, i * c + j + 1, weight(rng, wmode)));
            }
            if i + 1 < r {
                e.push((i * c + j, (i + 1) * c + j, weight(rng, wmode)));
            }
        }
    }
    e
}

/// (shape name, symmetric graph)
fn random_graph(rng: &mut Rng, maxn: usize) -> (&'static str, Rows) {
    let wmode = rng.usize(4);
    match rng.usize(8) {
        0 => {
            // grid
            let r = 1 + rng.usize(4);
            let c = (2 + rng.usize(4)).min(maxn / r).max(2);
            ("grid", from_edges(r * c, &grid_edges(r, c, rng, wmode)))
        }
        1 => {
            // two components without a connecting edge
            let n = 4 + rng.usize(maxn - 3);
            let h = 2 + rng.usize(n - 3);
            let mut e = vec![];
            for a in 0..n {
                for b in a + 1..n {
                    if (a < h) == (b < h) && rng.chance(1, 2) {
                        e.push((a, b, weight(rng, wmode)));
                    }
                }
            }
            ("disconnected", from_edges(n, &e))
        }
        2 => {
            // sparse with isolated vertices
            let n = 3 + rng.usize(maxn - 2);
            let live = 2 + rng.usize(n - 2);
            let mut e = vec![];
            for a in 0..live {
                for b in a + 1..live {
                    if rng.chance(1, 2) {
                        e.push((a, b, weight(rng, wmode)));
                    }
                }
            }
            // scatter the live vertices among the isolated ones
            let mut perm: Vec<usize> = (0..n).collect();
            rng.shuffle(&mut perm);
            let e: Vec<_> = e.into_iter().map(|(a, b, w)| (perm[a], perm[b], w)).collect();
            ("isolated", from_edges(n, &e))
        }
        3 => {
            // path / cycle
            let n = 2 + rng.usize(maxn - 1);
            let mut e: Vec<_> = (0..n - 1).map(|i| (i, i + 1, weight(rng, wmode))).collect();
            if n > 2 && rng.chance(1, 2) {
                e.push((n - 1, 0, weight(rng, wmode)));
            }
            ("path_cycle", from_edges(n, &e))
        }
        4 => {
            // complete / star
            let n = 2 + rng.usize(maxn.min(9) - 1);
            let star = rng.chance(1, 2);
            let mut e = vec![];
            for a in 0..n {
                for b in a + 1..n {
                    if !star || a == 0 {
                        e.push((a, b, weight(rng, wmode)));
                    }
                }
            }
            (if star { "star" } else { "complete" }, from_edges(n, &e))
        }
        _ => {
            // G(n, p)
            let n = 2 + rng.usize(maxn - 1);
            let den = 1 + rng.usize(5) as u64;
            let mut e = vec![];
            for a in 0..n {
                for b in a + 1..n {
                    if rng.chance(1, den) {
                        e.push((a, b, weight(rng, wmode)));
                    }
                }
            }
            ("gnp", from_edges(n, &e))
        }
    }
}

/// two-way 0/1 colouring with both colours used (n >= 2)
fn random_colouring(rng: &mut Rng, n: usize) -> (&'static str, Vec<usize>) {
    match rng.usize(5) {
        0 => {
            // balanced, shuffled
            let mut v: Vec<usize> = (0..n).map(|i| usize::from(i >= n / 2)).collect();
            rng.shuffle(&mut v);
            ("balanced", v)
        }
        1 => {
            // one vertex alone
            let mut v = vec![rng.usize(2); n];
            let k = rng.usize(n);
            v[k] = 1 - v[k];
            ("singleton", v)
        }
        2 => {
            // contiguous halves (often locally optimal on paths and grids)
            let cut = 1 + rng.usize(n - 1);
            ("contiguous", (0..n).map(|i| usize::from(i >= cut)).collect())
        }
        3 => {
            // alternating (worst case on paths)
            let o = rng.usize(2);
            ("alternating", (0..n).map(|i| (i + o) % 2).collect())
        }
        _ => {
            let mut v: Vec<usize> = (0..n).map(|_| rng.usize(2)).collect();
            if v.iter().all(|&x| x == v[0]) {
                let k = rng.usize(n);
                v[k] = 1 - v[k];
            }
            ("random", v)
        }
    }
}

fn relabel(rng: &mut Rng, ids: &mut [usize]) -> &'static str {
    let (name, a, b) = match rng.usize(6) {
        0 | 1 => ("labels_01", 0, 1),
        2 => ("labels_37", 3, 7),
        3 => ("labels_73", 7, 3),
        4 => ("labels_big", 5, 1_000_000),
        _ => ("labels_10", 1, 0),
    };
    for x in ids.iter_mut() {
        *x = if *x == 0 { a } else { b };
    }
    name
}

fn random_limits(rng: &mut Rng, n: usize) -> (Option<usize>, Option<usize>, usize) {
    let mp = match rng.usize(6) {
        0 => Some(0),
        1 => Some(1),
        2 => Some(2 + rng.usize(3)),
        _ => None,
    };
    let mf = match rng.usize(6) {
        0 => Some(0),
        1 => Some(1),
        2 => Some(rng.usize(n + 2)),
        _ => None,
    };
    (mp, mf, rng.usize(4))
}

pub fn generate(ctx: &mut Ctx) {
    // ---- exhaustive: every graph on <= N vertices with unit weights x every 2-colouring
    //      with both colours used x a grid of limits
    //      (quick: 5 vertices only without limits, max_bad_move 0 and 1)
    let limits: [(Option<usize>, Option<usize>); 6] = [
        (None, None),
        (Some(1), None),
        (None, Some(1)),
        (Some(0), None),
        (None, Some(0)),
        (Some(2), Some(2)),
    ];
    for n in 2..=5 {
        let reduced = n == 5 && ctx.quick();
        let pairs: Vec<(usize, usize)> =
            (0..n).flat_map(|a| (a + 1..n).map(move |b| (a, b))).collect();
        for mask in 0u32..(1u32 << pairs.len()) {
            let edges: Vec<_> = pairs
                .iter()
                .enumerate()
                .filter(|(k, _)| mask >> k & 1 == 1)
                .map(|(_, &(a, b))| (a, b, 1i64))
                .collect();
            let rows = from_edges(n, &edges);
            for col in 1u32..(1u32 << n) - 1 {
                let ids: Vec<usize> = (0..n).map(|i| (col >> i & 1) as usize).collect();
                for &(mp, mf) in &limits[..if reduced { 1 } else { 6 }] {
                    for mb in 0..if reduced { 2 } else { 3 } {
                        let c = Case { mp, mf, mb, wlen: n, ids: ids.clone(), rows: rows.clone(), threads: 0, reuse: false };
                        ctx.count(&format!("exhaustive_n{}", n));
                        run_op(ctx, &format_op(&c));
                    }
                }
            }
        }
    }
    ctx.notes.push(format!(
        "exhaustive sub-space: all graphs on 2..=5 vertices (unit weights) x all 2-colourings using both colours x 6 (max_passes, max_flips) settings x max_bad_move 0..=2{}",
        if ctx.quick() { " (5 vertices: no limits, max_bad_move 0..=1 only)" } else { "" }
    ));

    // ---- random symmetric graphs
    let maxn = if ctx.quick() { 12 } else { 16 };
    for _ in 0..ctx.budget(15_000, 200_000) {
        let (shape, rows) = random_graph(&mut ctx.rng, maxn);
        let n = rows.len();
        let (cshape, mut ids) = random_colouring(&mut ctx.rng, n);
        let (mp, mf, mb) = random_limits(&mut ctx.rng, n);
        let mut c = Case { mp, mf, mb, wlen: n, ids: vec![], rows, threads: 0, reuse: false };
        let mut cshape = cshape;
        if ctx.rng.chance(1, 6) {
            // locally optimal input: what an unlimited run returns
            let (out, _) = run_impl(&Case { mp: None, mf: None, mb: 1, ids: ids.clone(), ..c.clone() });
            if let Caught::Ok((p, _, _, _)) = out {
                ids = p;
                cshape = "fixpoint";
            }
        }
        let lshape = relabel(&mut ctx.rng, &mut ids);
        c.ids = ids;
        ctx.count(&format!("graph_{}", shape));
        ctx.count(&format!("colouring_{}", cshape));
        ctx.count(lshape);
        ctx.count(&format!("max_bad_{}", mb));
        ctx.count(&format!("max_passes_{}", mp.map_or("none".into(), |v| v.min(2).to_string())));
        ctx.count(&format!(
            "max_flips_{}",
            mf.map_or("none".into(), |v| if v >= 2 { "2+".into() } else { v.to_string() })
        ));
        run_op(ctx, &format_op(&c));
    }

    // ---- outside the property's quantifier (the theorems kl_sizes / kl_cut_le still cover the
    //      first four, kl_unimplemented the label counts; the rest are the modelled panics)
    for _ in 0..ctx.budget(1500, 15_000) {
        let (_, mut rows) = random_graph(&mut ctx.rng, 8);
        let n = rows.len();
        let (_, mut ids) = random_colouring(&mut ctx.rng, n);
        let (mp, mf, mb) = random_limits(&mut ctx.rng, n);
        let mut wlen = n;
        let kind = ctx.rng.usize(10);
        let name = match kind {
            0 => {
                // asymmetric: drop / change one direction of some edges
                for r in rows.iter_mut() {
                    for e in r.iter_mut() {
                        if ctx.rng.chance(1, 3) {
                            e.1 = ctx.rng.range(1, 9);
                        }
                    }
                    if !r.is_empty() && ctx.rng.chance(1, 3) {
                        let k = ctx.rng.usize(r.len());
                        r.remove(k);
                    }
                }
                "asymmetric"
            }
            1 => {
                // negative and zero weights (symmetric)
                let mut e = vec![];
                for a in 0..n {
                    for &(b, _) in rows[a].iter().filter(|&&(b, _)| a < b) {
                        e.push((a, b, ctx.rng.range(-5, 5)));
                    }
                }
                rows = from_edges(n, &e);
                "negative_weights"
            }
            2 => {
                // diagonal entries
                for (v, r) in rows.iter_mut().enumerate() {
                    if ctx.rng.chance(1, 2) {
                        r.push((v, ctx.rng.range(1, 9)));
                        r.sort();
                    }
                }
                "self_loops"
            }
            3 => {
                wlen = if ctx.rng.chance(1, 2) { ctx.rng.usize(n + 1) } else { n + 1 + ctx.rng.usize(3) };
                "weights_len"
            }
            4 => {
                let l = ctx.rng.usize(2);
                ids = vec![l; n];
                "one_label"
            }
            5 => {
                let k = ctx.rng.usize(n);
                ids[k] = 2;
                if n >= 3 {
                    "three_labels"
                } else {
                    "two_labels_02"
                }
            }
            6 => {
                rows.truncate(ctx.rng.usize(n));
                "rows_missing"
            }
            7 => {
                for _ in 0..1 + ctx.rng.usize(2) {
                    rows.push(vec![]);
                }
                "rows_extra"
            }
            8 => {
                let v = ctx.rng.usize(n);
                rows[v].push((n + ctx.rng.usize(2), 1));
                "neighbour_out_of_range"
            }
            _ => {
                ids.clear();
                rows.clear();
                wlen = 0;
                "empty"
            }
        };
        ctx.count(&format!("malformed_{}", name));
        run_op(ctx, &format_op(&Case { mp, mf, mb, wlen, ids, rows, threads: 0, reuse: false }));
    }

    generate_large(ctx);
    generate_topologies(ctx);
}

// ------------------------------------------------------------------ large / corner stream

/// Sparse symmetric graph on exactly `n` vertices.  kind 0: grid numbered row by row (the
/// `n - r*c` left-over vertices continue the last row as a path); kind 1: ring plus random
/// chords, every degree <= 4.
fn large_graph(rng: &mut Rng, n: usize, kind: usize, wmode: usize) -> Rows {
    let mut e = vec![];
    if kind == 0 {
        let r = (n as f64).sqrt() as usize;
        let c = n / r;
        e = grid_edges(r, c, rng, wmode);
        for v in r * c..n {
            e.push((v - 1, v, weight(rng, wmode)));
        }
    } else {
        let mut deg = vec![2usize; n];
        for v in 0..n {
            e.push((v, (v + 1) % n, weight(rng, wmode)));
        }
        for _ in 0..n {
            let (a, b) = (rng.usize(n), rng.usize(n));
            if a != b && deg[a] < 4 && deg[b] < 4 {
                deg[a] += 1;
                deg[b] += 1;
                e.push((a, b, weight(rng, wmode)));
            }
        }
    }
    from_edges(n, &e)
}

fn large_colouring(rng: &mut Rng, n: usize, kind: usize) -> (&'static str, Vec<usize>) {
    match kind % 4 {
        0 => {
            let mut v: Vec<usize> = (0..n).map(|i| usize::from(i >= n / 2)).collect();
            rng.shuffle(&mut v);
            ("balanced_random", v)
        }
        // block-aligned: labels constant on blocks of 64 consecutive vertices
        1 => ("balanced_blocks64", (0..n).map(|i| (i / 64) % 2).collect()),
        2 => ("unbalanced_contiguous", (0..n).map(|i| usize::from(i >= n / 5)).collect()),
        _ => {
            let mut v: Vec<usize> = (0..n).map(|i| usize::from(i >= n / 4)).collect();
            rng.shuffle(&mut v);
            ("unbalanced_random", v)
        }
    }
}

fn set_labels(ids: &mut [usize], k: usize) {
    let (a, b) = [(3, 7), (7, 3), (5, 1_000_000), (1, 0)][k % 4];
    for x in ids.iter_mut() {
        *x = if *x == 0 { a } else { b };
    }
}

/// Size- and corner-gated paths: the largest sizes a quadratic algorithm allows (every flip
/// recomputes all gains and the whole edge cut), not multiples of powers of two, sparse graphs,
/// several passes, rayon pools of 1/2/3/16 threads, object reuse, parameter corners.
fn generate_large(ctx: &mut Ctx) {
    // (n, max_passes, graph kind, colouring kind, threads, reuse); sizes up to 420 are compared
    // with the proven Lean model, sizes up to 21000 with its array transcription in the driver
    // (itself compared with the proven model on every smaller case), above that oracle only.  Colouring kinds 0 and 3 (random) need many passes, 1 and 2 are block-aligned.
    type L = (usize, Option<usize>, usize, usize, usize, bool);
    let quick: &[L] = &[
        (131, None, 1, 0, 3, true),
        (263, None, 0, 3, 1, true),
        (311, None, 1, 1, 16, true),
        (419, None, 0, 0, 2, true),
        (1013, None, 1, 3, 3, true),
        (1531, None, 0, 0, 16, false),
        (2053, None, 1, 2, 2, false),
        (4099, Some(4), 0, 0, 1, false),
        (8197, Some(3), 1, 3, 3, false),
        (16421, Some(1), 0, 3, 2, false),
    ];
    let thorough: &[L] = &[
        (131, None, 0, 0, 1, true),
        (263, None, 1, 0, 2, true),
        (311, None, 0, 3, 3, true),
        (389, None, 1, 3, 16, true),
        (419, None, 1, 0, 1, true),
        (419, None, 0, 1, 3, true),
        (1013, None, 0, 0, 2, true),
        (1531, None, 1, 0, 3, true),
        (2053, None, 0, 3, 16, false),
        (3001, None, 1, 0, 1, false),
        (4099, None, 0, 0, 2, false),
        (4099, None, 1, 3, 3, true),
        (8197, None, 0, 0, 16, false),
        (8197, Some(3), 1, 2, 1, false),
        (16421, Some(3), 0, 0, 2, false),
        (20001, Some(2), 1, 3, 3, false),
        (65537 + 11, Some(1), 0, 2, 16, false),
    ];
    let table = if ctx.quick() { quick } else { thorough };
    for (k, &(n, mp, gk, ck, threads, reuse)) in table.iter().enumerate() {
        let rows = large_graph(&mut ctx.rng, n, gk, if k % 3 == 0 { 1 } else { 0 });
        let (cname, mut ids) = large_colouring(&mut ctx.rng, n, ck);
        set_labels(&mut ids, k);
        let c = Case { mp, mf: None, mb: 1 + k % 3, wlen: n, ids, rows, threads, reuse };
        ctx.count(&format!(
            "large:{}",
            match n {
                0..=420 => "n<=420",
                421..=2100 => "n 421..2100",
                2101..=4096 => "n 2101..4096",
                4097..=8192 => "n 4097..8192",
                8193..=16384 => "n 8193..16384",
                16385..=65536 => "n 16385..65536",
                _ => "n>65536",
            }
        ));
        ctx.count(&format!("large_graph:{}", if gk == 0 { "grid" } else { "ring_chords_deg4" }));
        ctx.count(&format!("large_colouring:{}", cname));
        ctx.count(&format!("large_threads:{}", threads));
        if mp.is_none() && n <= 2100 {
            // how many passes really swap: compare the outputs under max_passes 1, 2, 3
            let probe = |m: usize| match run_impl(&Case { mp: Some(m), threads: 0, reuse: false, ..c.clone() }).0 {
                Caught::Ok((p, _, _, _)) => Some(p),
                _ => None,
            };
            let (p1, p2, p3) = (probe(1), probe(2), probe(3));
            ctx.count(if p2 != p3 {
                "large_passes:third pass swaps"
            } else if p1 != p2 {
                "large_passes:second pass swaps"
            } else {
                "large_passes:one pass"
            });
        }
        let t0 = std::time::Instant::now();
        run_op(ctx, &format_op(&c));
        if std::env::var_os("C15_TIMES").is_some() {
            eprintln!("large n={} mp={:?} {} threads={} reuse={}: {:?}", n, mp, cname, threads, reuse, t0.elapsed());
        }
    }

    // corners -------------------------------------------------------------
    let base = |rng: &mut Rng, maxn: usize| {
        let (_, rows) = random_graph(rng, maxn);
        let n = rows.len();
        let (_, mut ids) = random_colouring(rng, n);
        set_labels(&mut ids, rng.usize(4));
        Case { mp: None, mf: None, mb: 1 + rng.usize(3), wlen: n, ids, rows, threads: 0, reuse: false }
    };
    for i in 0..ctx.budget(60, 600) {
        // limits at the top of the type's range
        let mut c = base(&mut ctx.rng, 12);
        match i % 3 {
            0 => c.mp = Some(usize::MAX),
            1 => c.mf = Some(usize::MAX),
            _ => {
                c.mp = Some(usize::MAX);
                c.mf = Some(usize::MAX - 1);
            }
        }
        ctx.count("corner:limits_usize_max");
        run_op(ctx, &format_op(&c));
    }
    for _ in 0..ctx.budget(60, 600) {
        // max_flips_per_pass around n/2 (the other bound of the pass loop)
        let mut c = base(&mut ctx.rng, 12);
        let h = c.ids.len() / 2;
        c.mf = Some((h + ctx.rng.usize(3)).saturating_sub(1));
        ctx.count("corner:max_flips_around_half");
        run_op(ctx, &format_op(&c));
    }
    for _ in 0..ctx.budget(60, 600) {
        // weights 2^40..2^44: gains and cuts stay far below 2^53 (n <= 8), sums still exact
        let mut c = base(&mut ctx.rng, 8);
        for v in 0..c.rows.len() {
            for k in 0..c.rows[v].len() {
                let j = c.rows[v][k].0;
                if v < j {
                    let w = (1i64 << 40) + ctx.rng.range(0, (1i64 << 44) - (1i64 << 40));
                    c.rows[v][k].1 = w;
                    let m = c.rows[j].iter().position(|e| e.0 == v).unwrap();
                    c.rows[j][m].1 = w;
                }
            }
        }
        ctx.count("corner:weights_2^40..2^44");
        run_op(ctx, &format_op(&c));
    }
    for i in 0..ctx.budget(40, 400) {
        // exactly two and exactly three vertices, weighted, every label pair
        let n = 2 + i % 2;
        let mut e = vec![(0, 1, ctx.rng.range(1, 9))];
        if n == 3 {
            if ctx.rng.chance(1, 2) {
                e.push((1, 2, ctx.rng.range(1, 9)));
            }
            if ctx.rng.chance(1, 2) {
                e.push((0, 2, ctx.rng.range(1, 9)));
            }
        }
        if ctx.rng.chance(1, 5) {
            e.clear();
        }
        let (_, mut ids) = random_colouring(&mut ctx.rng, n);
        set_labels(&mut ids, i);
        let (mp, mf, mb) = random_limits(&mut ctx.rng, n);
        ctx.count(&format!("corner:n={}", n));
        run_op(ctx, &format_op(&Case { mp, mf, mb, wlen: n, ids, rows: from_edges(n, &e), threads: 0, reuse: false }));
    }
    // reuse of the same value on small and medium inputs, several pool sizes
    for i in 0..ctx.budget(150, 3000) {
        let mut c = base(&mut ctx.rng, if i % 10 == 0 { 60 } else { 14 });
        let (mp, mf, mb) = random_limits(&mut ctx.rng, c.ids.len());
        c.mp = mp;
        c.mf = mf;
        c.mb = mb;
        c.reuse = true;
        c.threads = [0, 1, 3][i % 3];
        run_op(ctx, &format_op(&c));
    }
    ctx.notes.push(
        "large/corner stream: KernighanLin is quadratic per pass (all gains and the whole edge cut are recomputed at every flip), so the largest sizes are 16421 (quick, 1 pass) and 65548 (thorough, 1 pass of n/5 flips); up to 2053 (quick) / 8197 (thorough) with unlimited passes; n <= 420 is compared with the proven Lean model, n <= 21000 with the driver's array transcription of it (checked against the proven model on every case with n <= 420), 65548 is oracle-only (`skip large-n`)".into(),
    );
}

// ------------------------------------------------------------------ running

type Job = Box<dyn FnOnce() -> Ran + Send>;

struct Worker {
    jobs: std::sync::mpsc::Sender<Job>,
    results: std::sync::mpsc::Receiver<Caught<Ran>>,
}

static WORKER: std::sync::Mutex<Option<Worker>> = std::sync::Mutex::new(None);

fn spawn_worker() -> Worker {
    let (jtx, jrx) = std::sync::mpsc::channel::<Job>();
    let (rtx, rrx) = std::sync::mpsc::channel();
    std::thread::Builder::new()
        .stack_size(16 << 20)
        .spawn(move || {
            // the jobs run *inside* a small rayon pool, so that `edge_cut`'s par_iter does not
            // have to wake the global pool from outside for every call
            let pool = coupe::rayon::ThreadPoolBuilder::new().num_threads(2).build().expect("pool");
            for job in jrx {
                let r = pool.install(|| catch(job));
                if rtx.send(r).is_err() {
                    break;
                }
            }
        })
        .expect("spawn");
    Worker { jobs: jtx, results: rrx }
}

/// `catch_timeout` without a thread per case: one long-lived worker; after a hang the worker
/// is abandoned (it cannot be killed) and a fresh one serves the following cases.
fn on_worker(secs: u64, f: impl FnOnce() -> Ran + Send + 'static) -> Caught<Ran> {
    let mut g = WORKER.lock().unwrap_or_else(|e| e.into_inner());
    let w = g.get_or_insert_with(spawn_worker);
    if w.jobs.send(Box::new(f)).is_err() {
        *g = None;
        return Caught::Panic("worker thread died".into());
    }
    match recv_patient(&w.results, secs) {
        Some(r) => r,
        None => {
            *g = None;
            Caught::Hang
        }
    }
}

/// ids after, edge_cut before, edge_cut after (as the view reports them), and for `reuse` cases
/// the ids a *reused* `KernighanLin` value returns for the same input
type Ran = (Vec<usize>, f64, f64, Option<Vec<usize>>);

/// Run the real `KernighanLin::partition`; also returns whether the matrix could be built.
fn run_impl(c: &Case) -> (Caught<Ran>, bool) {
    let nrows = c.rows.len();
    let ncols = c
        .rows
        .iter()
        .flat_map(|r| r.iter().map(|&(j, _)| j + 1))
        .max()
        .unwrap_or(0)
        .max(nrows);
    let mut indptr = vec![0usize];
    let mut indices = vec![];
    let mut data = vec![];
    for r in &c.rows {
        for &(j, w) in r {
            indices.push(j);
            data.push(w as f64);
        }
        indptr.push(indices.len());
    }
    let Ok(mat) = CsMat::try_new((nrows, ncols), indptr, indices, data) else {
        return (Caught::Hang, false);
    };
    let ids0 = c.ids.clone();
    let weights = vec![1.0f64; c.wlen];
    let (mp, mf, mb) = (c.mp, c.mf, c.mb);
    let (threads, reuse) = (c.threads, c.reuse);
    let r = on_worker(60 + c.ids.len() as u64 / 40, move || {
        let body = move || {
            let make = || coupe::KernighanLin {
                max_passes: mp,
                max_flips_per_pass: mf,
                max_imbalance_per_flip: None,
                max_bad_move_in_a_row: mb,
            };
            // fresh value, fresh buffer
            let mut p = ids0.clone();
            make().partition(&mut p, (mat.view(), &weights[..])).unwrap();
            let reused = if reuse {
                // the SAME value: first another input (the ids rotated by one place: same part
                // sizes, another partition), then the input of the case
                let mut alg = make();
                let mut q = ids0.clone();
                q.rotate_left(1);
                alg.partition(&mut q, (mat.view(), &weights[..])).unwrap();
                let mut p2 = ids0.clone();
                alg.partition(&mut p2, (mat.view(), &weights[..])).unwrap();
                Some(p2)
            } else {
                None
            };
            let before = mat.view().edge_cut(&ids0);
            let after = mat.view().edge_cut(&p);
            (p, before, after, reused)
        };
        if threads > 0 {
            with_pool(threads, body)
        } else {
            body()
        }
    });
    (r, true)
}

/// Oracle's own cut, O(m): every stored entry (v, j) of the chosen triangle whose end points
/// carry different labels – for a symmetric matrix either triangle is the textbook edge cut
/// (every undirected edge once).
fn tri_cut(rows: &Rows, ids: &[usize], lower: bool) -> i64 {
    let mut s = 0;
    for (v, r) in rows.iter().enumerate() {
        for &(j, w) in r {
            if (if lower { j < v } else { j > v }) && ids[v] != ids[j] {
                s += w;
            }
        }
    }
    s
}

fn short(ids: &[usize]) -> String {
    let mut s = format!("{:?}", &ids[..ids.len().min(40)]);
    if ids.len() > 40 {
        s.push_str(&format!("… ({} ids)", ids.len()));
    }
    s
}

pub fn run_op(ctx: &mut Ctx, op: &str) {
    if ctx.hang_limit_reached() {
        return;
    }
    if op.starts_with("klt ") {
        run_op_t(ctx, op);
        return;
    }
    let Some(c) = parse_op(op) else {
        ctx.record(op.to_string(), "bad-op".into(), false);
        return;
    };
    let n = c.ids.len();
    let (res, built) = run_impl(&c);
    if !built {
        ctx.record(op.to_string(), "bad-op".into(), false);
        return;
    }
    // classification of the input (independent of the model)
    let mut labels: Vec<usize> = c.ids.clone();
    labels.sort();
    labels.dedup();
    let two_way = labels.len() == 2;
    let well_formed = c.rows.len() == n && c.rows.iter().all(|r| r.iter().all(|&(j, _)| j < n));
    let mut symmetric = well_formed;
    let mut positive = true;
    let mut nedges = 0;
    if well_formed {
        for (v, r) in c.rows.iter().enumerate() {
            for &(j, w) in r {
                positive &= w > 0 && j != v;
                nedges += 1;
                // rows are strictly increasing (parse_op), so the mirror entry is found by bisection
                symmetric &= match c.rows[j].binary_search_by_key(&v, |e| e.0) {
                    Ok(k) => c.rows[j][k].1 == w,
                    Err(_) => false,
                };
            }
        }
    }
    // the property's quantifier
    let in_scope = two_way && well_formed && symmetric && positive && c.wlen == n;
    let nontrivial = in_scope && nedges > 0;

    let mut verdict: Option<(&str, String)> = None;
    let out = match res {
        Caught::Ok((p, before, after, reused)) => {
            // oracle (on every input the implementation accepts, in scope or not)
            let mut a = c.ids.clone();
            let mut b = p.clone();
            a.sort();
            b.sort();
            if p.len() != n {
                verdict = Some(("kl-length", format!("{} ids in, {} out", n, p.len())));
            } else if a != b {
                verdict = Some((
                    "kl-part-sizes",
                    format!("label multiset changed: {} -> {}", short(&c.ids), short(&p)),
                ));
            } else if well_formed {
                let (cb, ca) = (tri_cut(&c.rows, &c.ids, true), tri_cut(&c.rows, &p, true));
                if ca > cb {
                    verdict = Some((
                        "kl-cut-increased",
                        format!("edge cut {} -> {} ({} -> {})", cb, ca, short(&c.ids), short(&p)),
                    ));
                } else if cb as f64 != before || ca as f64 != after {
                    verdict = Some((
                        "kl-edge-cut-value",
                        format!("edge_cut reports {} / {}, brute force {} / {}", before, after, cb, ca),
                    ));
                }
                if symmetric {
                    // each undirected edge once, from the other triangle as well
                    let up = tri_cut(&c.rows, &p, false);
                    if up != ca && verdict.is_none() {
                        verdict = Some(("kl-oracle-internal", format!("{} vs {}", up, ca)));
                    }
                }
                if p != c.ids {
                    ctx.count(if ca < cb { "moved_cut_lower" } else { "moved_cut_equal" });
                } else {
                    ctx.count("unchanged");
                }
            }
            if let Some(p2) = &reused {
                ctx.count("reuse");
                if *p2 != p && verdict.is_none() {
                    verdict = Some((
                        "kl-reuse-differs",
                        format!(
                            "the same KernighanLin value used a second time returns {} instead of {}",
                            short(p2),
                            short(&p)
                        ),
                    ));
                }
            }
            format!("ok {} {} | {}", before as i64, after as i64, join(&p))
        }
        Caught::Panic(m) => {
            if in_scope || (two_way && well_formed) {
                // kl_total: no panic on a well-formed graph and a two-way partition
                verdict = Some(("panic", format!("{} [{}]", m, panic_sig(&m))));
            }
            format!("panic {}", m)
        }
        Caught::Hang => {
            verdict = Some(("hang", format!("watchdog ({} s)", 60 + n / 40)));
            "hang".into()
        }
    };
    ctx.count(out.split(' ').next().unwrap_or(""));
    ctx.count(if in_scope { "in_scope" } else { "out_of_scope" });
    let idx = ctx.record(op.to_string(), out, nontrivial);
    if let Some((sig, what)) = verdict {
        ctx.fail(idx, sig, what);
    }
}

// ------------------------------------------------------------------ topology types x all fields
//
// The `kl`/`klx` streams call KernighanLin through `CsMatView` with unit vertex weights and
// `max_imbalance_per_flip: None`.  The `klt` stream makes the remaining inputs of the call part
// of the case: the field `max_imbalance_per_flip` (None, 0, small, large, infinite), the vertex
// weights (uniform or not; pairs that differ by more than the limit), and the TYPE of the
// topology the same graph is handed over in (sprs view by value / by reference, coupe's Grid<2> /
// Grid<3> by value / by reference, a user-defined topology whose neighbour lists are ascending,
// descending or shuffled).  The property quantifies over graphs, partitions and limits only: none
// of these may change the verdict of the oracle (part sizes, cut not larger).

#[derive(Clone, Debug, PartialEq)]
enum Topo {
    CsView,
    CsRef,
    /// user-defined topology (by reference?)
    Custom(bool),
    Grid2(usize, usize, bool),
    Grid3(usize, usize, usize, bool),
}

impl Topo {
    fn name(&self) -> String {
        match *self {
            Topo::CsView => "csv".into(),
            Topo::CsRef => "csr".into(),
            Topo::Custom(false) => "cus".into(),
            Topo::Custom(true) => "cusr".into(),
            Topo::Grid2(w, h, r) => format!("g2{}:{}:{}", if r { "r" } else { "" }, w, h),
            Topo::Grid3(w, h, d, r) => format!("g3{}:{}:{}:{}", if r { "r" } else { "" }, w, h, d),
        }
    }
    fn kind(&self) -> &'static str {
        match *self {
            Topo::CsView => "CsMatView",
            Topo::CsRef => "&CsMatView",
            Topo::Custom(false) => "user-defined",
            Topo::Custom(true) => "&user-defined",
            Topo::Grid2(_, _, false) => "Grid<2>",
            Topo::Grid2(_, _, true) => "&Grid<2>",
            Topo::Grid3(_, _, _, false) => "Grid<3>",
            Topo::Grid3(_, _, _, true) => "&Grid<3>",
        }
    }
    fn parse(t: &str) -> Option<Topo> {
        let parts: Vec<&str> = t.split(':').collect();
        let dims: Vec<usize> = parts[1..].iter().map(|d| d.parse().ok()).collect::<Option<_>>()?;
        if dims.iter().any(|&d| d == 0 || d > 1 << 16) {
            return None;
        }
        match (parts[0], dims.len()) {
            ("csv", 0) => Some(Topo::CsView),
            ("csr", 0) => Some(Topo::CsRef),
            ("cus", 0) => Some(Topo::Custom(false)),
            ("cusr", 0) => Some(Topo::Custom(true)),
            ("g2", 2) => Some(Topo::Grid2(dims[0], dims[1], false)),
            ("g2r", 2) => Some(Topo::Grid2(dims[0], dims[1], true)),
            ("g3", 3) => Some(Topo::Grid3(dims[0], dims[1], dims[2], false)),
            ("g3r", 3) => Some(Topo::Grid3(dims[0], dims[1], dims[2], true)),
            _ => None,
        }
    }
}

#[derive(Clone, Debug)]
struct TCase {
    topo: Topo,
    /// bits of `max_imbalance_per_flip`
    mi: Option<u64>,
    mp: Option<usize>,
    mf: Option<usize>,
    mb: usize,
    vw: Vec<i64>,
    ids: Vec<usize>,
    /// neighbour lists in the order the topology yields them
    rows: Rows,
}

fn format_op_t(c: &TCase) -> String {
    let mut s = format!(
        "klt {} {} {} {} {} {}",
        c.topo.name(),
        c.mi.map_or("-".into(), |b| format!("{:016x}", b)),
        opt(c.mp),
        opt(c.mf),
        c.mb,
        c.vw.len()
    );
    for w in &c.vw {
        s.push_str(&format!(" {}", w));
    }
    s.push_str(&format!(" {}", c.ids.len()));
    for i in &c.ids {
        s.push_str(&format!(" {}", i));
    }
    s.push_str(&format!(" {}", c.rows.len()));
    for r in &c.rows {
        s.push_str(&format!(" {}", r.len()));
        for (j, w) in r {
            s.push_str(&format!(" {} {}", j, w));
        }
    }
    s
}

/// `None` = `bad-op`: unreadable, a neighbour list with a repeated neighbour, a list that is not
/// strictly increasing under `csv`/`csr` (no such CsMat exists), a row count other than `n` or a
/// neighbour `>= n` (the malformed matrices are the business of the `kl` stream).
fn parse_op_t(op: &str) -> Option<TCase> {
    let mut it = op.split_whitespace();
    if it.next()? != "klt" {
        return None;
    }
    let topo = Topo::parse(it.next()?)?;
    let mi = match it.next()? {
        "-" => None,
        t if t.len() == 16 => Some(u64::from_str_radix(t, 16).ok()?),
        _ => return None,
    };
    let mp = parse_opt(it.next()?)?;
    let mf = parse_opt(it.next()?)?;
    let mb: usize = it.next()?.parse().ok()?;
    let wn: usize = it.next()?.parse().ok()?;
    if wn > 1 << 20 {
        return None;
    }
    let mut vw = Vec::with_capacity(wn);
    for _ in 0..wn {
        let w: i64 = it.next()?.parse().ok()?;
        if w.abs() > 1 << 50 {
            return None;
        }
        vw.push(w);
    }
    let n: usize = it.next()?.parse().ok()?;
    let mut ids = Vec::with_capacity(n.min(1 << 20));
    for _ in 0..n {
        ids.push(it.next()?.parse().ok()?);
    }
    let r: usize = it.next()?.parse().ok()?;
    if r != n {
        return None;
    }
    let mut rows = Vec::with_capacity(r);
    for _ in 0..r {
        let d: usize = it.next()?.parse().ok()?;
        let mut row: Vec<(usize, i64)> = Vec::with_capacity(d.min(1 << 20));
        for _ in 0..d {
            let j: usize = it.next()?.parse().ok()?;
            let w: i64 = it.next()?.parse().ok()?;
            if j >= n {
                return None;
            }
            row.push((j, w));
        }
        let mut seen: Vec<usize> = row.iter().map(|e| e.0).collect();
        seen.sort();
        if seen.windows(2).any(|p| p[0] == p[1]) {
            return None;
        }
        if matches!(topo, Topo::CsView | Topo::CsRef) && row.windows(2).any(|p| p[0].0 >= p[1].0) {
            return None;
        }
        rows.push(row);
    }
    if it.next().is_some() {
        return None;
    }
    Some(TCase { topo, mi, mp, mf, mb, vw, ids, rows })
}

/// A topology as a user of the library would define one: adjacency lists, neighbours in the
/// stored order (nothing in the trait asks for ascending indices), default `edge_cut`.
struct UserTopo {
    rows: Vec<Vec<(usize, f64)>>,
}

impl coupe::Topology<f64> for UserTopo {
    type Neighbors<'n> = std::iter::Cloned<std::slice::Iter<'n, (usize, f64)>> where Self: 'n;

    fn len(&self) -> usize {
        self.rows.len()
    }

    fn neighbors(&self, vertex: usize) -> Self::Neighbors<'_> {
        self.rows[vertex].iter().cloned()
    }
}

/// The harness's own statement of what a `Grid` is: cell (x, y, z) has index x + W (y + H z),
/// neighbours in the order x-1, x+1, y-1, y+1, z-1, z+1, unit weights.
fn grid_rows(dims: &[usize]) -> Rows {
    let n: usize = dims.iter().product();
    let mut rows = Vec::with_capacity(n);
    for v in 0..n {
        let mut pos = vec![];
        let mut i = v;
        for &d in dims {
            pos.push(i % d);
            i /= d;
        }
        let mut row = vec![];
        let mut stride = 1;
        for (a, &d) in dims.iter().enumerate() {
            if pos[a] > 0 {
                row.push((v - stride, 1));
            }
            if pos[a] + 1 < d {
                row.push((v + stride, 1));
            }
            stride *= d;
        }
        rows.push(row);
    }
    rows
}

fn kl_through<T: coupe::Topology<f64> + Sync>(
    mk: impl Fn() -> T,
    mut alg: coupe::KernighanLin,
    ids0: &[usize],
    weights: &[f64],
) -> Ran {
    let mut p = ids0.to_vec();
    alg.partition(&mut p, (mk(), weights)).unwrap();
    let t = mk();
    let before = t.edge_cut(ids0);
    let after = t.edge_cut(&p);
    (p, before, after, None)
}

/// what `neighbors` of the real topology yields, for the comparison with the op's lists
fn listed<T: coupe::Topology<f64>>(t: &T, n: usize) -> Option<Vec<Vec<(usize, f64)>>> {
    if t.len() != n {
        return None;
    }
    Some((0..n).map(|v| t.neighbors(v).collect()).collect())
}

enum RanT {
    Ran(Caught<Ran>),
    /// the matrix cannot be built / the op's lists are not those of the named Grid
    NotThisTopology,
}

fn run_impl_t(c: &TCase) -> RanT {
    let n = c.ids.len();
    let frows: Vec<Vec<(usize, f64)>> =
        c.rows.iter().map(|r| r.iter().map(|&(j, w)| (j, w as f64)).collect()).collect();
    let alg = coupe::KernighanLin {
        max_passes: c.mp,
        max_flips_per_pass: c.mf,
        max_imbalance_per_flip: c.mi.map(f64::from_bits),
        max_bad_move_in_a_row: c.mb,
    };
    let weights: Vec<f64> = c.vw.iter().map(|&w| w as f64).collect();
    let ids0 = c.ids.clone();
    let secs = 60 + n as u64 / 40;
    let nz = |d: usize| std::num::NonZeroUsize::new(d).unwrap();
    match c.topo {
        Topo::CsView | Topo::CsRef => {
            let mut indptr = vec![0usize];
            let mut indices = vec![];
            let mut data = vec![];
            for r in &frows {
                for &(j, w) in r {
                    indices.push(j);
                    data.push(w);
                }
                indptr.push(indices.len());
            }
            let Ok(mat) = CsMat::try_new((n, n), indptr, indices, data) else {
                return RanT::NotThisTopology;
            };
            let by_ref = c.topo == Topo::CsRef;
            RanT::Ran(on_worker(secs, move || {
                let view = mat.view();
                if by_ref {
                    kl_through(|| &view, alg, &ids0, &weights)
                } else {
                    kl_through(|| mat.view(), alg, &ids0, &weights)
                }
            }))
        }
        Topo::Custom(by_ref) => {
            let user = UserTopo { rows: frows };
            RanT::Ran(on_worker(secs, move || {
                if by_ref {
                    kl_through(|| &user, alg, &ids0, &weights)
                } else {
                    kl_through(|| UserTopo { rows: user.rows.clone() }, alg, &ids0, &weights)
                }
            }))
        }
        Topo::Grid2(w, h, by_ref) => {
            let g = coupe::Grid::new_2d(nz(w), nz(h));
            if w.checked_mul(h) != Some(n) || listed(&g, n) != Some(frows) {
                return RanT::NotThisTopology;
            }
            RanT::Ran(on_worker(secs, move || {
                if by_ref {
                    kl_through(|| &g, alg, &ids0, &weights)
                } else {
                    kl_through(|| g, alg, &ids0, &weights)
                }
            }))
        }
        Topo::Grid3(w, h, d, by_ref) => {
            let g = coupe::Grid::new_3d(nz(w), nz(h), nz(d));
            if w.checked_mul(h).and_then(|x| x.checked_mul(d)) != Some(n) || listed(&g, n) != Some(frows) {
                return RanT::NotThisTopology;
            }
            RanT::Ran(on_worker(secs, move || {
                if by_ref {
                    kl_through(|| &g, alg, &ids0, &weights)
                } else {
                    kl_through(|| g, alg, &ids0, &weights)
                }
            }))
        }
    }
}

fn run_op_t(ctx: &mut Ctx, op: &str) {
    let Some(c) = parse_op_t(op) else {
        ctx.record(op.to_string(), "bad-op".into(), false);
        return;
    };
    let n = c.ids.len();
    let res = match run_impl_t(&c) {
        RanT::Ran(r) => r,
        RanT::NotThisTopology => {
            ctx.count("klt_not_this_topology");
            ctx.record(op.to_string(), "bad-op not-this-topology".into(), false);
            return;
        }
    };
    // the graph, independent of the order of the lists
    let mut srows = c.rows.clone();
    for r in srows.iter_mut() {
        r.sort();
    }
    let mut labels: Vec<usize> = c.ids.clone();
    labels.sort();
    labels.dedup();
    let two_way = labels.len() == 2;
    let mut symmetric = true;
    let mut positive = true;
    let mut nedges = 0;
    for (v, r) in srows.iter().enumerate() {
        for &(j, w) in r {
            positive &= w > 0 && j != v;
            nedges += 1;
            symmetric &= match srows[j].binary_search_by_key(&v, |e| e.0) {
                Ok(k) => srows[j][k].1 == w,
                Err(_) => false,
            };
        }
    }
    // The contract of the extra inputs: one vertex weight per vertex, none negative; an imbalance
    // limit, if given, is a non-negative number (or +inf).  Outside of it: counted, not judged.
    let mi = c.mi.map(f64::from_bits);
    let contract = c.vw.len() == n && c.vw.iter().all(|&w| w >= 0) && mi.map_or(true, |x| x >= 0.0);
    let in_scope = two_way && symmetric && positive && contract;
    let nontrivial = in_scope && nedges > 0;

    let mut verdict: Option<(&str, String)> = None;
    let out = match res {
        Caught::Ok((p, before, after, _)) => {
            let mut a = c.ids.clone();
            let mut b = p.clone();
            a.sort();
            b.sort();
            if !contract {
                ctx.count("klt_outside_contract_not_judged");
            } else if p.len() != n {
                verdict = Some(("kl-length", format!("{} ids in, {} out", n, p.len())));
            } else if a != b {
                verdict = Some((
                    "kl-part-sizes",
                    format!("label multiset changed: {} -> {} ({})", short(&c.ids), short(&p), c.topo.kind()),
                ));
            } else {
                let (cb, ca) = (tri_cut(&srows, &c.ids, true), tri_cut(&srows, &p, true));
                if ca > cb {
                    verdict = Some((
                        "kl-cut-increased",
                        format!(
                            "edge cut {} -> {} ({} -> {}) through {}, max_imbalance_per_flip {:?}, vertex weights {:?}",
                            cb,
                            ca,
                            short(&c.ids),
                            short(&p),
                            c.topo.kind(),
                            mi,
                            &c.vw[..c.vw.len().min(40)]
                        ),
                    ));
                } else if cb as f64 != before || ca as f64 != after {
                    verdict = Some((
                        "kl-edge-cut-value",
                        format!("edge_cut reports {} / {}, brute force {} / {} ({})", before, after, cb, ca, c.topo.kind()),
                    ));
                }
                if symmetric {
                    let up = tri_cut(&srows, &p, false);
                    if up != ca && verdict.is_none() {
                        verdict = Some(("kl-oracle-internal", format!("{} vs {}", up, ca)));
                    }
                }
                if p != c.ids {
                    ctx.count(if ca < cb { "moved_cut_lower" } else { "moved_cut_equal" });
                    ctx.count(&format!("klt_moved:{}", c.topo.kind()));
                } else {
                    ctx.count("unchanged");
                }
            }
            format!("ok {} {} | {}", before as i64, after as i64, join(&p))
        }
        Caught::Panic(m) => {
            if two_way && contract {
                verdict = Some(("panic", format!("{} [{}] ({})", m, panic_sig(&m), c.topo.kind())));
            }
            format!("panic {}", m)
        }
        Caught::Hang => {
            verdict = Some(("hang", format!("watchdog ({} s)", 60 + n / 40)));
            "hang".into()
        }
    };
    ctx.count(out.split(' ').next().unwrap_or(""));
    ctx.count(if in_scope { "in_scope" } else { "out_of_scope" });
    ctx.count(&format!("klt_topology:{}", c.topo.kind()));
    let idx = ctx.record(op.to_string(), out, nontrivial);
    if let Some((sig, what)) = verdict {
        ctx.fail(idx, sig, what);
    }
}

// ---- generators of the klt stream

const MI_VALUES: [f64; 10] = [0.0, 0.5, 1.0, 2.0, 2.5, 10.0, 999.0, 1e6, f64::MAX, f64::INFINITY];

fn random_mi(rng: &mut Rng) -> (&'static str, Option<u64>) {
    match rng.usize(8) {
        0 | 1 => ("none", None),
        2 => ("0", Some(0f64.to_bits())),
        3 | 4 => ("small", Some([0.5f64, 1.0, 2.0, 2.5, 3.0][rng.usize(5)].to_bits())),
        5 => ("medium", Some((rng.range(4, 1000) as f64 / 2.0).to_bits())),
        6 => ("large", Some([1e6, 1e15, f64::MAX, f64::INFINITY][rng.usize(4)].to_bits())),
        _ => ("random_small", Some((rng.range(0, 12) as f64 / 4.0).to_bits())),
    }
}

/// vertex weights for a given colouring (0/1 ids before relabelling)
fn random_vertex_weights(rng: &mut Rng, ids: &[usize]) -> (&'static str, Vec<i64>) {
    let n = ids.len();
    match rng.usize(9) {
        0 => ("unit", vec![1; n]),
        1 => ("uniform", vec![rng.range(2, 50); n]),
        2 | 3 => ("1..5", (0..n).map(|_| rng.range(1, 5)).collect()),
        4 => ("1..1000", (0..n).map(|_| rng.range(1, 1000)).collect()),
        5 => ("light_heavy", (0..n).map(|_| *rng.pick(&[1, 1, 100])).collect()),
        6 => {
            // one part light, the other heavy: every pair differs
            let (a, b) = (rng.range(1, 3), rng.range(10, 100));
            ("by_part", ids.iter().map(|&i| if i == 0 { a } else { b }).collect())
        }
        7 => {
            let mut v = vec![1; n];
            v[rng.usize(n)] = rng.range(2, 1000);
            ("one_heavy", v)
        }
        _ => ("with_zeros", (0..n).map(|_| rng.range(0, 3)).collect()),
    }
}

/// the order in which a user-defined topology lists the neighbours
fn reorder(rng: &mut Rng, rows: &mut Rows) -> &'static str {
    match rng.usize(4) {
        0 => "ascending",
        1 => {
            for r in rows.iter_mut() {
                r.reverse();
            }
            "descending"
        }
        2 => {
            for r in rows.iter_mut() {
                rng.shuffle(r);
            }
            "shuffled"
        }
        _ => {
            // larger neighbours first, each half ascending (what a mesh reader may produce)
            for (v, r) in rows.iter_mut().enumerate() {
                let (lo, hi): (Vec<_>, Vec<_>) = r.iter().partition(|e| e.0 < v);
                *r = hi.into_iter().chain(lo).collect();
            }
            "upper_first"
        }
    }
}

/// colourings of a grid (0/1): splits along an axis, perturbed splits, checkerboard, random
fn grid_colouring(rng: &mut Rng, dims: &[usize]) -> (&'static str, Vec<usize>) {
    let n: usize = dims.iter().product();
    let coord = |v: usize, a: usize| (v / dims[..a].iter().product::<usize>()) % dims[a];
    let axes: Vec<usize> = (0..dims.len()).filter(|&a| dims[a] >= 2).collect();
    let split = |rng: &mut Rng| -> Vec<usize> {
        let a = *rng.pick(&axes);
        let at = 1 + rng.usize(dims[a] - 1);
        (0..n).map(|v| usize::from(coord(v, a) >= at)).collect()
    };
    match rng.usize(6) {
        0 | 1 => ("axis_split", split(rng)),
        2 | 3 => {
            let mut v = split(rng);
            for _ in 0..1 + rng.usize(3) {
                let (a, b) = (rng.usize(n), rng.usize(n));
                v.swap(a, b);
            }
            ("axis_split_perturbed", v)
        }
        4 => ("checkerboard", (0..n).map(|v| (0..dims.len()).map(|a| coord(v, a)).sum::<usize>() % 2).collect()),
        _ => {
            let (_, v) = random_colouring(rng, n);
            ("other", v)
        }
    }
}

fn generate_topologies(ctx: &mut Ctx) {
    // ---- exhaustive: every graph on 4 vertices x every 2-colouring x vertex-weight patterns x
    //      max_imbalance values x limits; the topology type rotates over the four list-based ones
    let pairs: Vec<(usize, usize)> = (0..4).flat_map(|a| (a + 1..4).map(move |b| (a, b))).collect();
    let vws: [[i64; 4]; 4] = [[1, 1, 1, 1], [1, 2, 3, 4], [1, 100, 100, 1], [5, 1, 1, 1]];
    let mis: [Option<f64>; 5] = [None, Some(0.0), Some(1.0), Some(2.5), Some(1e9)];
    let lim: [(Option<usize>, Option<usize>, usize); 4] =
        [(None, None, 1), (None, None, 0), (Some(1), None, 2), (None, Some(1), 1)];
    let mut k = 0usize;
    for mask in 0u32..64 {
        let edges: Vec<_> = pairs
            .iter()
            .enumerate()
            .filter(|(k, _)| mask >> k & 1 == 1)
            .map(|(i, &(a, b))| (a, b, 1 + (i as i64 * 7 + mask as i64) % 3))
            .collect();
        let rows = from_edges(4, &edges);
        for col in 1u32..15 {
            let ids: Vec<usize> = (0..4).map(|i| (col >> i & 1) as usize).collect();
            for vw in &vws {
                for mi in &mis {
                    for &(mp, mf, mb) in &lim[..ctx.budget(2, 4)] {
                        k += 1;
                        let mut rows = rows.clone();
                        let topo = match k % 4 {
                            0 => Topo::CsView,
                            1 => Topo::CsRef,
                            2 => {
                                for r in rows.iter_mut() {
                                    r.reverse();
                                }
                                Topo::Custom(false)
                            }
                            _ => {
                                for r in rows.iter_mut() {
                                    r.reverse();
                                }
                                Topo::Custom(true)
                            }
                        };
                        ctx.count("klt_exhaustive_n4");
                        let c = TCase { topo, mi: mi.map(f64::to_bits), mp, mf, mb, vw: vw.to_vec(), ids: ids.clone(), rows };
                        run_op_t(ctx, &format_op_t(&c));
                    }
                }
            }
        }
    }

    // ---- exhaustive: small grids x every split along an axis (and, up to 9 / 12 cells, every
    //      2-colouring) x limits, through Grid / &Grid
    let mut shapes: Vec<Vec<usize>> = vec![];
    for w in 1..=4 {
        for h in 1..=4 {
            if w * h >= 2 {
                shapes.push(vec![w, h]);
            }
        }
    }
    for d in [[2, 2, 2], [3, 2, 2], [2, 3, 2], [2, 2, 3], [3, 3, 2], [2, 3, 3], [3, 3, 3], [4, 2, 1], [1, 2, 4], [4, 4, 2]] {
        shapes.push(d.to_vec());
    }
    let all_colourings_up_to = ctx.budget(9, 12);
    for dims in &shapes {
        let n: usize = dims.iter().product();
        let rows = grid_rows(dims);
        let mut cols: Vec<Vec<usize>> = vec![];
        for a in 0..dims.len() {
            let below: usize = dims[..a].iter().product();
            for at in 1..dims[a] {
                cols.push((0..n).map(|v| usize::from((v / below) % dims[a] >= at)).collect());
                cols.push((0..n).map(|v| usize::from((v / below) % dims[a] < at)).collect());
            }
        }
        let nsplit = cols.len();
        if n <= all_colourings_up_to {
            for col in 1u32..(1u32 << n) - 1 {
                cols.push((0..n).map(|i| (col >> i & 1) as usize).collect());
            }
        }
        for (ci, ids) in cols.iter().enumerate() {
            let full = ci < nsplit;
            for mf in [None, Some(1), Some(2), Some(3)] {
                for mb in 0..3 {
                    for mp in [None, Some(1)] {
                        if !full && (mf == Some(3) || mf == Some(1) || mb == 2 || mp.is_some()) {
                            continue;
                        }
                        k += 1;
                        let by_ref = k % 3 == 0;
                        let topo = if dims.len() == 2 {
                            Topo::Grid2(dims[0], dims[1], by_ref)
                        } else {
                            Topo::Grid3(dims[0], dims[1], dims[2], by_ref)
                        };
                        ctx.count(if full { "klt_grid_axis_splits" } else { "klt_grid_all_colourings" });
                        let c = TCase { topo, mi: None, mp, mf, mb, vw: vec![1; n], ids: ids.clone(), rows: rows.clone() };
                        run_op_t(ctx, &format_op_t(&c));
                    }
                }
            }
        }
    }

    // ---- random: grids of either dimension through every type that can carry them
    for _ in 0..ctx.budget(5_000, 60_000) {
        let dims: Vec<usize> = if ctx.rng.chance(1, 2) {
            let w = 1 + ctx.rng.usize(7);
            let h = if w == 1 { 2 + ctx.rng.usize(6) } else { 1 + ctx.rng.usize(7) };
            vec![w, h]
        } else {
            let mut d = vec![1 + ctx.rng.usize(4), 1 + ctx.rng.usize(4), 1 + ctx.rng.usize(4)];
            if d.iter().product::<usize>() < 2 {
                d[ctx.rng.usize(3)] = 2;
            }
            d
        };
        let n: usize = dims.iter().product();
        let mut rows = grid_rows(&dims);
        let (cshape, mut ids) = grid_colouring(&mut ctx.rng, &dims);
        if ids.iter().all(|&x| x == ids[0]) {
            ids[0] = 1 - ids[0];
        }
        let (mp, mut mf, mb) = random_limits(&mut ctx.rng, n);
        if ctx.rng.chance(1, 3) {
            mf = Some(1 + ctx.rng.usize(4));
        }
        let (mname, mi) = random_mi(&mut ctx.rng);
        let (wname, vw) = if ctx.rng.chance(1, 2) { ("unit", vec![1; n]) } else { random_vertex_weights(&mut ctx.rng, &ids) };
        let by_ref = ctx.rng.chance(1, 2);
        let topo = match ctx.rng.usize(6) {
            0 => {
                // the same graph as a matrix
                for r in rows.iter_mut() {
                    r.sort();
                }
                if by_ref { Topo::CsRef } else { Topo::CsView }
            }
            // the same graph, the same order of the lists, user-defined type
            1 => Topo::Custom(by_ref),
            _ if dims.len() == 2 => Topo::Grid2(dims[0], dims[1], by_ref),
            _ => Topo::Grid3(dims[0], dims[1], dims[2], by_ref),
        };
        relabel(&mut ctx.rng, &mut ids);
        ctx.count(&format!("klt_grid_colouring:{}", cshape));
        ctx.count(&format!("klt_max_imbalance:{}", mname));
        ctx.count(&format!("klt_vertex_weights:{}", wname));
        run_op_t(ctx, &format_op_t(&TCase { topo, mi, mp, mf, mb, vw, ids, rows }));
    }

    // ---- random: weighted symmetric graphs x topology type x list order x max_imbalance x
    //      vertex weights x limits
    let maxn = ctx.budget(12, 16);
    for i in 0..ctx.budget(9_000, 120_000) {
        let (shape, mut rows) = random_graph(&mut ctx.rng, maxn);
        let n = rows.len();
        let (_, mut ids) = random_colouring(&mut ctx.rng, n);
        let (mp, mf, mb) = random_limits(&mut ctx.rng, n);
        let (mname, mut mi) = random_mi(&mut ctx.rng);
        let (wname, mut vw) = random_vertex_weights(&mut ctx.rng, &ids);
        let topo = match ctx.rng.usize(5) {
            0 => Topo::CsView,
            1 => Topo::CsRef,
            2 | 3 => Topo::Custom(false),
            _ => Topo::Custom(true),
        };
        if let Topo::Custom(_) = topo {
            let o = reorder(&mut ctx.rng, &mut rows);
            ctx.count(&format!("klt_list_order:{}", o));
        }
        // a small share outside the contract of the extra inputs (counted, not judged)
        if i % 40 == 7 {
            match ctx.rng.usize(4) {
                0 => mi = Some(f64::NAN.to_bits()),
                1 => mi = Some((-1.0f64).to_bits()),
                2 => vw[0] = -3,
                _ => {
                    vw.truncate(ctx.rng.usize(n));
                }
            }
        }
        relabel(&mut ctx.rng, &mut ids);
        ctx.count(&format!("klt_graph:{}", shape));
        ctx.count(&format!("klt_max_imbalance:{}", mname));
        ctx.count(&format!("klt_vertex_weights:{}", wname));
        run_op_t(ctx, &format_op_t(&TCase { topo, mi, mp, mf, mb, vw, ids, rows }));
    }
    // every listed max_imbalance value at least once with every vertex-weight shape
    for x in MI_VALUES {
        for _ in 0..ctx.budget(20, 200) {
            let (_, mut rows) = random_graph(&mut ctx.rng, maxn);
            let n = rows.len();
            let (_, ids) = random_colouring(&mut ctx.rng, n);
            let (_, vw) = random_vertex_weights(&mut ctx.rng, &ids);
            let topo = if ctx.rng.chance(1, 2) { Topo::CsView } else { Topo::Custom(false) };
            if topo == Topo::Custom(false) {
                reorder(&mut ctx.rng, &mut rows);
            }
            ctx.count(&format!("klt_max_imbalance_value:{:e}", x));
            let c = TCase { topo, mi: Some(x.to_bits()), mp: None, mf: None, mb: 1 + ctx.rng.usize(2), vw, ids, rows };
            run_op_t(ctx, &format_op_t(&c));
        }
    }
    ctx.notes.push(
        "klt stream: the remaining inputs of the call are part of the case - max_imbalance_per_flip (None / 0 / small / large / inf), non-uniform vertex weights, and the type of the topology (CsMatView, &CsMatView, Grid<2>, &Grid<2>, Grid<3>, &Grid<3>, a user-defined Topology by value / by reference with ascending / descending / shuffled / upper-first neighbour lists); exhaustive on all 4-vertex graphs and on all axis splits of small grids".into(),
    );
}
