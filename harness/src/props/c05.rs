//! C05 — ArcSwap's accounting and caps hold under every thread interleaving.
//!
//! The real `coupe::ArcSwap` (vertex weights `i64`, edge weights `i64`, `sprs::CsMatView`)
//! runs under a CONTROLLED SCHEDULER built on `coupe::verif_hooks`: every worker blocks
//! before each shared-memory access of the move loop (lock CAS / load / store, part load /
//! store) and at task begin / end; exactly one worker is released at a time. The sequence
//! of released workers is the schedule, the sequence of accesses with the values read or
//! written is the trace.
//!
//! ops (tokens separated by blanks, sections by the token `;`):
//! * `ctl <n> <threads> <imb> ; <indptr> ; <indices> ; <data> ; <weights> ; <parts> ; <sched pass 1> ; <sched pass 2> ; …`
//!   replay of an explicit schedule (task ids). Entries naming a task that does not exist
//!   or has ended are skipped; when the list of a pass is exhausted the lowest unfinished
//!   task runs. `<imb>` = `none` | f64 bits in hex.
//!   out: `ok T=<thread_count> ipt=<items_per_thread> ids=<a,b,…> md=<9 counters> tr=<trace>`
//!   trace tokens: `P<pass>`, `<task>:B|E|C<v>+|C<v>-|L<v>=<0|1>|U<v>|R<v>=<p>|W<v>=<p>`.
//! * `seq <n> <imb> ; indptr ; indices ; data ; weights ; parts`  one worker, no observer.
//!   out: `ok ids=<…> md=<…>`
//! * `free <n> <threads> <imb> ; …` free-running threads, oracle only (the model declines).
//! * `gfree <n> <threads> <imb> <shape> <rowlen> <seed> <k> <pshape> <wmode>` LARGE / CORNER stream: the
//!   instance is generated from the tokens (`big_inst`), free-running threads, oracle only;
//!   out: `free md=<…> cut=<cut out> h=<hash of ids>` (the model answers `skip large-n (oracle only)`).
//! * `reuse <nA> <nB> <imb> ; A: 5 sections ; B: 5 sections` the SAME `ArcSwap` value partitions A then B in a
//!   1-worker pool; out = the result on B (`ok ids=… md=…`, the model answers with `runSeq` of B); the harness
//!   also compares with a fresh value on B.
//!
//! Oracle (independent of the model): valid ids, cut_out = cut_in - edge_cut_gain,
//! edge_cut_gain >= 0, load_out[p] <= max(load_in[p], cap), move_count >= #relabelled and,
//! from the trace, no two adjacent vertices validated-held / moved concurrently.

use crate::common::*;
use coupe::verif_hooks::{self as vh, Ev};
use coupe::Partition as _;
use std::cell::Cell;
use std::collections::{BTreeMap, BTreeSet};
use std::sync::mpsc;
use std::sync::{Arc, Condvar, Mutex};
use std::time::Duration;

// ------------------------------------------------------------------ instances

#[derive(Clone, Debug)]
struct Inst {
    n: usize,
    threads: usize,
    imb: Option<f64>,
    indptr: Vec<usize>,
    indices: Vec<usize>,
    data: Vec<i64>,
    weights: Vec<i64>,
    parts: Vec<usize>,
}

impl Inst {
    fn row(&self, v: usize) -> impl Iterator<Item = (usize, i64)> + '_ {
        (self.indptr[v]..self.indptr[v + 1]).map(move |k| (self.indices[k], self.data[k]))
    }
    fn body(&self) -> String {
        format!(
            "; {} ; {} ; {} ; {} ; {}",
            join(&self.indptr),
            join(&self.indices),
            join(&self.data),
            join(&self.weights),
            join(&self.parts)
        )
    }
    fn imb_tok(&self) -> String {
        match self.imb {
            None => "none".into(),
            Some(x) => format!("{:x}", x.to_bits()),
        }
    }
    fn ctl_op(&self, sched: &[Vec<usize>]) -> String {
        let mut s = format!("ctl {} {} {} {}", self.n, self.threads, self.imb_tok(), self.body());
        for p in sched {
            s.push_str(" ;");
            if !p.is_empty() {
                s.push(' ');
                s.push_str(&join(p));
            }
        }
        norm(&s)
    }
    fn seq_op(&self) -> String {
        norm(&format!("seq {} {} {}", self.n, self.imb_tok(), self.body()))
    }
    fn free_op(&self) -> String {
        norm(&format!("free {} {} {} {}", self.n, self.threads, self.imb_tok(), self.body()))
    }
    fn from_edges(
        n: usize,
        threads: usize,
        imb: Option<f64>,
        edges: &BTreeMap<(usize, usize), i64>,
        weights: Vec<i64>,
        parts: Vec<usize>,
    ) -> Inst {
        let mut indptr = vec![0usize];
        let mut indices = vec![];
        let mut data = vec![];
        for v in 0..n {
            for (&(a, b), &w) in edges.range((v, 0)..(v + 1, 0)) {
                debug_assert_eq!(a, v);
                indices.push(b);
                data.push(w);
            }
            indptr.push(indices.len());
        }
        Inst { n, threads, imb, indptr, indices, data, weights, parts }
    }
    fn symmetric(&self) -> bool {
        for v in 0..self.n {
            for (u, w) in self.row(v) {
                // rows are strictly increasing: binary search
                let (a, b) = (self.indptr[u], self.indptr[u + 1]);
                match self.indices[a..b].binary_search(&v) {
                    Ok(k) if self.data[a + k] == w => {}
                    _ => return false,
                }
            }
        }
        true
    }
    fn cut(&self, ids: &[usize]) -> i64 {
        let mut c = 0;
        for v in 0..self.n {
            for (u, w) in self.row(v) {
                if u < v && ids[u] != ids[v] {
                    c += w;
                }
            }
        }
        c
    }
}

fn norm(s: &str) -> String {
    s.split_whitespace().collect::<Vec<_>>().join(" ")
}

fn sections(op: &str) -> Vec<Vec<&str>> {
    let mut out = vec![vec![]];
    for t in op.split_whitespace() {
        if t == ";" {
            out.push(vec![]);
        } else {
            out.last_mut().unwrap().push(t);
        }
    }
    out
}

fn nums<T: std::str::FromStr>(v: &[&str]) -> Option<Vec<T>> {
    v.iter().map(|t| t.parse().ok()).collect()
}

fn parse_imb(t: &str) -> Option<Option<f64>> {
    if t == "none" {
        return Some(None);
    }
    if t.is_empty() || t.len() > 16 || !t.chars().all(|c| c.is_ascii_hexdigit()) {
        return None;
    }
    let x = f64::from_bits(u64::from_str_radix(t, 16).ok()?);
    if x.is_finite() && (0.0..=4.0).contains(&x) {
        Some(Some(x))
    } else {
        None
    }
}

/// Parse the instance part shared by the three op kinds. `head` = tokens of the
/// first section after the op name.
fn parse_inst(n: &str, threads: &str, imb: &str, secs: &[Vec<&str>], max_n: usize) -> Option<Inst> {
    let n: usize = n.parse().ok()?;
    let threads: usize = threads.parse().ok()?;
    let imb = parse_imb(imb)?;
    if n < 1 || n > max_n || threads < 1 || threads > 8 || secs.len() < 5 {
        return None;
    }
    let indptr: Vec<usize> = nums(&secs[0])?;
    let indices: Vec<usize> = nums(&secs[1])?;
    let data: Vec<i64> = nums(&secs[2])?;
    let weights: Vec<i64> = nums(&secs[3])?;
    let parts: Vec<usize> = nums(&secs[4])?;
    if indptr.len() != n + 1 || indptr[0] != 0 || indptr[n] != indices.len() || indices.len() != data.len() {
        return None;
    }
    if indptr.windows(2).any(|w| w[0] > w[1]) {
        return None;
    }
    for v in 0..n {
        let row = &indices[indptr[v]..indptr[v + 1]];
        if row.iter().any(|&j| j >= n) || row.windows(2).any(|w| w[0] >= w[1]) {
            return None;
        }
    }
    if data.iter().any(|w| w.abs() > 1000) {
        return None;
    }
    if weights.len() != n || weights.iter().any(|&w| !(0..=(1i64 << 61)).contains(&w)) {
        return None;
    }
    if weights.iter().map(|&w| w as i128).sum::<i128>() >= 1i128 << 62 {
        return None;
    }
    if parts.len() != n || parts.iter().any(|&p| p >= 1024) {
        return None;
    }
    Some(Inst { n, threads, imb, indptr, indices, data, weights, parts })
}

// ------------------------------------------------------------------ large / corner instances

const SHAPES: [&str; 8] = ["grid", "rand4", "star", "dstar", "complete", "bip3", "wheel", "hubs"];

/// Deterministic instance of the LARGE stream. `grid`: vertices numbered row by row, rows of `rowlen`
/// (the last row may be shorter); `rand4`: random graph of maximum degree 4. Parts: `pshape` 0 random,
/// 1 striped, 2 blocks of 4096 ids, 3 `k` contiguous blocks, 4 blocks of 8192 ids, 5 ninety percent in
/// part 0 (far above any cap). `wmode` bit 0: vertex weights 1..5 (else 1), bit 1: edge weights 1..5 (else 1).
fn big_inst(
    n: usize,
    threads: usize,
    imb: Option<f64>,
    shape: &str,
    rowlen: usize,
    seed: u64,
    k: usize,
    pshape: usize,
    wmode: usize,
) -> Inst {
    let mut rng = Rng::new(seed);
    let mut adj: Vec<Vec<(usize, i64)>> = vec![vec![]; n];
    let ew = |rng: &mut Rng| if wmode & 2 != 0 { rng.range(1, 5) } else { 1 };
    if shape == "grid" {
        let r = rowlen.max(1);
        for i in 0..n {
            if (i + 1) % r != 0 && i + 1 < n {
                let w = ew(&mut rng);
                adj[i].push((i + 1, w));
                adj[i + 1].push((i, w));
            }
            if r < n && i + r < n {
                let w = ew(&mut rng);
                adj[i].push((i + r, w));
                adj[i + r].push((i, w));
            }
        }
    } else if shape == "rand4" {
        for i in 0..n {
            for _ in 0..2 {
                let j = rng.usize(n);
                if j != i && adj[i].len() < 4 && adj[j].len() < 4 && !adj[i].iter().any(|e| e.0 == j) {
                    let w = ew(&mut rng);
                    adj[i].push((j, w));
                    adj[j].push((i, w));
                }
            }
        }
    } else {
        // HUB-HEAVY shapes (vertices of degree > 64)
        let mut es: BTreeSet<(usize, usize)> = BTreeSet::new();
        let mut add = |a: usize, b: usize| {
            if a != b && a < n && b < n {
                es.insert((a.min(b), a.max(b)));
            }
        };
        match shape {
            "star" => {
                let c = rng.usize(n);
                for i in 0..n {
                    add(c, i);
                }
            }
            "dstar" => {
                let (a, b) = (rng.usize(n), rng.usize(n));
                add(a, b);
                for i in 0..n {
                    match rng.usize(5) {
                        0 | 1 => add(a, i),
                        2 | 3 => add(b, i),
                        _ => {
                            add(a, i);
                            add(b, i)
                        }
                    }
                }
            }
            "complete" => {
                for i in 0..n {
                    for j in 0..i {
                        add(i, j);
                    }
                }
            }
            "bip3" => {
                for i in 3..n {
                    for h in 0..3 {
                        add(h, i);
                    }
                }
            }
            "wheel" => {
                for i in 1..n {
                    add(0, i);
                    add(i, if i + 1 < n { i + 1 } else { 1 });
                }
            }
            _ => {
                // "hubs": a sparse rest plus a few hubs of degree `rowlen` (65..600)
                for i in 0..n {
                    let j = rng.usize(n);
                    add(i, j);
                }
                let hubs = 1 + (seed % 4) as usize;
                let d = rowlen.clamp(65, 600).min(n.saturating_sub(1));
                for _ in 0..hubs {
                    let h = rng.usize(n);
                    let mut got = 0;
                    let mut tries = 0;
                    while got < d && tries < 20 * d {
                        let j = rng.usize(n);
                        tries += 1;
                        if j != h {
                            add(h, j);
                            got += 1;
                        }
                    }
                }
            }
        }
        for (a, b) in es {
            let w = ew(&mut rng);
            adj[a].push((b, w));
            adj[b].push((a, w));
        }
    }
    let mut indptr = vec![0usize];
    let mut indices = vec![];
    let mut data = vec![];
    for row in adj.iter_mut() {
        row.sort();
        for &(j, w) in row.iter() {
            indices.push(j);
            data.push(w);
        }
        indptr.push(indices.len());
    }
    let weights: Vec<i64> = (0..n).map(|_| if wmode & 1 != 0 { rng.range(1, 5) } else { 1 }).collect();
    let k = k.max(1);
    let parts: Vec<usize> = (0..n)
        .map(|i| match pshape {
            1 => i % k,
            2 => (i / 4096) % k,
            3 => (i * k / n).min(k - 1),
            4 => (i / 8192) % k,
            5 => {
                if rng.chance(9, 10) {
                    0
                } else {
                    rng.usize(k)
                }
            }
            _ => rng.usize(k),
        })
        .collect();
    Inst { n, threads, imb, indptr, indices, data, weights, parts }
}

fn gfree_op(n: usize, threads: usize, imb: Option<f64>, shape: &str, rowlen: usize, seed: u64, k: usize, pshape: usize, wmode: usize) -> String {
    let imb_tok = match imb {
        None => "none".to_string(),
        Some(x) => format!("{:x}", x.to_bits()),
    };
    format!("gfree {} {} {} {} {} {} {} {} {}", n, threads, imb_tok, shape, rowlen, seed, k, pshape, wmode)
}

fn parse_gfree(head: &[&str]) -> Option<Inst> {
    if head.len() != 10 {
        return None;
    }
    let n: usize = head[1].parse().ok()?;
    let threads: usize = head[2].parse().ok()?;
    let imb = parse_imb(head[3])?;
    let shape = head[4];
    let rowlen: usize = head[5].parse().ok()?;
    let seed: u64 = head[6].parse().ok()?;
    let k: usize = head[7].parse().ok()?;
    let pshape: usize = head[8].parse().ok()?;
    let wmode: usize = head[9].parse().ok()?;
    if n < 1 || n > 200_000 || threads < 1 || threads > 16 || !SHAPES.contains(&shape) || k < 1 || k > 4096 {
        return None;
    }
    if rowlen > 1_000_000 || pshape > 5 || wmode > 3 {
        return None;
    }
    if (shape == "complete" && n > 128) || (shape == "bip3" && n > 4096) {
        return None;
    }
    Some(big_inst(n, threads, imb, shape, rowlen, seed, k, pshape, wmode))
}

fn ids_hash(ids: &[usize]) -> u64 {
    let mut h = 0xcbf2_9ce4_8422_2325u64;
    for &x in ids {
        h = (h ^ x as u64).wrapping_mul(0x100_0000_01b3);
    }
    h
}

/// Two successive calls on ONE `ArcSwap` value (1-worker pool): returns the outcome of the second call.
fn run_reuse(a: &Inst, b: &Inst) -> Outcome {
    let (a, b) = (a.clone(), b.clone());
    let r = catch_timeout(60, move || {
        let mut algo = coupe::ArcSwap { max_imbalance: b.imb };
        let ma: coupe::sprs::CsMat<i64> = coupe::sprs::CsMat::new((a.n, a.n), a.indptr.clone(), a.indices.clone(), a.data.clone());
        let mb: coupe::sprs::CsMat<i64> = coupe::sprs::CsMat::new((b.n, b.n), b.indptr.clone(), b.indices.clone(), b.data.clone());
        let mut ia = a.parts.clone();
        let mut ib = b.parts.clone();
        with_pool(1, || {
            let _ = algo.partition(&mut ia, (ma.view(), &a.weights[..]));
            let r = algo.partition(&mut ib, (mb.view(), &b.weights[..]));
            (r, ib)
        })
    });
    match r {
        Caught::Ok((Ok(md), ids)) => Outcome::Ok(md_vals(&md), ids),
        Caught::Ok((Err(e), _)) => Outcome::Err(format!("{:?}", e)),
        Caught::Panic(m) => Outcome::Panic(m),
        Caught::Hang => Outcome::Hang,
    }
}

// ------------------------------------------------------------------ scheduler

thread_local! {
    static TASK: Cell<Option<usize>> = const { Cell::new(None) };
}

struct Node {
    enabled: Vec<(usize, Ev)>,
    sleep: BTreeSet<usize>,
    done: Vec<usize>,
    chosen: usize,
}

struct Explore {
    stack: Vec<Node>,
    depth: usize,
    blocked: bool,
    reduce: bool,
}

enum Policy {
    /// kind 0 uniform, 1 sticky, 2 round-robin-ish
    Random { rng: Rng, kind: u8, last: Option<usize> },
    Replay { sched: Vec<Vec<usize>>, cursor: usize, stuck: u32 },
    Explore(Explore),
}

struct St {
    expected: usize,
    begun: usize,
    ended: usize,
    ended_set: BTreeSet<usize>,
    waiting: BTreeMap<usize, Ev>,
    granted: Option<usize>,
    running: Option<usize>,
    policy: Policy,
    trace: Vec<(usize, Ev)>,
    sched: Vec<Vec<usize>>,
    anomalies: Vec<String>,
    abort: bool,
    t_count: usize,
    ipt: usize,
    force_tries: u32,
}

const PASS: usize = usize::MAX;

/// (array, index, is_write) of a pending blocking event; `None` = purely local.
fn access(ev: &Ev) -> Option<(u8, usize, bool)> {
    match *ev {
        Ev::LockCas(v) => Some((0, v, true)),
        Ev::LockStore(v, _) => Some((0, v, true)),
        Ev::LockLoad(v) => Some((0, v, false)),
        Ev::PartLoad(v) => Some((1, v, false)),
        Ev::PartStore(v, _) => Some((1, v, true)),
        _ => None,
    }
}

fn independent(a: &Ev, b: &Ev) -> bool {
    match (access(a), access(b)) {
        (Some((x, i, wa)), Some((y, j, wb))) => !(x == y && i == j && (wa || wb)),
        _ => true,
    }
}

impl St {
    fn anomaly(&mut self, s: &str) {
        if self.anomalies.len() < 8 {
            self.anomalies.push(s.to_string());
        }
    }

    /// Choose the next task to release, if the policy can decide now.
    fn dispatch(&mut self, force: bool) -> bool {
        if self.granted.is_some() || self.running.is_some() || self.waiting.is_empty() {
            return false;
        }
        if force {
            self.force_tries += 1;
        }
        // forced (partial) readiness would make the enabled set depend on timing: the
        // exhaustive search only accepts it after 5 s without progress
        let allow_force = force && (!matches!(self.policy, Policy::Explore(_)) || self.force_tries > 50);
        let ready = self.waiting.len() + self.ended == self.expected
            || (allow_force && self.begun > 0 && self.waiting.len() + self.ended == self.begun);
        let pass = self.sched.len().saturating_sub(1);
        let lowest = *self.waiting.keys().next().unwrap();
        let pick: Option<usize> = match &mut self.policy {
            Policy::Random { rng, kind, last } => {
                if !ready {
                    None
                } else {
                    let keys: Vec<usize> = self.waiting.keys().cloned().collect();
                    let t = match *kind {
                        1 => match *last {
                            Some(l) if keys.contains(&l) && rng.chance(8, 10) => l,
                            _ => keys[rng.usize(keys.len())],
                        },
                        2 => {
                            // next task after `last` in cyclic order, with a little noise
                            if rng.chance(1, 5) {
                                keys[rng.usize(keys.len())]
                            } else {
                                let l = last.unwrap_or(usize::MAX);
                                *keys.iter().find(|&&k| l == usize::MAX || k > l).unwrap_or(&keys[0])
                            }
                        }
                        _ => keys[rng.usize(keys.len())],
                    };
                    *last = Some(t);
                    Some(t)
                }
            }
            Policy::Replay { sched, cursor, stuck } => {
                let list: &[usize] = sched.get(pass).map(|v| &v[..]).unwrap_or(&[]);
                while *cursor < list.len()
                    && (list[*cursor] >= self.expected || self.ended_set.contains(&list[*cursor]))
                {
                    *cursor += 1;
                }
                if *cursor < list.len() {
                    let t = list[*cursor];
                    if self.waiting.contains_key(&t) {
                        *cursor += 1;
                        *stuck = 0;
                        Some(t)
                    } else if force && ready {
                        *stuck += 1;
                        if *stuck > 20 {
                            *stuck = 0;
                            *cursor += 1;
                            if self.anomalies.len() < 8 {
                                self.anomalies.push("sched-stuck".into());
                            }
                            Some(lowest)
                        } else {
                            None
                        }
                    } else {
                        None
                    }
                } else {
                    // default policy = the model's: the lowest task that has not ended runs; if it
                    // has not begun yet (late start-up under load) wait for it
                    match (0..self.expected).find(|t| !self.ended_set.contains(t)) {
                        Some(t) if self.waiting.contains_key(&t) => {
                            *stuck = 0;
                            Some(t)
                        }
                        Some(_) if force && ready => {
                            *stuck += 1;
                            if *stuck > 100 {
                                *stuck = 0;
                                if self.anomalies.len() < 8 {
                                    self.anomalies.push("sched-stuck".into());
                                }
                                Some(lowest)
                            } else {
                                None
                            }
                        }
                        _ => None,
                    }
                }
            }
            Policy::Explore(ex) => {
                if !ready {
                    None
                } else {
                    let enabled: Vec<(usize, Ev)> = self.waiting.iter().map(|(k, e)| (*k, *e)).collect();
                    let d = ex.depth;
                    ex.depth += 1;
                    if ex.blocked {
                        Some(lowest)
                    } else if d < ex.stack.len() {
                        let node = &ex.stack[d];
                        if node.enabled != enabled && self.anomalies.len() < 8 {
                            self.anomalies.push("explore-nondeterministic-replay".into());
                        }
                        Some(node.chosen)
                    } else {
                        let sleep: BTreeSet<usize> = if !ex.reduce || d == 0 {
                            BTreeSet::new()
                        } else {
                            let p = &ex.stack[d - 1];
                            let ev_of = |t: usize| p.enabled.iter().find(|(k, _)| *k == t).map(|(_, e)| *e);
                            let ce = ev_of(p.chosen).unwrap();
                            p.sleep
                                .iter()
                                .cloned()
                                .chain(p.done.iter().cloned())
                                .filter(|s| match ev_of(*s) {
                                    Some(e) => independent(&e, &ce),
                                    None => false,
                                })
                                .filter(|s| enabled.iter().any(|(k, _)| k == s))
                                .collect()
                        };
                        match enabled.iter().map(|(k, _)| *k).find(|k| !sleep.contains(k)) {
                            Some(t) => {
                                ex.stack.push(Node { enabled, sleep, done: vec![], chosen: t });
                                Some(t)
                            }
                            None => {
                                ex.blocked = true;
                                Some(lowest)
                            }
                        }
                    }
                }
            }
        };
        match pick {
            Some(t) => {
                self.granted = Some(t);
                self.force_tries = 0;
                true
            }
            None => false,
        }
    }
}

type Shared = Arc<(Mutex<St>, Condvar)>;

fn on_event(sh: &Shared, ev: Ev) {
    let (m, cv) = &**sh;
    let mut st = m.lock().unwrap();
    if st.abort {
        return;
    }
    match ev {
        Ev::PassBegin { pass, thread_count, items_per_thread } => {
            st.expected = thread_count;
            st.begun = 0;
            st.ended = 0;
            st.ended_set.clear();
            st.t_count = thread_count;
            st.ipt = items_per_thread;
            st.sched.push(vec![]);
            st.trace.push((PASS, ev));
            if let Policy::Replay { cursor, stuck, .. } = &mut st.policy {
                *cursor = 0;
                *stuck = 0;
            }
            if pass != st.sched.len() {
                st.anomaly("pass-number");
            }
            if !st.waiting.is_empty() || st.running.is_some() {
                st.anomaly("pass-begin-with-live-tasks");
            }
            return;
        }
        Ev::LockCasDone(..) | Ev::LockLoaded(..) | Ev::PartLoaded(..) => {
            let me = TASK.with(|t| t.get());
            if me.is_none() || st.running != me {
                st.anomaly("after-event-not-running");
            }
            st.trace.push((me.unwrap_or(PASS - 1), ev));
            return;
        }
        _ => {}
    }
    let me = match ev {
        Ev::TaskBegin(c) => {
            TASK.with(|t| t.set(Some(c)));
            c
        }
        _ => match TASK.with(|t| t.get()) {
            Some(t) => t,
            None => {
                st.anomaly("access-outside-task");
                return;
            }
        },
    };
    if st.running == Some(me) {
        st.running = None;
    }
    if let Ev::TaskBegin(_) = ev {
        st.begun += 1;
    }
    if st.waiting.insert(me, ev).is_some() {
        st.anomaly("task-waiting-twice");
    }
    if st.dispatch(false) {
        cv.notify_all();
    }
    loop {
        if st.abort {
            return;
        }
        if st.granted == Some(me) {
            break;
        }
        let (g, to) = cv.wait_timeout(st, Duration::from_millis(100)).unwrap();
        st = g;
        if to.timed_out() && !st.abort && st.granted != Some(me) && st.dispatch(true) {
            cv.notify_all();
        }
    }
    st.granted = None;
    st.running = Some(me);
    st.waiting.remove(&me);
    match ev {
        Ev::TaskBegin(_) | Ev::TaskEnd(_) | Ev::LockStore(..) | Ev::PartStore(..) => st.trace.push((me, ev)),
        _ => {}
    }
    if let Some(l) = st.sched.last_mut() {
        l.push(me);
    } else {
        st.anomaly("task-before-pass");
    }
    if let Ev::TaskEnd(_) = ev {
        st.ended += 1;
        st.ended_set.insert(me);
        st.running = None;
        TASK.with(|t| t.set(None));
        if st.dispatch(false) {
            cv.notify_all();
        }
    }
}

fn trace_string(trace: &[(usize, Ev)]) -> String {
    use std::fmt::Write as _;
    let mut s = String::new();
    for (i, (t, ev)) in trace.iter().enumerate() {
        if i > 0 {
            s.push(' ');
        }
        if let Ev::PassBegin { pass, .. } = ev {
            write!(s, "P{}", pass).unwrap();
            continue;
        }
        write!(s, "{}:", t).unwrap();
        match *ev {
            Ev::TaskBegin(_) => s.push('B'),
            Ev::TaskEnd(_) => s.push('E'),
            Ev::LockCasDone(v, ok) => write!(s, "C{}{}", v, if ok { '+' } else { '-' }).unwrap(),
            Ev::LockLoaded(v, b) => write!(s, "L{}={}", v, b as u8).unwrap(),
            Ev::LockStore(v, b) => write!(s, "{}{}", if b { 'X' } else { 'U' }, v).unwrap(),
            Ev::PartLoaded(v, p) => write!(s, "R{}={}", v, p).unwrap(),
            Ev::PartStore(v, p) => write!(s, "W{}={}", v, p).unwrap(),
            _ => s.push('?'),
        }
    }
    s
}

type Md = coupe::AsMetadata;

fn md_string(m: &MdVals) -> String {
    format!(
        "{},{},{},{},{},{},{},{},{}",
        m.gain, m.passes, m.attempts, m.moves, m.races, m.locked, m.nogain, m.badbal, m.vpt
    )
}

#[derive(Clone, Copy, Debug, PartialEq, Eq, PartialOrd, Ord)]
struct MdVals {
    gain: i64,
    passes: usize,
    attempts: usize,
    moves: usize,
    races: usize,
    locked: usize,
    nogain: usize,
    badbal: usize,
    vpt: usize,
}

fn md_vals(m: &Md) -> MdVals {
    MdVals {
        gain: m.edge_cut_gain,
        passes: m.pass_count,
        attempts: m.move_attempts,
        moves: m.move_count,
        races: m.race_count,
        locked: m.locked_count,
        nogain: m.no_gain_count,
        badbal: m.bad_balance_count,
        vpt: m.vertices_per_thread,
    }
}

enum Outcome {
    Ok(MdVals, Vec<usize>),
    Err(String),
    Panic(String),
    Hang,
}

/// Run the real ArcSwap on the instance in a pool of `inst.threads` workers
/// (helper thread + 10 s guard). `on_hang` is called when the guard fires.
fn run_real(inst: &Inst, on_hang: impl FnOnce()) -> Outcome {
    let (tx, rx) = mpsc::channel();
    let i2 = inst.clone();
    std::thread::Builder::new()
        .stack_size(16 << 20)
        .spawn(move || {
            let r = catch(move || {
                let mat: coupe::sprs::CsMat<i64> =
                    coupe::sprs::CsMat::new((i2.n, i2.n), i2.indptr.clone(), i2.indices.clone(), i2.data.clone());
                let mut ids = i2.parts.clone();
                let w = i2.weights.clone();
                let r = with_pool(i2.threads, || {
                    coupe::ArcSwap { max_imbalance: i2.imb }.partition(&mut ids, (mat.view(), &w[..]))
                });
                (r, ids)
            });
            let _ = tx.send(r);
        })
        .expect("spawn");
    let conv = |r: Caught<(Result<Md, coupe::Error>, Vec<usize>)>| match r {
        Caught::Ok((Ok(md), ids)) => Outcome::Ok(md_vals(&md), ids),
        Caught::Ok((Err(e), _)) => Outcome::Err(format!("{:?}", e)),
        Caught::Panic(m) => Outcome::Panic(m),
        Caught::Hang => Outcome::Hang,
    };
    // the cost of a run grows with vertices x parts (gain loop), hooks included
    let k = usize::max(8, 1 + inst.parts.iter().cloned().max().unwrap_or(0));
    let guard = 30 + (inst.n * k / 20_000) as u64;
    match recv_patient(&rx, guard) {
        Some(r) => conv(r),
        None => {
            on_hang();
            match recv_patient(&rx, 60) {
                Some(Caught::Panic(m)) => Outcome::Panic(m),
                Some(_) => Outcome::Hang,
                None => {
                    // the call is still running: the hooks keep the base addresses of the lock and
                    // partition arrays in globals, so no other ArcSwap call may start in this process
                    ZOMBIE.store(true, std::sync::atomic::Ordering::SeqCst);
                    Outcome::Hang
                }
            }
        }
    }
}

/// Set when an ArcSwap call had to be abandoned while still running (see `run_real`).
static ZOMBIE: std::sync::atomic::AtomicBool = std::sync::atomic::AtomicBool::new(false);

struct CtlRun {
    out: Outcome,
    trace: Vec<(usize, Ev)>,
    sched: Vec<Vec<usize>>,
    anomalies: Vec<String>,
    t_count: usize,
    ipt: usize,
    policy: Policy,
}

fn run_controlled(inst: &Inst, policy: Policy) -> CtlRun {
    let sh: Shared = Arc::new((
        Mutex::new(St {
            expected: 0,
            begun: 0,
            ended: 0,
            ended_set: BTreeSet::new(),
            waiting: BTreeMap::new(),
            granted: None,
            running: None,
            policy,
            trace: vec![],
            sched: vec![],
            anomalies: vec![],
            abort: false,
            t_count: 0,
            ipt: 0,
            force_tries: 0,
        }),
        Condvar::new(),
    ));
    let sh2 = sh.clone();
    vh::set_observer(Some(Box::new(move |ev| on_event(&sh2, ev))));
    let sh3 = sh.clone();
    let out = run_real(inst, move || {
        let (m, cv) = &*sh3;
        m.lock().unwrap().abort = true;
        cv.notify_all();
    });
    {
        // release anything still blocked (only after a hang / panic) before taking the
        // observer's write lock
        let (m, cv) = &*sh;
        let mut st = m.lock().unwrap();
        st.abort = true;
        cv.notify_all();
    }
    vh::set_observer(None);
    let (m, _) = &*sh;
    let mut st = m.lock().unwrap();
    CtlRun {
        out,
        trace: std::mem::take(&mut st.trace),
        sched: std::mem::take(&mut st.sched),
        anomalies: std::mem::take(&mut st.anomalies),
        t_count: st.t_count,
        ipt: st.ipt,
        policy: std::mem::replace(&mut st.policy, Policy::Replay { sched: vec![], cursor: 0, stuck: 0 }),
    }
}

fn ids_string(ids: &[usize]) -> String {
    ids.iter().map(|x| x.to_string()).collect::<Vec<_>>().join(",")
}

fn ctl_line(r: &CtlRun) -> String {
    match &r.out {
        Outcome::Ok(md, ids) => {
            let mut s = format!(
                "ok T={} ipt={} ids={} md={} tr={}",
                r.t_count,
                r.ipt,
                ids_string(ids),
                md_string(md),
                trace_string(&r.trace)
            );
            if !r.anomalies.is_empty() {
                s.push_str(" anomalies=");
                s.push_str(&r.anomalies.join(";"));
            }
            s
        }
        Outcome::Err(e) => format!("err {}", e),
        Outcome::Panic(m) => format!("panic {}", m),
        Outcome::Hang => "hang".into(),
    }
}

// ------------------------------------------------------------------ oracle

/// floor((1+imb)·total/part_count·(1+1e-9)) computed exactly; `None` if out of range.
fn exact_cap(imb: f64, total: i64, part_count: usize) -> Option<i64> {
    let bits = imb.to_bits();
    let exp = ((bits >> 52) & 0x7ff) as i64;
    let frac = bits & ((1u64 << 52) - 1);
    let (m, e) = if exp == 0 { (frac, -1074i64) } else { (frac | (1u64 << 52), exp - 1075) };
    // imb = m * 2^e
    let (num, den): (u128, u128) = if m == 0 {
        (total as u128, part_count as u128)
    } else if e >= 0 {
        if e > 10 {
            return None;
        }
        ((total as u128) * (1 + ((m as u128) << e)), part_count as u128)
    } else {
        let k = (-e) as u32;
        if k > 64 {
            return None;
        }
        ((total as u128) * ((1u128 << k) + m as u128), (part_count as u128) << k)
    };
    let num = num.checked_mul(1_000_000_001)?;
    let den = den.checked_mul(1_000_000_000)?;
    Some((num / den) as i64)
}

fn oracle(inst: &Inst, md: &MdVals, out: &[usize], trace: Option<&[(usize, Ev)]>) -> Vec<(&'static str, String)> {
    let mut v = vec![];
    let part_count = usize::max(2, 1 + inst.parts.iter().cloned().max().unwrap_or(0));
    if out.len() != inst.n || out.iter().any(|&p| p >= part_count) {
        v.push(("arcswap-invalid-id", format!("ids {:?} with {} parts", out, part_count)));
        return v;
    }
    let cin = inst.cut(&inst.parts);
    let cout = inst.cut(out);
    if cout != cin - md.gain {
        v.push((
            "arcswap-cut-accounting",
            format!("cut {} -> {} but edge_cut_gain = {}", cin, cout, md.gain),
        ));
    }
    if md.gain < 0 {
        v.push(("arcswap-negative-gain", format!("edge_cut_gain = {}", md.gain)));
    }
    // exact integers (i128): with `None` the cap is the heaviest input part, no slack at all
    let load = |ids: &[usize]| {
        let mut l = vec![0i128; part_count];
        for (i, &p) in ids.iter().enumerate() {
            l[p] += inst.weights[i] as i128;
        }
        l
    };
    let lin = load(&inst.parts);
    let lout = load(out);
    let total: i128 = lin.iter().sum();
    let cap: Option<i128> = match inst.imb {
        None => Some(*lin.iter().max().unwrap()),
        Some(x) if total < 1i128 << 53 => exact_cap(x, total as i64, part_count).map(|c| c as i128),
        Some(_) => None,
    };
    if let Some(cap) = cap {
        for p in 0..part_count {
            if lout[p] > i128::max(lin[p], cap) {
                v.push((
                    "arcswap-cap",
                    format!("part {} weighs {} > max(input {}, cap {})", p, lout[p], lin[p], cap),
                ));
                break;
            }
        }
    }
    let relabelled = out.iter().zip(&inst.parts).filter(|(a, b)| a != b).count();
    if md.moves < relabelled {
        v.push(("arcswap-move-count", format!("move_count {} < {} relabelled", md.moves, relabelled)));
    }
    if let Some(tr) = trace {
        // validated windows: task -> (vertex, validated?) while holding
        let adjacent = |a: usize, b: usize| a != b && (inst.row(a).any(|(x, _)| x == b) || inst.row(b).any(|(x, _)| x == a));
        let mut held: BTreeMap<usize, (usize, bool)> = BTreeMap::new();
        for (t, ev) in tr {
            match *ev {
                Ev::PassBegin { .. } => {
                    if !held.is_empty() {
                        v.push(("arcswap-lock-protocol", "lock held across a pass".into()));
                        held.clear();
                    }
                }
                Ev::LockCasDone(x, true) => {
                    if held.values().any(|(y, _)| *y == x) {
                        v.push(("arcswap-lock-protocol", format!("two holders of lock {}", x)));
                    }
                    held.insert(*t, (x, false));
                }
                Ev::PartLoaded(x, _) => {
                    // own part read after the neighbour-lock reads = validated
                    let mut newly = false;
                    if let Some(h) = held.get_mut(t) {
                        if h.0 == x && !h.1 {
                            h.1 = true;
                            newly = true;
                        }
                    }
                    if newly {
                        for (t2, (y, val)) in &held {
                            if t2 != t && *val && adjacent(x, *y) {
                                v.push((
                                    "arcswap-adjacent-concurrent",
                                    format!("tasks {} and {} hold adjacent vertices {} and {} validated", t, t2, x, y),
                                ));
                            }
                        }
                    }
                }
                Ev::PartStore(x, _) => {
                    match held.get(t) {
                        Some((y, true)) if *y == x => {}
                        _ => v.push(("arcswap-lock-protocol", format!("store to {} without validated lock", x))),
                    }
                    for (t2, (y, val)) in &held {
                        if t2 != t && *val && (adjacent(x, *y) || x == *y) {
                            v.push((
                                "arcswap-adjacent-concurrent",
                                format!("task {} moves {} while task {} holds neighbour {} validated", t, x, t2, y),
                            ));
                        }
                    }
                }
                Ev::LockStore(x, false) => match held.remove(t) {
                    Some((y, _)) if y == x => {}
                    _ => v.push(("arcswap-lock-protocol", format!("release of {} by a non-holder", x))),
                },
                _ => {}
            }
        }
        if !held.is_empty() {
            v.push(("arcswap-lock-protocol", "lock held at the end".into()));
        }
    }
    v.truncate(4);
    v
}

// ------------------------------------------------------------------ run_op

pub fn run_op(ctx: &mut Ctx, op: &str) {
    if ctx.hang_limit_reached() {
        return;
    }
    if ZOMBIE.load(std::sync::atomic::Ordering::SeqCst) {
        ctx.count("not_run_after_abandoned_call");
        return;
    }
    let secs = sections(op);
    let head = secs[0].clone();
    let kind = head.first().copied().unwrap_or("");
    let mut first: Option<Inst> = None; // `reuse`: the input of the first call
    let inst = match (kind, head.len()) {
        ("ctl", 4) => parse_inst(head[1], head[2], head[3], &secs[1..], 512),
        ("free", 4) => parse_inst(head[1], head[2], head[3], &secs[1..], 4096),
        ("seq", 3) => parse_inst(head[1], "1", head[2], &secs[1..], 20001),
        ("gfree", 10) if secs.len() == 1 => parse_gfree(&head),
        ("reuse", 4) if secs.len() == 11 => {
            first = parse_inst(head[1], "1", head[3], &secs[1..6], 4096);
            if first.is_some() {
                parse_inst(head[2], "1", head[3], &secs[6..], 4096)
            } else {
                None
            }
        }
        _ => None,
    };
    let sched: Option<Vec<Vec<usize>>> = if kind == "ctl" && secs.len() >= 6 {
        secs[6..].iter().map(|s| nums::<usize>(s)).collect()
    } else if secs.len() == 6 || kind == "gfree" || kind == "reuse" {
        Some(vec![])
    } else {
        None
    };
    let (Some(inst), Some(sched)) = (inst, sched) else {
        ctx.count("bad-op");
        ctx.record(op.to_string(), "bad-op".into(), false);
        return;
    };
    let sym = inst.symmetric();
    let nontrivial = inst.cut(&inst.parts) != 0;
    let mut verdicts: Vec<(&'static str, String)> = vec![];
    let line;
    match kind {
        "ctl" => {
            let r = run_controlled(&inst, Policy::Replay { sched, cursor: 0, stuck: 0 });
            line = ctl_line(&r);
            for a in &r.anomalies {
                ctx.count(&format!("anomaly:{}", a));
            }
            if let Outcome::Ok(md, ids) = &r.out {
                if sym {
                    verdicts = oracle(&inst, md, ids, Some(&r.trace));
                } else {
                    ctx.count("asymmetric_graph_oracle_skipped");
                }
                ctx.count("ctl_runs");
                *ctx.hist.entry("ctl_events".into()).or_insert(0) += r.trace.len() as u64;
                let sw = r.sched.iter().map(|p| p.windows(2).filter(|w| w[0] != w[1]).count()).sum::<usize>();
                *ctx.hist.entry("ctl_task_switches".into()).or_insert(0) += sw as u64;
                *ctx.hist.entry("ctl_moves".into()).or_insert(0) += md.moves as u64;
                *ctx.hist.entry("ctl_races".into()).or_insert(0) += md.races as u64;
                *ctx.hist.entry("ctl_locked".into()).or_insert(0) += md.locked as u64;
                *ctx.hist.entry("ctl_bad_balance".into()).or_insert(0) += md.badbal as u64;
                if md.races > 0 {
                    ctx.count("ctl_runs_with_race");
                }
                if md.locked > 0 {
                    ctx.count("ctl_runs_with_locked");
                }
                if md.passes > 2 {
                    ctx.count("ctl_runs_with_3+_passes");
                }
            }
            match &r.out {
                Outcome::Ok(..) => {}
                Outcome::Err(e) => verdicts.push(("arcswap-unexpected-error", e.clone())),
                Outcome::Panic(m) => verdicts.push(("panic", format!("{} [{}]", m, panic_sig(m)))),
                Outcome::Hang => verdicts.push(("hang", "10 s guard".into())),
            }
        }
        _ => {
            let out = if let Some(a) = &first { run_reuse(a, &inst) } else { run_real(&inst, || {}) };
            if let (Some(_), Outcome::Ok(md, ids)) = (&first, &out) {
                // same input => same output, whatever the value was used for before
                let mut one = inst.clone();
                one.threads = 1;
                ctx.count("reuse");
                match run_real(&one, || {}) {
                    Outcome::Ok(md2, ids2) if md2 == *md && ids2 == *ids => {}
                    _ => verdicts.push(("arcswap-history-dependent", "second call on a reused ArcSwap value differs from a fresh one".into())),
                }
            }
            match &out {
                Outcome::Ok(md, ids) => {
                    line = if kind == "seq" || kind == "reuse" {
                        format!("ok ids={} md={}", ids_string(ids), md_string(md))
                    } else if kind == "gfree" {
                        format!("free md={} cut={} h={:x}", md_string(md), inst.cut(ids), ids_hash(ids))
                    } else {
                        format!("free ids={} md={}", ids_string(ids), md_string(md))
                    };
                    if sym {
                        verdicts.extend(oracle(&inst, md, ids, None));
                    } else {
                        ctx.count("asymmetric_graph_oracle_skipped");
                    }
                    ctx.count(match kind {
                        "seq" => "seq_runs",
                        "reuse" => "reuse_runs",
                        "gfree" => "gfree_runs",
                        _ => "free_runs",
                    });
                    if kind == "gfree" {
                        *ctx.hist.entry("gfree_moves".into()).or_insert(0) += md.moves as u64;
                        *ctx.hist.entry("gfree_races".into()).or_insert(0) += md.races as u64;
                        *ctx.hist.entry("gfree_locked".into()).or_insert(0) += md.locked as u64;
                        *ctx.hist.entry("gfree_bad_balance".into()).or_insert(0) += md.badbal as u64;
                        let pc = usize::max(2, 1 + inst.parts.iter().cloned().max().unwrap_or(0));
                        let mut l = vec![0i64; pc];
                        for (i, &p) in inst.parts.iter().enumerate() {
                            l[p] += inst.weights[i];
                        }
                        let total: i64 = l.iter().sum();
                        if let Some(x) = inst.imb {
                            if let Some(cap) = exact_cap(x, total, pc) {
                                if l.iter().any(|&v| v > cap) {
                                    ctx.count("gfree_input_above_cap");
                                }
                            }
                        }
                    }
                    if kind == "free" {
                        *ctx.hist.entry("free_races".into()).or_insert(0) += md.races as u64;
                        *ctx.hist.entry("free_locked".into()).or_insert(0) += md.locked as u64;
                        *ctx.hist.entry("free_moves".into()).or_insert(0) += md.moves as u64;
                    }
                }
                Outcome::Err(e) => {
                    line = format!("err {}", e);
                    verdicts.push(("arcswap-unexpected-error", e.clone()));
                }
                Outcome::Panic(m) => {
                    line = format!("panic {}", m);
                    verdicts.push(("panic", format!("{} [{}]", m, panic_sig(m))));
                }
                Outcome::Hang => {
                    line = "hang".into();
                    verdicts.push(("hang", "10 s guard".into()));
                }
            }
        }
    }
    let idx = ctx.record(op.to_string(), line, nontrivial);
    for (sig, what) in verdicts {
        ctx.fail(idx, sig, what);
    }
}

// ------------------------------------------------------------------ generator

fn add_edge(e: &mut BTreeMap<(usize, usize), i64>, a: usize, b: usize, w: i64) {
    e.insert((a, b), w);
    e.insert((b, a), w);
}

const GRIDS: [(usize, usize); 5] = [(2, 2), (2, 3), (3, 3), (2, 4), (2, 5)];

/// Returns (n, edge set without weights yet, shape name).
fn gen_graph(rng: &mut Rng, max_n: usize) -> (usize, Vec<(usize, usize)>, &'static str) {
    let mut n = 2 + rng.usize(max_n - 1);
    let mut edges = vec![];
    let shape = match rng.usize(9) {
        0 => {
            for i in 0..n - 1 {
                edges.push((i, i + 1));
            }
            "path"
        }
        1 => {
            n = n.max(3);
            for i in 0..n {
                edges.push((i, (i + 1) % n));
            }
            "cycle"
        }
        2 => {
            let (a, b) = if max_n <= 10 {
                GRIDS[rng.usize(GRIDS.len())]
            } else {
                (2 + rng.usize(5), 2 + rng.usize(6))
            };
            n = a * b;
            for i in 0..a {
                for j in 0..b {
                    if j + 1 < b {
                        edges.push((i * b + j, i * b + j + 1));
                    }
                    if i + 1 < a {
                        edges.push((i * b + j, (i + 1) * b + j));
                    }
                }
            }
            "grid"
        }
        3 | 4 => {
            let p = 2 + rng.usize(6);
            for i in 0..n {
                for j in 0..i {
                    if rng.chance(p as u64, 10) {
                        edges.push((j, i));
                    }
                }
            }
            "random"
        }
        5 => {
            let c = rng.usize(n);
            for i in 0..n {
                if i != c {
                    edges.push((c, i));
                }
            }
            "star"
        }
        6 => {
            n = n.min(5);
            for i in 0..n {
                for j in 0..i {
                    edges.push((j, i));
                }
            }
            "complete"
        }
        7 => {
            // some isolated vertices
            for i in 0..n {
                for j in 0..i {
                    if i % 3 != 0 && j % 3 != 0 && rng.chance(1, 2) {
                        edges.push((j, i));
                    }
                }
            }
            "isolated"
        }
        _ => {
            n = n.max(4);
            let h = n / 2;
            for i in 0..h - 1 {
                edges.push((i, i + 1));
            }
            for i in h..n - 1 {
                edges.push((i, i + 1));
            }
            if h >= 3 && rng.chance(1, 2) {
                edges.push((0, h - 1));
            }
            "two-components"
        }
    };
    (n, edges, shape)
}

fn gen_inst(ctx: &mut Ctx, max_n: usize, free: bool) -> Inst {
    let (n, el, shape) = gen_graph(&mut ctx.rng, max_n);
    ctx.count(&format!("shape:{}", shape));
    let mut edges = BTreeMap::new();
    let wmode = ctx.rng.usize(100);
    if wmode >= 97 {
        ctx.count("negweights");
    }
    for (a, b) in el {
        if a == b {
            continue;
        }
        let w = if wmode < 10 {
            1
        } else if wmode >= 97 && ctx.rng.chance(1, 3) {
            -ctx.rng.range(1, 2)
        } else {
            ctx.rng.range(1, 5)
        };
        add_edge(&mut edges, a, b, w);
    }
    if ctx.rng.chance(1, 20) {
        ctx.count("self-loops");
        for _ in 0..1 + ctx.rng.usize(2) {
            let v = ctx.rng.usize(n);
            edges.insert((v, v), ctx.rng.range(1, 5));
        }
    }
    let zeros = ctx.rng.chance(1, 10);
    let weights: Vec<i64> = (0..n)
        .map(|_| if zeros && ctx.rng.chance(1, 3) { 0 } else { ctx.rng.range(1, 5) })
        .collect();
    let k = 2 + ctx.rng.usize(3);
    ctx.count(&format!("parts:{}", k));
    let pshape = ctx.rng.usize(20);
    let parts: Vec<usize> = match pshape {
        0..=6 => (0..n).map(|_| ctx.rng.usize(k)).collect(),
        7..=11 => (0..n).map(|i| i % k).collect(),
        12..=14 => (0..n).map(|i| (i * k / n).min(k - 1)).collect(),
        15 => vec![ctx.rng.usize(k); n],
        16 | 17 => {
            let mut p = vec![0; n];
            p[ctx.rng.usize(n)] = 1 + ctx.rng.usize(k - 1);
            p
        }
        18 => (0..n).map(|i| if i % 2 == 0 { 0 } else { k }).collect(), // id `1..k` unused
        _ => (0..n).map(|i| (i / 2) % k).collect(),
    };
    ctx.count(match pshape {
        0..=6 => "pshape:random",
        7..=11 => "pshape:striped",
        12..=14 => "pshape:blocks",
        15 => "pshape:all-same",
        16 | 17 => "pshape:one-off",
        18 => "pshape:unused-id",
        _ => "pshape:pairs",
    });
    let imb = match ctx.rng.usize(20) {
        0..=3 => None,
        4..=6 => Some(0.0),
        7..=9 => Some(0.1),
        10..=15 => Some(0.5),
        _ => Some(*ctx.rng.pick(&[0.25, 1.0, 2.0, 2.0])),
    };
    ctx.count(&format!("imb:{:?}", imb));
    let threads = if free {
        2 + ctx.rng.usize(7)
    } else {
        match ctx.rng.usize(20) {
            0 | 1 => 1,
            2 => 5 + ctx.rng.usize(4),
            _ => 2 + ctx.rng.usize(3),
        }
    };
    ctx.count(&format!("threads:{}", threads));
    Inst::from_edges(n, threads, imb, &edges, weights, parts)
}

fn tiny(n: usize, edges: &[(usize, usize)], parts: &[usize], imb: Option<f64>) -> Inst {
    let mut e = BTreeMap::new();
    for &(a, b) in edges {
        add_edge(&mut e, a, b, 1);
    }
    Inst::from_edges(n, 2, imb, &e, vec![1; n], parts.to_vec())
}

static EXPLORE_RETRIES: std::sync::atomic::AtomicUsize = std::sync::atomic::AtomicUsize::new(0);

/// Stateless DFS over scheduler choices (sleep sets when `reduce`). Calls `f` on every
/// complete non-redundant run; returns (runs, complete?).
fn explore(inst: &Inst, reduce: bool, cap: usize, mut f: impl FnMut(&CtlRun)) -> (usize, usize, bool) {
    let mut ex = Explore { stack: vec![], depth: 0, blocked: false, reduce };
    let mut runs = 0;
    let mut redundant = 0;
    let mut retries = 0;
    loop {
        ex.depth = 0;
        ex.blocked = false;
        let prefix = ex.stack.len();
        let r = run_controlled(inst, Policy::Explore(ex));
        runs += 1;
        // a scheduler anomaly (timing) is not an outcome of the implementation: retry the
        // same prefix, give up on the instance (reported as truncated) after 3 attempts;
        // a panic / hang / error is recorded and stops the search
        if matches!(r.out, Outcome::Ok(..)) && !r.anomalies.is_empty() {
            let Policy::Explore(mut e2) = r.policy else { unreachable!() };
            e2.stack.truncate(prefix);
            ex = e2;
            retries += 1;
            EXPLORE_RETRIES.fetch_add(1, std::sync::atomic::Ordering::Relaxed);
            if retries > 3 {
                return (runs, redundant, false);
            }
            continue;
        }
        retries = 0;
        let bad = !matches!(r.out, Outcome::Ok(..));
        let Policy::Explore(e2) = &r.policy else { unreachable!() };
        if e2.blocked {
            redundant += 1;
        } else {
            f(&r);
        }
        let Policy::Explore(e2) = r.policy else { unreachable!() };
        ex = e2;
        if bad {
            return (runs, redundant, false);
        }
        // backtrack
        loop {
            let Some(top) = ex.stack.last_mut() else {
                return (runs, redundant, true);
            };
            top.done.push(top.chosen);
            let next = top
                .enabled
                .iter()
                .map(|(k, _)| *k)
                .find(|k| !top.sleep.contains(k) && !top.done.contains(k));
            match next {
                Some(t) => {
                    top.chosen = t;
                    break;
                }
                None => {
                    ex.stack.pop();
                }
            }
        }
        if runs >= cap {
            return (runs, redundant, false);
        }
    }
}

/// LARGE / CORNER stream (size-gated and corner-gated code paths): big sparse graphs under
/// free-running threads (oracle only), `work_share` corners, part-count corners, mid-size
/// controlled runs and sequential model comparison, object reuse.
fn large_stream(ctx: &mut Ctx) {
    let imbs = [None, Some(0.0), Some(0.05)];
    let pools = [1usize, 2, 3, 5, 7, 16];
    let ks = [2usize, 3, 4, 5, 6, 7, 8, 64];
    // ---- big graphs, free-running, full oracle
    let mut sizes: Vec<usize> = vec![4097, 8193, 16385 + 37, 20001, 65537 + 11, 70001];
    if !ctx.quick() {
        sizes.extend([131_077, 140_003, 4097, 8193, 12_289, 20001, 32_769 + 5, 70001, 100_003]);
    }
    let reps = ctx.budget(1, 3);
    for rep in 0..reps {
        for (j, &n) in sizes.iter().enumerate() {
            let shape = SHAPES[(j + rep + ctx.rng.usize(2)) % 2];
            let rowlen = *ctx.rng.pick(&[4096usize, 8192, 64, 265, 1000, 1]);
            let threads = pools[(j + 2 * rep + ctx.rng.usize(6)) % 6];
            let imb = imbs[(j + rep) % 3];
            let mut k = ks[ctx.rng.usize(ks.len())];
            // block-aligned / pre-sorted id layouts as well as random ones
            let mut pshape = if imb.is_some() && ctx.rng.chance(1, 4) { 5 } else { ctx.rng.usize(5) };
            // the gain loop costs (vertices on the cut) x parts x degree: 64 parts with any layout up to
            // 8193 vertices, above on grids with block-aligned / contiguous layouts (short boundaries)
            let mut shape = shape;
            if (n == 65537 + 11 || (n <= 20_001 && j % 2 == 1)) && rep == 0 {
                k = 64;
            }
            if k == 64 && n > 9000 {
                if n > 70_001 {
                    k = 8;
                } else {
                    shape = "grid";
                    pshape = 2 + ctx.rng.usize(2);
                }
            }
            let wmode = ctx.rng.usize(4);
            let seed = ctx.rng.next() >> 1;
            ctx.count(&format!("large:n={}", n));
            ctx.count(&format!("large:pool={}", threads));
            ctx.count(&format!("large:shape={}", shape));
            ctx.count(&format!("large:pshape={}", pshape));
            ctx.count(&format!("large:parts={}", k));
            run_op(ctx, &gfree_op(n, threads, imb, shape, rowlen, seed, k, pshape, wmode));
        }
    }
    // ---- work_share corners: n < threads, n = threads + 1, n = threads*c + r (last chunk shorter)
    for &t in &pools[1..] {
        let mut ns = vec![t - 1, t + 1, 2 * t + 1, 100 * t + 1, 1000 * t + 2, 1000 * t + t - 1];
        if !ctx.quick() {
            ns.extend([3 * t + 2, 4096 * t + 1, 4096 * t - 1, 333 * t + 3]);
        }
        for n in ns {
            if n < 2 {
                continue;
            }
            let shape = SHAPES[ctx.rng.usize(2)];
            let rowlen = *ctx.rng.pick(&[1usize, 7, 64]);
            let imb = imbs[ctx.rng.usize(3)];
            let k = 2 + ctx.rng.usize(4);
            let seed = ctx.rng.next() >> 1;
            ctx.count("corner:workshare");
            let (ps, wm) = (ctx.rng.usize(4), ctx.rng.usize(4));
            run_op(ctx, &gfree_op(n, t, imb, shape, rowlen, seed, k, ps, wm));
        }
    }
    // ---- part-count corners
    // (the gain loop is O(parts * degree) per attempt: thousands of parts only on ~1000-4000 vertices)
    for &k in &[63usize, 64, 65, 128, 255, 256, 257, 1000, 4096] {
        if k == 4096 && ctx.quick() {
            continue;
        }
        let n = if k >= 1000 { k + 25 } else { 3001 };
        let threads = pools[ctx.rng.usize(6)];
        let seed = ctx.rng.next() >> 1;
        ctx.count(&format!("corner:parts={}", k));
        let (im, sh, ps) = (imbs[ctx.rng.usize(3)], SHAPES[ctx.rng.usize(2)], ctx.rng.usize(2));
        run_op(ctx, &gfree_op(n, threads, im, sh, 64, seed, k, ps, 1));
    }
    // ---- controlled scheduler on work_share corners (small) and two mid-size runs (default policy,
    //      exact trace comparison with the model: chunk boundaries, last chunk shorter)
    for &(n, t) in &[(4usize, 3usize), (5, 4), (3, 8), (7, 3), (9, 4), (10, 3), (7, 5), (9, 8), (2, 2), (3, 2)] {
        let mut e = BTreeMap::new();
        for i in 0..n - 1 {
            add_edge(&mut e, i, i + 1, ctx.rng.range(1, 3));
        }
        if n > 3 && ctx.rng.chance(1, 2) {
            add_edge(&mut e, 0, n - 1, 1);
        }
        let k = 2 + ctx.rng.usize(2);
        let parts: Vec<usize> = (0..n).map(|i| i % k).collect();
        let inst = Inst::from_edges(n, t, Some(*ctx.rng.pick(&[0.5, 2.0])), &e, vec![1; n], parts);
        let seed = ctx.rng.next();
        let d = run_controlled(&inst, Policy::Random { rng: Rng::new(seed), kind: 0, last: None });
        ctx.count("corner:ctl-workshare");
        run_op(ctx, &inst.ctl_op(&d.sched));
    }
    {
        // 64 parts (ids 0..63 spread over 10 vertices, most ids unused) under the controlled scheduler
        let n = 10;
        let mut e = BTreeMap::new();
        for i in 0..n - 1 {
            add_edge(&mut e, i, i + 1, 1);
        }
        let parts: Vec<usize> = (0..n).map(|i| (i * 7) % 64).chain(std::iter::once(63)).take(n).collect();
        let mut parts = parts;
        parts[n - 1] = 63;
        let inst = Inst::from_edges(n, 3, Some(2.0), &e, vec![1; n], parts);
        let seed = ctx.rng.next();
        let d = run_controlled(&inst, Policy::Random { rng: Rng::new(seed), kind: 1, last: None });
        ctx.count("corner:ctl-parts=64");
        run_op(ctx, &inst.ctl_op(&d.sched));
    }
    for &(n, t) in &[(257usize, 7usize), (300, 16 - 8)] {
        let seed = ctx.rng.next() >> 1;
        let (sh, ps) = (SHAPES[ctx.rng.usize(2)], ctx.rng.usize(2));
        let mut inst = big_inst(n, t, Some(0.5), sh, 16, seed, 3, ps, 3);
        inst.threads = t;
        ctx.count("corner:ctl-mid");
        run_op(ctx, &inst.ctl_op(&[]));
    }
    // ---- sequential model comparison at pool size 1, as large as the compiled driver handles in seconds
    //      (list-based model: 8193 vertices 0.7 s, 20001 vertices ~15 s, hence 20001 in the thorough tier only)
    let seq_sizes: &[usize] = if ctx.quick() { &[1025, 4097, 8193] } else { &[1025, 2049 + 3, 4097, 6001, 8193, 12_289, 16385 + 37, 20001] };
    for &n in seq_sizes {
        let seed = ctx.rng.next() >> 1;
        let k = 2 + ctx.rng.usize(2);
        let (im, sh, rl) = (imbs[ctx.rng.usize(3)], SHAPES[ctx.rng.usize(2)], *ctx.rng.pick(&[64usize, 4096, 1]));
        let (ps, wm) = (ctx.rng.usize(5), ctx.rng.usize(4));
        let inst = big_inst(n, 1, im, sh, rl, seed, k, ps, wm);
        ctx.count(&format!("large:seq-model n={}", n));
        run_op(ctx, &inst.seq_op());
    }
    // seq corners: 64 parts on 64..80 vertices; vertex weights near 2^37 (totals < 2^44: exact in f64, see the driver's floatOk)
    for c in 0..3 {
        let seed = ctx.rng.next() >> 1;
        let mut inst = big_inst(64 + 8 * c, 1, imbs[c % 3], SHAPES[c % 2], 8, seed, 64, c % 2, 3);
        if c == 2 {
            for w in inst.weights.iter_mut() {
                *w = (1i64 << 37) + ctx.rng.range(0, 1000);
            }
            ctx.count("corner:weights-2^37");
        }
        ctx.count("corner:seq-parts=64");
        run_op(ctx, &inst.seq_op());
    }
    // ---- reuse: the same ArcSwap value for two successive calls
    for c in 0..ctx.budget(4, 20) {
        let na = if c == 0 { 3001 } else { 2 + ctx.rng.usize(60) };
        let nb = if c == 1 { 2 } else { 2 + ctx.rng.usize(60) };
        let imb = imbs[c % 3];
        let (sa, sb) = (ctx.rng.next() >> 1, ctx.rng.next() >> 1);
        let (ka, pa, kb, pb) = (2 + ctx.rng.usize(6), ctx.rng.usize(4), 2 + ctx.rng.usize(3), ctx.rng.usize(4));
        let a = big_inst(na, 1, imb, SHAPES[c % 2], 8, sa, ka, pa, 3);
        let b = big_inst(nb, 1, imb, SHAPES[(c + 1) % 2], 5, sb, kb, pb, 3);
        let op = norm(&format!("reuse {} {} {} {} {}", na, nb, b.imb_tok(), a.body(), b.body()));
        run_op(ctx, &op);
    }
}

/// HUB-HEAVY graphs (vertices of degree 65..600: stars, double stars, K_66..K_100, K_{3,m}, wheels,
/// a few hubs on a sparse rest): (a) many short free-running runs with 16 / 8 threads, full oracle (cut
/// accounting is the detector of a stale gain); (b) controlled-scheduler runs on 66..100-vertex instances
/// with 2-3 workers under random schedules, whole trace compared with the model (the access ORDER of a
/// vertex must not depend on its degree).
fn hub_stream(ctx: &mut Ctx) {
    const HUBS: [&str; 6] = ["star", "dstar", "complete", "bip3", "wheel", "hubs"];
    let gen = |ctx: &mut Ctx, small: bool| -> (usize, &'static str, usize) {
        let shape = HUBS[ctx.rng.usize(6)];
        let n = match shape {
            "complete" => 66 + ctx.rng.usize(if small { 6 } else { 35 }),
            "bip3" => {
                if small {
                    70 + ctx.rng.usize(30)
                } else {
                    *ctx.rng.pick(&[203usize, 70, 150, 300])
                }
            }
            _ => {
                if small {
                    66 + ctx.rng.usize(35)
                } else {
                    66 + ctx.rng.usize(635)
                }
            }
        };
        let deg = 65 + ctx.rng.usize(if small { 30 } else { 536 });
        (n, shape, deg)
    };
    // (b) controlled scheduler, event-by-event comparison with the model
    for c in 0..ctx.budget(7, 40) {
        let (n, shape, deg) = gen(ctx, true);
        let shape = if c < 6 { HUBS[c] } else { shape };
        let n = if shape == "complete" { 66 + ctx.rng.usize(3) } else { n };
        let workers = 2 + ctx.rng.usize(2);
        let k = if shape == "complete" { 2 } else { 2 + ctx.rng.usize(3) };
        let imb = *ctx.rng.pick(&[Some(0.5), Some(2.0), None, Some(0.1)]);
        let (seed, wmode) = (ctx.rng.next() >> 1, ctx.rng.usize(4));
        let inst = big_inst(n, workers, imb, shape, deg, seed, k, 0, wmode);
        let (sseed, kind) = (ctx.rng.next(), ctx.rng.usize(3) as u8);
        let d = run_controlled(&inst, Policy::Random { rng: Rng::new(sseed), kind, last: None });
        ctx.count(&format!("hub:ctl:{}", shape));
        run_op(ctx, &inst.ctl_op(&d.sched));
    }
    // sequential model comparison on hub graphs
    for _ in 0..ctx.budget(6, 60) {
        let (n, shape, deg) = gen(ctx, false);
        let k = 2 + ctx.rng.usize(3);
        let imb = *ctx.rng.pick(&[Some(0.5), Some(2.0), None, Some(0.05)]);
        let (seed, wmode) = (ctx.rng.next() >> 1, ctx.rng.usize(4));
        let inst = big_inst(n, 1, imb, shape, deg, seed, k, 0, wmode);
        ctx.count(&format!("hub:seq:{}", shape));
        run_op(ctx, &inst.seq_op());
    }
    // (a) free-running stress
    for _ in 0..ctx.budget(1500, 20000) {
        let (n, shape, deg) = gen(ctx, false);
        let threads = if ctx.rng.chance(3, 4) { 16 } else { 8 };
        let k = 2 + ctx.rng.usize(3);
        let imb = *ctx.rng.pick(&[Some(0.5), Some(2.0), Some(1.0), None, Some(0.05)]);
        let (seed, wmode) = (ctx.rng.next() >> 1, ctx.rng.usize(4));
        ctx.count(&format!("hub:free:{}", shape));
        run_op(ctx, &gfree_op(n, threads, imb, shape, deg, seed, k, 0, wmode));
    }
}

/// HUGE vertex weights: a base weight B = 2^53..2^60 on a few vertices of every part plus small
/// offsets, light vertices around them, `max_imbalance: None` (the cap is the exact heaviest input part,
/// the rooms `max_pw - pw` are small integers: everything is exact in the clean code, the oracle has no
/// slack). 1-3 threads, every fourth case 4/8/16 (part weight x tasks beyond the range of i64, total below
/// 2^62); sequential and controlled runs are compared with the model.
fn huge_stream(ctx: &mut Ctx) {
    for c in 0..ctx.budget(14, 120) {
        let e = 53 + (c % 8) as u32;
        let b = 1i64 << e;
        // every fourth case: 4, 8 or 16 workers, so that part weight x tasks exceeds the range of
        // i64 although the total fits (the regime of K9, repaired in /repo 192ea31: the end-of-pass
        // merge must not form the sum of the tasks' arrays)
        let threads = if c % 4 == 3 { [4usize, 8, 16][(c / 4) % 3] } else { 1 + c % 3 };
        let k = 2 + ctx.rng.usize(2);
        // heavy vertices per part: the TOTAL must stay below 2^62 (the op parser's limit)
        let m_max = ((1i64 << 61) / b / k as i64).clamp(1, 3) as usize;
        let m = 1 + ctx.rng.usize(m_max);
        let light = 8 + ctx.rng.usize(24);
        let n = k * m + light;
        let mut weights = vec![0i64; n];
        let mut parts = vec![0usize; n];
        let mut order: Vec<usize> = (0..n).collect();
        ctx.rng.shuffle(&mut order);
        for (j, &v) in order.iter().enumerate() {
            if j < k * m {
                parts[v] = j % k;
                weights[v] = b + ctx.rng.range(0, 9);
            } else {
                parts[v] = ctx.rng.usize(k);
                weights[v] = ctx.rng.range(1, 8);
            }
        }
        let mut edges = BTreeMap::new();
        for i in 0..n {
            for _ in 0..2 {
                let j = ctx.rng.usize(n);
                if i != j {
                    add_edge(&mut edges, i, j, ctx.rng.range(1, 5));
                }
            }
        }
        let inst = Inst::from_edges(n, threads, None, &edges, weights, parts);
        ctx.count(&format!("corner:huge-weights 2^{}", e));
        if threads == 1 {
            run_op(ctx, &inst.seq_op());
        } else {
            if threads <= 8 {
                let sseed = ctx.rng.next();
                let d = run_controlled(&inst, Policy::Random { rng: Rng::new(sseed), kind: (c % 3) as u8, last: None });
                run_op(ctx, &inst.ctl_op(&d.sched));
            }
            run_op(ctx, &inst.free_op());
        }
    }
}

/// MANY-PASSES stream: runs that need tens to hundreds of PRODUCTIVE passes (a chain of `m + 1` parts
/// in which the balance cap lets exactly one vertex move per pass with one worker: part `j` holds an
/// anchor pinned by two friends and, for `j >= 1`, a mover whose only neighbour is the anchor of part
/// `j - 1`; movers are numbered so that mover `j` is visited before mover `j - 1`). Whatever the number
/// of passes, the reported gain must equal the cut reduction and the move count cover the relabelled
/// vertices (per-pass bookkeeping merged into the totals, pass limits, counters). One worker and a few
/// workers, `max_imbalance` None (cap = heaviest part). Oracle only (the model declines `free`).
fn many_passes_stream(ctx: &mut Ctx) {
    let ms: &[usize] = if ctx.quick() { &[7, 70, 300] } else { &[7, 70, 129, 257, 300, 520, 1030] };
    for &m in ms {
        for &threads in &[1usize, 3] {
            let v = |t: usize| m - t; // t in 1..=m
            let a = |j: usize| m + 3 * j; // j in 0..=m
            let n = m + 3 * (m + 1);
            let mut edges: BTreeMap<(usize, usize), i64> = BTreeMap::new();
            let mut parts = vec![0usize; n];
            let mut add = |u: usize, w: usize, edges: &mut BTreeMap<(usize, usize), i64>| {
                edges.insert((u, w), 1);
                edges.insert((w, u), 1);
            };
            for j in 0..=m {
                add(a(j), a(j) + 1, &mut edges);
                add(a(j), a(j) + 2, &mut edges);
                parts[a(j)] = j;
                parts[a(j) + 1] = j;
                parts[a(j) + 2] = j;
            }
            for t in 1..=m {
                add(v(t), a(t - 1), &mut edges);
                parts[v(t)] = t;
            }
            let inst = Inst::from_edges(n, threads, None, &edges, vec![1; n], parts);
            ctx.count(&format!("many_passes:m={}", m));
            run_op(ctx, &inst.free_op());
        }
    }
    ctx.notes.push("MANY-PASSES stream: chains of m+1 parts in which one worker can move exactly one vertex per pass (m = 7, 70, 300; thorough up to 1030), 1 and 3 workers, judged by the accounting oracle".to_string());
}

pub fn generate(ctx: &mut Ctx) {
    large_stream(ctx);
    many_passes_stream(ctx);
    hub_stream(ctx);
    huge_stream(ctx);
    // ---- controlled random schedules: discovery run, then recorded replay
    let n_ctl = ctx.budget(150, 5000);
    let mut done = 0;
    while done < n_ctl {
        let inst = gen_inst(ctx, 10, false);
        for _ in 0..3 {
            if done >= n_ctl {
                break;
            }
            done += 1;
            let kind = ctx.rng.usize(3) as u8;
            ctx.count(["policy:uniform", "policy:sticky", "policy:round-robin"][kind as usize]);
            let seed = ctx.rng.next();
            let d = run_controlled(&inst, Policy::Random { rng: Rng::new(seed), kind, last: None });
            let dline = ctl_line(&d);
            let op = inst.ctl_op(&d.sched);
            run_op(ctx, &op);
            let idx = ctx.ops.len() - 1;
            if ctx.impl_out[idx] == dline {
                ctx.count("replay_equals_discovery");
            } else {
                ctx.count("replay_differs_from_discovery");
                ctx.fail(idx, "scheduler-nondeterminism", format!("discovery run gave: {}", &dline[..dline.len().min(300)]));
            }
        }
    }
    // ---- default policy only (empty schedule) and partial schedules
    for _ in 0..ctx.budget(20, 300) {
        let inst = gen_inst(ctx, 10, false);
        let sched: Vec<Vec<usize>> = (0..ctx.rng.usize(3))
            .map(|_| (0..ctx.rng.usize(12)).map(|_| ctx.rng.usize(5)).collect())
            .collect();
        ctx.count("partial_schedule");
        run_op(ctx, &inst.ctl_op(&sched));
    }
    // ---- sequential instance
    for _ in 0..ctx.budget(150, 3000) {
        let inst = gen_inst(ctx, 40, false);
        run_op(ctx, &inst.seq_op());
    }
    // ---- exhaustive enumeration on tiny 2-worker instances
    let h = Some(0.5);
    let z = Some(0.0);
    let big = Some(2.0);
    let p3 = [(0, 1), (1, 2)];
    let p4 = [(0, 1), (1, 2), (2, 3)];
    let c4 = [(0, 1), (1, 2), (2, 3), (0, 3)];
    let tinies: Vec<(&str, Inst)> = vec![
        ("edge-01", tiny(2, &[(0, 1)], &[0, 1], None)),
        ("edge-01-imb2", tiny(2, &[(0, 1)], &[0, 1], big)),
        ("single-edge-imb2-reduced", tiny(2, &[(0, 1)], &[0, 1], big)),
        ("path3-010-imb2", tiny(3, &p3, &[0, 1, 0], big)),
        ("path3-012-imb2", tiny(3, &p3, &[0, 1, 2], big)),
        ("path4-0101-imb2", tiny(4, &p4, &[0, 1, 0, 1], big)),
        ("path4-0110-imb2", tiny(4, &p4, &[0, 1, 1, 0], big)),
        ("path4-0120-imb2", tiny(4, &p4, &[0, 1, 2, 0], big)),
        ("cycle4-0101-imb2", tiny(4, &c4, &[0, 1, 0, 1], big)),
        ("cycle4-0011-imb2", tiny(4, &c4, &[0, 0, 1, 1], big)),
        ("k4-0101-imb2", tiny(4, &[(0, 1), (0, 2), (0, 3), (1, 2), (1, 3), (2, 3)], &[0, 1, 0, 1], big)),
        ("star4-0111-imb2", tiny(4, &[(0, 1), (0, 2), (0, 3)], &[0, 1, 1, 1], big)),
        ("star4-c2-1011-imb2", tiny(4, &[(0, 2), (1, 2), (2, 3)], &[1, 0, 1, 1], big)),
        ("edge-01-imb.5", tiny(2, &[(0, 1)], &[0, 1], h)),
        ("path3-010", tiny(3, &[(0, 1), (1, 2)], &[0, 1, 0], None)),
        ("path3-010-imb.5", tiny(3, &[(0, 1), (1, 2)], &[0, 1, 0], h)),
        ("path3-011-imb0", tiny(3, &[(0, 1), (1, 2)], &[0, 1, 1], z)),
        ("path3-012-imb.5", tiny(3, &[(0, 1), (1, 2)], &[0, 1, 2], h)),
        ("path4-0101-imb.5", tiny(4, &[(0, 1), (1, 2), (2, 3)], &[0, 1, 0, 1], h)),
        ("path4-0011", tiny(4, &[(0, 1), (1, 2), (2, 3)], &[0, 0, 1, 1], None)),
        ("path4-0110-imb.5", tiny(4, &[(0, 1), (1, 2), (2, 3)], &[0, 1, 1, 0], h)),
        ("cycle4-0110-imb.5", tiny(4, &[(0, 1), (1, 2), (2, 3), (0, 3)], &[0, 1, 1, 0], h)),
        ("cycle4-0101", tiny(4, &[(0, 1), (1, 2), (2, 3), (0, 3)], &[0, 1, 0, 1], None)),
        ("tri-pendant-0102-imb.5", tiny(4, &[(0, 1), (1, 2), (0, 2), (2, 3)], &[0, 1, 0, 2], h)),
        ("triangle-011-imb.5", tiny(3, &[(0, 1), (1, 2), (0, 2)], &[0, 1, 1], h)),
    ];
    let total_cap = ctx.budget(12000, 150000);
    let per_inst = ctx.budget(1200, 20000);
    let mut total = 0usize;
    let (mut full, mut trunc, mut redundant_total) = (0, 0, 0);
    for (name, inst) in &tinies {
        if total >= total_cap {
            trunc += 1;
            continue;
        }
        let cap = per_inst.min(total_cap - total);
        let mut recs: Vec<(String, String, Vec<(usize, Ev)>, MdVals, Vec<usize>)> = vec![];
        let reduce = !name.starts_with("edge-01");
        let (runs, red, complete) = explore(inst, reduce, cap, |r| {
            if let Outcome::Ok(md, ids) = &r.out {
                recs.push((inst.ctl_op(&r.sched), ctl_line(r), r.trace.clone(), *md, ids.clone()));
            } else {
                recs.push((inst.ctl_op(&r.sched), ctl_line(r), vec![], MdVals { gain: 0, passes: 0, attempts: 0, moves: 0, races: 0, locked: 0, nogain: 0, badbal: 0, vpt: 0 }, vec![]));
            }
        });
        total += runs;
        redundant_total += red;
        if complete {
            full += 1;
        } else {
            trunc += 1;
        }
        *ctx.hist.entry(format!("exhaustive:{}{}{}", name, if reduce { "" } else { "(all schedules, no reduction)" }, if complete { "" } else { "(truncated)" })).or_insert(0) +=
            recs.len() as u64;
        for (k, (op, line, trace, md, ids)) in recs.into_iter().enumerate() {
            ctx.count("exhaustive_schedules");
            if k % 200 == 0 {
                // spot check: replaying the recorded op reproduces the same line
                run_op(ctx, &op);
                let idx = ctx.ops.len() - 1;
                ctx.count("exhaustive_replay_checked");
                if ctx.impl_out[idx] != line {
                    ctx.fail(idx, "scheduler-nondeterminism", format!("exploration run gave: {}", &line[..line.len().min(300)]));
                }
                continue;
            }
            let nontrivial = inst.cut(&inst.parts) != 0;
            let bad = !line.starts_with("ok ") || line.contains(" anomalies=");
            let idx = ctx.record(op, line, nontrivial);
            if bad {
                ctx.fail(idx, "explore-run-failed", ctx.impl_out[idx].chars().take(200).collect());
            } else {
                for (sig, what) in oracle(inst, &md, &ids, Some(&trace)) {
                    ctx.fail(idx, sig, what);
                }
            }
        }
    }
    // reduction cross-check on the smallest instance: same outcome set with and without sleep sets
    {
        let inst = &tinies[0].1;
        let cap = ctx.budget(200, 20000);
        let mut a = BTreeSet::new();
        let mut b = BTreeSet::new();
        let (r1, _, c1) = explore(inst, true, cap, |r| {
            if let Outcome::Ok(md, ids) = &r.out {
                a.insert((ids.clone(), *md));
            }
        });
        let (r2, _, c2) = explore(inst, false, cap, |r| {
            if let Outcome::Ok(md, ids) = &r.out {
                b.insert((ids.clone(), *md));
            }
        });
        *ctx.hist.entry("exhaustive_crosscheck_reduced_runs".into()).or_insert(0) += r1 as u64;
        *ctx.hist.entry("exhaustive_crosscheck_full_runs".into()).or_insert(0) += r2 as u64;
        if c1 && c2 {
            if a == b {
                ctx.count("exhaustive_full_vs_reduced_equal");
            } else {
                let idx = ctx.record(inst.ctl_op(&[]), "explore-crosscheck".into(), false);
                ctx.fail(idx, "explore-reduction-unsound", format!("{} outcomes with sleep sets, {} without", a.len(), b.len()));
            }
        } else if c1 && a.is_superset(&b) {
            ctx.count("exhaustive_full_truncated_subset_of_reduced");
        } else if c1 {
            let idx = ctx.record(inst.ctl_op(&[]), "explore-crosscheck".into(), false);
            ctx.fail(idx, "explore-reduction-unsound", "an outcome of the unreduced search is missing from the reduced one".into());
        }
    }
    let retried = EXPLORE_RETRIES.load(std::sync::atomic::Ordering::Relaxed);
    if retried > 0 {
        *ctx.hist.entry("exhaustive_runs_retried_after_scheduler_anomaly".into()).or_insert(0) += retried as u64;
    }
    ctx.notes.push(format!(
        "exhaustive: {} tiny 2-worker instances (n <= 4) fully enumerated up to commutation of independent accesses (sleep sets), {} instances truncated at the cap; {} runs, {} of them redundant (sleep-set blocked, not recorded)",
        full, trunc, total, redundant_total
    ));
    // ---- free-running threads, oracle only
    for _ in 0..ctx.budget(2000, 30000) {
        let inst = gen_inst(ctx, 64, true);
        run_op(ctx, &inst.free_op());
    }
    // ---- malformed stream
    for k in 0..ctx.budget(30, 200) {
        let mut inst = gen_inst(ctx, 6, false);
        let mut sched = String::new();
        let mut n_tok = inst.n.to_string();
        let mut th_tok = inst.threads.to_string();
        let mut imb_tok = inst.imb_tok();
        match k % 10 {
            0 => inst.parts.pop().map(|_| ()).unwrap_or(()),
            1 => inst.weights.push(1),
            2 => {
                if !inst.indices.is_empty() {
                    inst.indices[0] = inst.n
                } else {
                    inst.indptr.push(0)
                }
            }
            3 => n_tok = "0".into(),
            4 => th_tok = "0".into(),
            5 => imb_tok = "zz".into(),
            6 => {
                if inst.indices.len() >= 2 {
                    inst.indices.swap(0, 1);
                    if inst.indptr[1] < 2 {
                        inst.indptr[1] = 2.min(inst.indices.len());
                        for i in 2..inst.indptr.len() {
                            inst.indptr[i] = inst.indptr[i].max(inst.indptr[1]);
                        }
                    }
                } else {
                    inst.parts[0] = 5000
                }
            }
            7 => inst.weights[0] = -1,
            8 => sched = " ; 0 x 1".into(),
            _ => imb_tok = format!("{:x}", f64::NAN.to_bits()),
        }
        ctx.count("malformed");
        let op = norm(&format!("ctl {} {} {} {}{}", n_tok, th_tok, imb_tok, inst.body(), sched));
        run_op(ctx, &op);
    }
}
