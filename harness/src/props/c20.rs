//! C20 — contract violations are reported as errors before any output is written.
//!
//! op:  `<out|arr> <algo> <np> <p…> <nw> <w…> <npoints> <shape> <graph> <part_count> <iter_count> <tolerance f64 bits hex> <order>`
//!      algo ∈ rcb rib greedy kk ckk vnbest vnfirst fm arcswap hilbert2d hilbert3d; `p` = the caller's
//!      array before the call; weights are i64 (f64 for the Hilbert curve); `shape` selects the point set
//!      (0 generic, 1 all identical, 2 collinear); `graph` is the size of an edgeless `CsMat<i64>`.
//! out: `out` → `ok` | `err <Variant> [<fields>] untouched|modified` | `panic …`
//!      `arr` → `same` | `zeros` | `changed` | `panic …`   (array after the call vs. before)

use crate::common::*;
use coupe::rayon::iter::IntoParallelRefIterator as _;
use coupe::rayon::iter::ParallelIterator as _;
use coupe::Partition as _;
use coupe::{Point2D, Point3D};
use std::collections::HashSet;

const ALGOS: [&str; 11] = [
    "rcb", "rib", "greedy", "kk", "ckk", "vnbest", "vnfirst", "fm", "arcswap", "hilbert2d", "hilbert3d",
];
/// `MAX_ORDER` of the two HilbertCurve impls as the property states them
/// (independent of the translator: a changed constant shows up as a disagreement).
const MAX_ORDER_2D: u32 = 32;
const MAX_ORDER_3D: u32 = 21;

#[derive(Clone, Debug)]
struct Case {
    kind: String,
    algo: String,
    p: Vec<usize>,
    w: Vec<i64>,
    npts: usize,
    shape: usize,
    graph: usize,
    k: usize,
    iter: usize,
    tol: f64,
    order: u32,
}

impl Case {
    fn new(algo: &str, p: Vec<usize>, w: Vec<i64>) -> Case {
        Case {
            kind: "out".into(),
            algo: algo.into(),
            p,
            w,
            npts: 0,
            shape: 0,
            graph: 0,
            k: 2,
            iter: 1,
            tol: 0.05,
            order: 4,
        }
    }
    fn format(&self, kind: &str) -> String {
        format!(
            "{} {} {} {} {} {} {} {} {} {} {} {:x} {}",
            kind,
            self.algo,
            self.p.len(),
            join(&self.p),
            self.w.len(),
            join(&self.w),
            self.npts,
            self.shape,
            self.graph,
            self.k,
            self.iter,
            self.tol.to_bits(),
            self.order
        )
        .split_whitespace()
        .collect::<Vec<_>>()
        .join(" ")
    }
}

fn parse_op(op: &str) -> Option<Case> {
    let mut it = op.split_whitespace();
    let kind = it.next()?.to_string();
    if kind != "out" && kind != "arr" {
        return None;
    }
    let algo = it.next()?.to_string();
    if !ALGOS.contains(&algo.as_str()) {
        return None;
    }
    let np: usize = it.next()?.parse().ok()?;
    if np > 1 << 16 {
        return None;
    }
    let mut p = Vec::with_capacity(np);
    for _ in 0..np {
        p.push(it.next()?.parse().ok()?);
    }
    let nw: usize = it.next()?.parse().ok()?;
    if nw > 1 << 16 {
        return None;
    }
    let mut w = Vec::with_capacity(nw);
    for _ in 0..nw {
        w.push(it.next()?.parse().ok()?);
    }
    let npts: usize = it.next()?.parse().ok()?;
    let shape: usize = it.next()?.parse().ok()?;
    let graph: usize = it.next()?.parse().ok()?;
    let k: usize = it.next()?.parse().ok()?;
    let iter: usize = it.next()?.parse().ok()?;
    let tol = f64::from_bits(u64::from_str_radix(it.next()?, 16).ok()?);
    let order: u32 = it.next()?.parse().ok()?;
    if it.next().is_some() || npts > 1 << 16 || graph > 1 << 12 || k > 1 << 16 || iter > 8 {
        return None;
    }
    Some(Case { kind, algo, p, w, npts, shape, graph, k, iter, tol, order })
}

fn points2(n: usize, shape: usize) -> Vec<Point2D> {
    (0..n)
        .map(|j| match shape {
            1 => Point2D::new(1.0, 2.0),
            2 => Point2D::new(j as f64, 0.0),
            // finite coordinates whose squares overflow: the oriented bounding box of Rib panics on them
            // (finding K8); only generated with MISMATCHED lengths, where the frame must not be built
            3 => Point2D::new(if j % 2 == 0 { 1e200 } else { -1e200 }, j as f64),
            _ => Point2D::new(j as f64, ((j * j) % 5) as f64 + 0.25 * j as f64),
        })
        .collect()
}

fn points3(n: usize, shape: usize) -> Vec<Point3D> {
    (0..n)
        .map(|j| match shape {
            1 => Point3D::new(1.0, 2.0, 3.0),
            2 => Point3D::new(j as f64, 0.0, 0.0),
            _ => Point3D::new(j as f64, ((j * j) % 5) as f64 + 0.25 * j as f64, ((j * 3) % 4) as f64),
        })
        .collect()
}

enum Res {
    Ok,
    Err(coupe::Error),
    HErr(coupe::HilbertCurveError),
}

fn conv<M>(r: Result<M, coupe::Error>) -> Res {
    match r {
        Ok(_) => Res::Ok,
        Err(e) => Res::Err(e),
    }
}

/// Runs the real entry point on a copy of the array; returns the result and the array afterwards.
fn run_impl(c: &Case) -> (Caught<Res>, Vec<usize>) {
    run_impl_v(c, 0)
}

/// The weights of the iterator-taking algorithms (Greedy, KarmarkarKarp, CompleteKarmarkarKarp,
/// VnBest: `W: IntoIterator`) handed over as different but legal input TYPES for the same data:
/// 0 = `slice.iter().cloned()` (exact size hint), 1 = `.filter(|_| true)` (size hint `(0, Some(n))`),
/// 2 = `iter::from_fn` (size hint `(0, None)`), 3 = the `Vec` by value, 4 = `.chain(empty())`
/// behind `Box<dyn Iterator>`. The outcome must not depend on the type.
const ITER_VARIANTS: usize = 5;

fn weights_iter<'a>(w: &'a [i64], variant: usize) -> Box<dyn Iterator<Item = i64> + 'a> {
    match variant {
        1 => Box::new(w.iter().cloned().filter(|_| true)),
        2 => {
            let mut i = 0;
            Box::new(std::iter::from_fn(move || {
                let r = w.get(i).cloned();
                i += 1;
                r
            }))
        }
        3 => Box::new(w.to_vec().into_iter()),
        4 => Box::new(w.iter().cloned().chain(std::iter::empty())),
        _ => Box::new(w.iter().cloned()),
    }
}

fn run_impl_v(c: &Case, variant: usize) -> (Caught<Res>, Vec<usize>) {
    let mut p = c.p.clone();
    let w = c.w.clone();
    let r = {
        let p = &mut p[..];
        catch(move || match c.algo.as_str() {
            "rcb" => {
                let pts = points2(c.npts, c.shape);
                conv(
                    coupe::Rcb { iter_count: c.iter, tolerance: c.tol }
                        .partition(p, (pts.par_iter().cloned(), w.par_iter().cloned())),
                )
            }
            "rib" => {
                let pts = points2(c.npts, c.shape);
                conv(coupe::Rib { iter_count: c.iter, tolerance: c.tol }.partition(p, (&pts[..], w.par_iter().cloned())))
            }
            "greedy" => conv(coupe::Greedy { part_count: c.k }.partition(p, weights_iter(&w, variant))),
            "kk" => {
                // KarmarkarKarp asks for an ExactSizeIterator: the slice iterator or the Vec by value
                if variant == 3 {
                    conv(coupe::KarmarkarKarp { part_count: c.k }.partition(p, w.to_vec().into_iter()))
                } else {
                    conv(coupe::KarmarkarKarp { part_count: c.k }.partition(p, w.iter().cloned()))
                }
            }
            "ckk" => conv(coupe::CompleteKarmarkarKarp { tolerance: c.tol }.partition(p, weights_iter(&w, variant))),
            "vnbest" => conv(coupe::VnBest.partition(p, weights_iter(&w, variant))),
            "vnfirst" => conv(coupe::VnFirst.partition(p, &w[..])),
            "fm" => {
                let adj = coupe::sprs::CsMat::<i64>::zero((c.graph, c.graph));
                conv(
                    coupe::FiducciaMattheyses { max_passes: Some(2), ..Default::default() }
                        .partition(p, (adj.view(), &w[..])),
                )
            }
            "arcswap" => {
                let adj = coupe::sprs::CsMat::<i64>::zero((c.graph, c.graph));
                conv(coupe::ArcSwap { max_imbalance: None }.partition(p, (adj.view(), &w[..])))
            }
            "hilbert2d" => {
                let pts = points2(c.npts, c.shape);
                let wf: Vec<f64> = w.iter().map(|&x| x as f64).collect();
                match (coupe::HilbertCurve { part_count: c.k, order: c.order }).partition(p, (&pts[..], &wf)) {
                    Ok(()) => Res::Ok,
                    Err(e) => Res::HErr(e),
                }
            }
            _ => {
                let pts = points3(c.npts, c.shape);
                let wf: Vec<f64> = w.iter().map(|&x| x as f64).collect();
                match (coupe::HilbertCurve { part_count: c.k, order: c.order }).partition(p, (&pts[..], &wf)) {
                    Ok(()) => Res::Ok,
                    Err(e) => Res::HErr(e),
                }
            }
        })
    };
    (r, p)
}

/// The other inputs whose length the property compares with the array's, in no particular order.
fn other_lengths(c: &Case) -> Vec<usize> {
    match c.algo.as_str() {
        "rcb" | "rib" => vec![c.w.len(), c.npts],
        "fm" | "arcswap" => vec![c.w.len(), c.graph],
        "hilbert2d" | "hilbert3d" => vec![],
        _ => vec![c.w.len()],
    }
}

pub fn run_op(ctx: &mut Ctx, op: &str) {
    if ctx.hang_limit_reached() {
        return;
    }
    let Some(c) = parse_op(op) else {
        ctx.record(op.to_string(), "bad-op".into(), false);
        return;
    };
    let (res, p) = run_impl(&c);
    let p0 = &c.p;
    let n = p0.len();
    let touched = if &p == p0 { "untouched" } else { "modified" };

    if c.kind == "arr" {
        let out = match &res {
            Caught::Panic(m) => format!("panic {}", m),
            Caught::Hang => "hang".into(),
            Caught::Ok(_) => {
                if &p == p0 {
                    "same".to_string()
                } else if p.iter().all(|&x| x == 0) {
                    "zeros".to_string()
                } else {
                    "changed".to_string()
                }
            }
        };
        ctx.count(&format!("arr:{}", out.split(' ').next().unwrap_or("")));
        ctx.record(op.to_string(), out, false);
        return;
    }

    // ---- canonical line ------------------------------------------------------------
    let out = match &res {
        Caught::Ok(Res::Ok) => "ok".to_string(),
        Caught::Ok(Res::Err(coupe::Error::NotFound)) => format!("err NotFound {}", touched),
        Caught::Ok(Res::Err(coupe::Error::InputLenMismatch { expected, actual })) => {
            format!("err InputLenMismatch {} {} {}", expected, actual, touched)
        }
        Caught::Ok(Res::Err(coupe::Error::NegativeValues)) => format!("err NegativeValues {}", touched),
        Caught::Ok(Res::Err(coupe::Error::BiPartitioningOnly)) => format!("err BiPartitioningOnly {}", touched),
        Caught::Ok(Res::Err(e)) => format!("err other {:?} {}", e, touched),
        Caught::Ok(Res::HErr(coupe::HilbertCurveError::InvalidOrder { max, actual })) => {
            format!("err InvalidOrder {} {} {}", max, actual, touched)
        }
        Caught::Ok(Res::HErr(e)) => format!("err other {:?} {}", e, touched),
        Caught::Panic(m) => format!("panic {}", m),
        Caught::Hang => "hang".into(),
    };

    // ---- oracle: the property, stated on the inputs, independent of the model ----------
    let algo = c.algo.as_str();
    let hilbert = algo.starts_with("hilbert");
    let others = other_lengths(&c);
    let mismatching: Vec<usize> = others.iter().cloned().filter(|&l| l != n).collect();
    let max_id = p0.iter().cloned().max().unwrap_or(0);
    let negative = c.w.iter().any(|&x| x < 0);
    let max_order = if algo == "hilbert2d" { MAX_ORDER_2D } else { MAX_ORDER_3D };
    let mut verdict: Option<(String, String)> = None;
    let mut class = "valid";
    let panicked = matches!(res, Caught::Panic(_) | Caught::Hang);
    if hilbert {
        if c.order > max_order {
            class = "order-above-max";
            let good = matches!(&res, Caught::Ok(Res::HErr(coupe::HilbertCurveError::InvalidOrder { max, actual }))
                if *max == max_order && *actual == c.order);
            if !good {
                verdict = Some((format!("c20-invalid-order-not-reported:{}", algo), format!("order {} > {}: got `{}`", c.order, max_order, out)));
            } else if &p != p0 {
                verdict = Some((format!("c20-error-after-write:{}", algo), format!("InvalidOrder but the array changed: {:?} -> {:?}", p0, p)));
            }
        } else if c.npts != n || c.w.len() != n || c.k == 0 {
            // HilbertCurve has no length validation and the property claims none: not judged
            class = "outside-the-claim";
        } else if !matches!(&res, Caught::Ok(Res::Ok)) {
            verdict = Some((format!("c20-valid-input-rejected:{}", algo), format!("valid input, got `{}`", out)));
        }
    } else if !mismatching.is_empty() {
        class = "len-mismatch";
        let good = matches!(&res, Caught::Ok(Res::Err(coupe::Error::InputLenMismatch { expected, actual }))
            if *expected == n && mismatching.contains(actual));
        if panicked {
            verdict = Some((format!("c20-panic-on-mismatch:{}", algo), format!("array {} vs other inputs {:?}: `{}`", n, others, out)));
        } else if !good {
            verdict = Some((format!("c20-mismatch-not-reported:{}", algo), format!("array {} vs other inputs {:?}: got `{}`", n, others, out)));
        } else if &p != p0 {
            verdict = Some((format!("c20-error-after-write:{}", algo), format!("InputLenMismatch but the array changed: {:?} -> {:?}", p0, p)));
        }
    } else if algo == "fm" && max_id > 1 {
        class = "more-than-two-parts";
        if !matches!(&res, Caught::Ok(Res::Err(coupe::Error::BiPartitioningOnly))) {
            verdict = Some(("c20-bipart-not-reported:fm".into(), format!("max id {}: got `{}`", max_id, out)));
        } else if &p != p0 {
            verdict = Some(("c20-error-after-write:fm".into(), format!("BiPartitioningOnly but the array changed: {:?} -> {:?}", p0, p)));
        }
    } else if algo == "vnbest" && negative {
        class = "negative-weight";
        if !matches!(&res, Caught::Ok(Res::Err(coupe::Error::NegativeValues))) {
            verdict = Some(("c20-negative-not-reported:vnbest".into(), format!("weights {:?}: got `{}`", c.w, out)));
        } else if &p != p0 {
            verdict = Some(("c20-error-after-write:vnbest".into(), format!("NegativeValues but the array changed: {:?} -> {:?}", p0, p)));
        }
    } else {
        // nothing the property lists is violated
        let outside = (algo == "ckk" && n > 0 && !((c.w.iter().sum::<i64>() as f64 * c.tol).abs() < 9.0e18))
            || max_id == usize::MAX;
        if outside {
            // non-finite tolerance / an id of usize::MAX with otherwise valid input: not among the
            // violations the property lists; the model predicts the outcome, the oracle does not judge
            class = "outside-the-claim";
        } else {
            match &res {
                Caught::Ok(Res::Ok) => {
                    // shortcuts with a documented effect
                    let zeros = p.iter().all(|&x| x == 0);
                    if (algo == "greedy" && c.k < 2 || algo == "kk" && (c.k < 2 || n < 2)) && !zeros {
                        verdict = Some((format!("c20-single-part-not-written:{}", algo), format!("Ok but the array is {:?}", p)));
                    }
                }
                Caught::Ok(Res::Err(coupe::Error::NotFound)) if algo == "ckk" => {
                    if &p != p0 {
                        verdict = Some(("c20-error-after-write:ckk".into(), "NotFound but the array changed".into()));
                    }
                }
                _ => {
                    verdict = Some((format!("c20-valid-input-rejected:{}", algo), format!("valid input, got `{}`", out)));
                }
            }
        }
    }
    // input-type plumbing: the same weights through iterators of other types (inexact and
    // unbounded size hints among them) give the same outcome and the same array
    if verdict.is_none() && matches!(algo, "greedy" | "kk" | "ckk" | "vnbest") {
        let key = |r: &Caught<Res>| match r {
            Caught::Ok(Res::Ok) => "ok".to_string(),
            Caught::Ok(Res::Err(e)) => format!("err {:?}", e),
            Caught::Ok(Res::HErr(e)) => format!("err {:?}", e),
            Caught::Panic(_) => "panic".to_string(),
            Caught::Hang => "hang".to_string(),
        };
        for v in 1..ITER_VARIANTS {
            let (rv, pv) = run_impl_v(&c, v);
            ctx.count("iterator_variant_runs");
            if key(&rv) != key(&res) || pv != p {
                verdict = Some((
                    format!("c20-input-type-dependent:{}", algo),
                    format!("weights through iterator type {} give `{}` / {:?}, through slice.iter().cloned() `{}` / {:?}", v, key(&rv), pv, key(&res), p),
                ));
                break;
            }
        }
    }
    // in every class: an error never comes with a modified array
    if verdict.is_none() && out.starts_with("err") && &p != p0 {
        verdict = Some((format!("c20-error-after-write:{}", algo), format!("`{}`: {:?} -> {:?}", out, p0, p)));
    }

    ctx.count(&format!("class:{}", class));
    ctx.count(&format!("algo:{}", algo));
    ctx.count(&format!("out:{}", out.split(' ').take(2).filter(|t| !t.contains(':') && !t.contains('/')).collect::<Vec<_>>().join(" ")));
    let nontrivial = class != "valid" || n > 0;
    let idx = ctx.record(op.to_string(), out, nontrivial);
    if let Some((sig, what)) = verdict {
        ctx.fail(idx, &sig, what);
    }
}

// ------------------------------------------------------------------ generator

/// Initial contents of an array of length `n` whose maximum id is `m`: the maximum first,
/// and the maximum last over a cyclic filling.
fn arrays(n: usize, ms: &[usize]) -> Vec<Vec<usize>> {
    if n == 0 {
        return vec![vec![]];
    }
    let mut v: Vec<Vec<usize>> = Vec::new();
    for &m in ms {
        let mut a = vec![0; n];
        a[0] = m;
        let mut b: Vec<usize> = (0..n).map(|j| j % (m + 1)).collect();
        b[n - 1] = m;
        for x in [a, b] {
            if !v.contains(&x) {
                v.push(x);
            }
        }
    }
    v
}

fn emit(ctx: &mut Ctx, seen: &mut HashSet<String>, c: &Case) {
    let line = c.format("out");
    if !seen.insert(line.clone()) {
        return;
    }
    run_op(ctx, &line);
    run_op(ctx, &c.format("arr"));
}

pub fn generate(ctx: &mut Ctx) {
    let maxlen = if ctx.quick() { 3usize } else { 5 };
    let lens: Vec<usize> = (0..=maxlen).collect();
    let all_ids = [0usize, 1, 2, 3];
    let mut seen: HashSet<String> = HashSet::new();
    let ones = |n: usize| vec![1i64; n];

    for &n in &lens {
        // ---- Greedy, KarmarkarKarp: array x weights x part_count (0 is outside the contract)
        for p in arrays(n, &all_ids) {
            for &nw in &lens {
                let w: Vec<i64> = (1..=nw as i64).collect();
                for k in [0usize, 1, 2, 3] {
                    for algo in ["greedy", "kk"] {
                        let mut c = Case::new(algo, p.clone(), w.clone());
                        c.k = k;
                        emit(ctx, &mut seen, &c);
                    }
                }
                // ---- CompleteKarmarkarKarp: tolerance corners (NaN / inf: conversion panics)
                for tol in [0.0, 0.5, f64::NAN, f64::INFINITY] {
                    let mut ws = vec![vec![0i64; nw]];
                    if nw % 2 == 0 && nw > 0 {
                        ws.push(ones(nw));
                    }
                    for w in ws {
                        let mut c = Case::new("ckk", p.clone(), w);
                        c.tol = tol;
                        emit(ctx, &mut seen, &c);
                    }
                }
                // ---- VnBest, VnFirst: all zero / all one / a negative weight at every position
                let mut ws: Vec<Vec<i64>> = vec![vec![0; nw], ones(nw)];
                for j in 0..nw {
                    let mut w = ones(nw);
                    w[j] = -1;
                    ws.push(w);
                    let mut w = vec![0i64; nw];
                    w[j] = -3;
                    ws.push(w);
                }
                for w in ws {
                    for algo in ["vnbest", "vnfirst"] {
                        emit(ctx, &mut seen, &Case::new(algo, p.clone(), w.clone()));
                    }
                }
                // ---- FiducciaMattheyses, ArcSwap: x graph size
                for &g in &lens {
                    for algo in ["fm", "arcswap"] {
                        let mut c = Case::new(algo, p.clone(), ones(nw));
                        c.graph = g;
                        emit(ctx, &mut seen, &c);
                    }
                }
            }
        }
        // ---- Rcb, Rib: x weights x points (three shapes) x iter_count x tolerance
        for p in arrays(n, &[0, 3]) {
            for &nw in &lens {
                for &npts in &lens {
                    let shapes: &[usize] = if npts >= 2 { &[0, 1, 2] } else { &[0] };
                    for &shape in shapes {
                        for iter in [0usize, 1] {
                            for tol in [0.0, 0.05] {
                                for algo in ["rcb", "rib"] {
                                    let mut c = Case::new(algo, p.clone(), ones(nw));
                                    c.npts = npts;
                                    c.shape = shape;
                                    c.iter = iter;
                                    c.tol = tol;
                                    emit(ctx, &mut seen, &c);
                                    // a mismatch must be reported before anything is computed from the
                                    // points: the same case on a point set on which Rib's frame panics
                                    if shape == 0 && npts >= 2 && (nw != p.len() || npts != p.len()) {
                                        c.shape = 3;
                                        emit(ctx, &mut seen, &c);
                                    }
                                }
                            }
                        }
                    }
                }
            }
        }
        // ---- HilbertCurve
        for (algo, max) in [("hilbert2d", MAX_ORDER_2D), ("hilbert3d", MAX_ORDER_3D)] {
            let p = arrays(n, &[3]).pop().unwrap();
            // above the maximum: every combination of lengths
            // (also on degenerate point sets - all points identical, all on one axis, so that a 3-D
            // cloud is planar / collinear - and at the OTHER dimension's maximum and just above it:
            // the order test must not depend on the shape of the cloud nor be borrowed from 2-D)
            for order in [max + 1, MAX_ORDER_2D, MAX_ORDER_2D + 1, 64, u32::MAX] {
                if order <= max {
                    continue;
                }
                for &npts in &lens {
                    for &nw in &lens {
                        let shapes: &[usize] = if npts >= 2 { &[0, 1, 2] } else { &[0] };
                        for &shape in shapes {
                            let mut c = Case::new(algo, p.clone(), ones(nw));
                            c.npts = npts;
                            c.shape = shape;
                            c.order = order;
                            emit(ctx, &mut seen, &c);
                        }
                    }
                }
            }
            // acceptable orders: valid input in three shapes, and an empty array with any points
            for order in [0, 1, max] {
                let shapes: &[usize] = if n >= 2 { &[0, 1, 2] } else { &[0] };
                for &shape in shapes {
                    for k in [1usize, 2, 3] {
                        let mut c = Case::new(algo, p.clone(), ones(n));
                        c.npts = n;
                        c.shape = shape;
                        c.k = k;
                        c.order = order;
                        emit(ctx, &mut seen, &c);
                    }
                }
                if n == 0 {
                    for &npts in &lens {
                        let mut c = Case::new(algo, vec![], ones(npts));
                        c.npts = npts;
                        c.order = order;
                        emit(ctx, &mut seen, &c);
                    }
                } else {
                    // outside the claim (documented): no points for a non-empty array
                    let mut c = Case::new(algo, p.clone(), ones(n));
                    c.npts = 0;
                    c.order = order;
                    emit(ctx, &mut seen, &c);
                }
            }
        }
    }
    // ---- an id of usize::MAX (`1 + max` overflows)
    for p in [vec![usize::MAX], vec![0, usize::MAX]] {
        for nw in 0..=2usize {
            for algo in ["vnbest", "vnfirst", "fm", "arcswap"] {
                let mut c = Case::new(algo, p.clone(), ones(nw));
                c.graph = p.len();
                emit(ctx, &mut seen, &c);
            }
        }
    }
    ctx.notes.push(format!(
        "exhaustive grid: lengths 0..={} of the array and of every other input x array contents with maximum id 0..3 \
         (maximum first / last) x part_count 0..3 x iter_count 0/1 x tolerances x a negative weight at every position \
         x Hilbert orders {{0,1,max,max+1,64,u32::MAX}}; {} distinct cases, each run as `out` (variant) and `arr` (array state)",
        maxlen,
        seen.len()
    ));
}
