//! C12 — Greedy is LPT list scheduling; KarmarkarKarp is the differencing method.
//!
//! ops (`w` = integer weights in decimal, `p` = initial contents of the id array):
//! * `greedy <i64|f64> <k> <n> <w…> <m> <p…>`  (`f64`: the same integers, converted exactly with
//!   `as f64`, and Greedy runs on `Vec<f64>`)
//!   out: `ok <ids>` | `lenmismatch` | `panic …` | `err …`
//! * `greedyf <k> <n> <w… as f64 bit patterns, hex> <m> <p…>`: Greedy on `f64` weights whose sums
//!   are NOT exact (tenths, thirds, integers just above 2^53).  The integer model does not apply
//!   (its line is `skip`); the oracle recomputes LPT with the same `f64` additions in the same
//!   order and compares the multiset of loads bit for bit.
//!   out: `ok <ids>` | …
//! * `kk <k> <ids|loads> <n> <w…> <m> <p…>`
//!   out: `ok ids <ids>` | `ok loads <part loads, ascending>` | `lenmismatch` | `panic …` | `err …`
//!
//! Every op with matching lengths is run a second time on REUSED objects (an algorithm value that
//! already served another input, an id array left by a run with more parts) and, for 4096
//! weights or more, inside rayon pools of two different sizes: the answers must be identical.
//! Above the sizes the list-based Lean model can handle in a few seconds (`Driver/C12.lean`:
//! n > 21000, or n·k > 13000 for k-way KarmarkarKarp) the model line is `skip large-n` and the
//! oracle alone judges the case.
//!
//! Greedy and two-way KarmarkarKarp are deterministic (their sort/heap keys contain the index),
//! so ids are compared exactly.  k-way KarmarkarKarp (k ≥ 3) sorts the combined row by weight
//! only with an *unstable* sort: where two equal sums meet, the order is implementation-defined.
//! The generator classifies each k-way case with a value-level simulation (`kk_tie_sensitive`)
//! and asks for exact ids on the tie-insensitive cases and for the sorted loads (tie-invariant)
//! on the others.  `run_op` obeys the `cmp` field of the line.

use crate::common::*;
use coupe::Partition as _;
use std::collections::BinaryHeap;

/// usual initial filler of the id array: a cell the algorithm did not write stays visible, and
/// `1 - partition[a]` on such a cell overflows (overflow checks are on)
const FILL: usize = usize::MAX;

// ------------------------------------------------------------------ protocol

enum Op {
    Greedy { float: bool, k: usize, ws: Vec<i64>, p: Vec<usize> },
    GreedyF { k: usize, ws: Vec<f64>, p: Vec<usize> },
    Kk { k: usize, loads: bool, ws: Vec<i64>, p: Vec<usize> },
}

fn fmt_arrays(ws: &[i64], p: &[usize]) -> String {
    let mut s = format!("{}", ws.len());
    if !ws.is_empty() {
        s.push(' ');
        s.push_str(&join(ws));
    }
    s.push_str(&format!(" {}", p.len()));
    if !p.is_empty() {
        s.push(' ');
        s.push_str(&join(p));
    }
    s
}

fn greedy_op(float: bool, k: usize, ws: &[i64], p: &[usize]) -> String {
    format!("greedy {} {} {}", if float { "f64" } else { "i64" }, k, fmt_arrays(ws, p))
}

fn kk_op(k: usize, loads: bool, ws: &[i64], p: &[usize]) -> String {
    format!("kk {} {} {}", k, if loads { "loads" } else { "ids" }, fmt_arrays(ws, p))
}

fn greedyf_op(k: usize, ws: &[f64], p: &[usize]) -> String {
    let mut s = format!("greedyf {} {}", k, ws.len());
    for w in ws {
        s.push_str(&format!(" {:x}", w.to_bits()));
    }
    s.push_str(&format!(" {}", p.len()));
    if !p.is_empty() {
        s.push(' ');
        s.push_str(&join(p));
    }
    s
}

fn parse_arrays<'a>(it: &mut impl Iterator<Item = &'a str>) -> Option<(Vec<i64>, Vec<usize>)> {
    let n: usize = it.next()?.parse().ok()?;
    let mut ws = Vec::with_capacity(n.min(1 << 16));
    for _ in 0..n {
        ws.push(it.next()?.parse().ok()?);
    }
    let m: usize = it.next()?.parse().ok()?;
    let mut p = Vec::with_capacity(m.min(1 << 16));
    for _ in 0..m {
        p.push(it.next()?.parse().ok()?);
    }
    // like the model's parser: nothing may follow
    if it.next().is_some() {
        return None;
    }
    Some((ws, p))
}

fn parse_op(op: &str) -> Option<Op> {
    let mut it = op.split_whitespace();
    match it.next()? {
        "greedy" => {
            let float = match it.next()? {
                "i64" => false,
                "f64" => true,
                _ => return None,
            };
            let k: usize = it.next()?.parse().ok()?;
            let (ws, p) = parse_arrays(&mut it)?;
            if float && ws.iter().any(|w| w.unsigned_abs() >= 1 << 53) {
                return None;
            }
            Some(Op::Greedy { float, k, ws, p })
        }
        "greedyf" => {
            let k: usize = it.next()?.parse().ok()?;
            let n: usize = it.next()?.parse().ok()?;
            let mut ws = Vec::with_capacity(n.min(1 << 16));
            for _ in 0..n {
                let w = f64::from_bits(u64::from_str_radix(it.next()?, 16).ok()?);
                // the property's quantifier: non-negative finite weights
                if !w.is_finite() || w < 0.0 {
                    return None;
                }
                ws.push(w);
            }
            let m: usize = it.next()?.parse().ok()?;
            let mut p = Vec::with_capacity(m.min(1 << 16));
            for _ in 0..m {
                p.push(it.next()?.parse().ok()?);
            }
            if it.next().is_some() {
                return None;
            }
            Some(Op::GreedyF { k, ws, p })
        }
        "kk" => {
            let k: usize = it.next()?.parse().ok()?;
            let loads = match it.next()? {
                "ids" => false,
                "loads" => true,
                _ => return None,
            };
            let (ws, p) = parse_arrays(&mut it)?;
            Some(Op::Kk { k, loads, ws, p })
        }
        _ => None,
    }
}

// ------------------------------------------------------------------ tie classification (generator side)

/// Can the ids returned by k-way KarmarkarKarp on `ws` depend on how `sort_unstable_by` orders
/// equal sums?  Value-level simulation of `kk.rs: kk` (not a call into coupe): rows of
/// `(value, id)` with a side table `id -> real` ("this slot holds at least one real weight"),
/// the heap ordered like `BinaryHeap<Vec<(T, usize)>>`, the combined row sorted *stably*.
///
/// A tie is two entries of the combined row with equal value.  It is harmless iff both
/// entries are empty slots (`real == false`: exchanging them only renames two empty parts)
/// and the row's maximum is positive (so slot 0, which decides heap comparisons, is not one of
/// them).  Any other tie makes the case tie-sensitive.
///
/// Renaming empty slots is invisible as long as heap comparisons never look at a renamed id.
/// Rows are compared lexicographically and all ids are distinct, so a comparison looks at ids
/// only when two rows have the same slot-0 value, and then only at the slot-0 ids.  The
/// simulation therefore remembers which ids took part in a harmless tie (`renamed`) and also
/// answers "sensitive" when two rows of the heap have equal slot-0 values and one of the two
/// slot-0 ids is such an id (second component of the result; rare).
fn kk_tie_sensitive_why(ws: &[i64], k: usize) -> (bool, bool) {
    let n = ws.len();
    if k < 3 || n < 2 {
        return (false, false);
    }
    let mut real = vec![false; n * k];
    let mut renamed = vec![false; n * k];
    let mut heap: BinaryHeap<Vec<(i64, usize)>> = BinaryHeap::with_capacity(n);
    for (id, &w) in ws.iter().enumerate() {
        real[id] = true;
        heap.push((0..k).map(|p| (if p == 0 { w } else { 0 }, n * p + id)).collect());
    }
    while heap.len() >= 2 {
        // a heap comparison decided by a renamed id?
        let mut heads: Vec<(i64, bool)> = heap.iter().map(|r| (r[0].0, renamed[r[0].1])).collect();
        heads.sort_unstable();
        let mut i = 0;
        while i < heads.len() {
            let mut j = i;
            let mut any = heads[i].1;
            while j + 1 < heads.len() && heads[j + 1].0 == heads[i].0 {
                j += 1;
                any |= heads[j].1;
            }
            if j > i && any {
                return (true, true);
            }
            i = j + 1;
        }
        let a = heap.pop().unwrap();
        let b = heap.pop().unwrap();
        // e_i = a_i + b_{k-1-i}, keeps a's id
        let mut e: Vec<(i64, bool, usize)> = a
            .iter()
            .zip(b.iter().rev())
            .map(|(x, y)| (x.0 + y.0, real[x.1] || real[y.1], x.1))
            .collect();
        e.sort_by(|x, y| y.0.cmp(&x.0));
        let emax = e[0].0;
        for w in e.windows(2) {
            if w[0].0 == w[1].0 {
                if w[0].1 || w[1].1 || emax <= 0 {
                    return (true, false);
                }
                renamed[w[0].2] = true;
                renamed[w[1].2] = true;
            }
        }
        let emin = e[e.len() - 1].0;
        for x in &e {
            real[x.2] = x.1;
        }
        heap.push(e.iter().map(|x| (x.0 - emin, x.2)).collect());
    }
    (false, false)
}

fn kk_tie_sensitive(ws: &[i64], k: usize) -> bool {
    kk_tie_sensitive_why(ws, k).0
}

// ------------------------------------------------------------------ oracle helpers (independent of the model)

/// Loads of parts `0..k`; `None` if some id is `>= k`.
fn part_loads(ws: &[i64], ids: &[usize], k: usize) -> Option<Vec<i64>> {
    let mut l = vec![0i64; k];
    for (w, &i) in ws.iter().zip(ids) {
        if i >= k {
            return None;
        }
        l[i] += *w;
    }
    Some(l)
}

/// LPT list scheduling, recomputed naively: weights in non-increasing order, each to the first
/// currently lightest part.  (Any tie-breaking gives the same multiset of loads.)  Sorted.
fn lpt_loads(ws: &[i64], k: usize) -> Vec<i64> {
    let mut v = ws.to_vec();
    v.sort();
    v.reverse();
    let mut l = vec![0i64; k];
    for w in v {
        let mut best = 0;
        for j in 1..k {
            if l[j] < l[best] {
                best = j;
            }
        }
        l[best] += w;
    }
    l.sort();
    l
}

/// The number left after repeatedly replacing the two largest numbers by their difference.
fn residue(ws: &[i64]) -> i64 {
    let mut h: BinaryHeap<i64> = ws.iter().copied().collect();
    while h.len() >= 2 {
        let a = h.pop().unwrap();
        let b = h.pop().unwrap();
        h.push(a - b);
    }
    h.pop().unwrap_or(0)
}

// ------------------------------------------------------------------ run one op

type Verdict = Option<(&'static str, String)>;

/// What one run of an op reports back to `run_op`.
struct Ran {
    out: String,
    verdict: Verdict,
    nontrivial: bool,
    /// the reuse comparison was made
    reused: bool,
    /// pool sizes used (large cases only)
    pools: Option<(usize, usize)>,
}

pub fn run_op(ctx: &mut Ctx, op: &str) {
    if ctx.hang_limit_reached() {
        return;
    }
    let Some(parsed) = parse_op(op) else {
        ctx.record(op.to_string(), "bad-op".into(), false);
        return;
    };
    let r = match parsed {
        Op::Greedy { float, k, ws, p } => run_greedy(float, k, &ws, &p),
        Op::GreedyF { k, ws, p } => run_greedyf(k, &ws, &p),
        Op::Kk { k, loads, ws, p } => run_kk(k, loads, &ws, &p),
    };
    let kind = if op.starts_with("greedy") { "greedy" } else { "kk" };
    ctx.count(&format!("out_{}_{}", kind, r.out.split(' ').next().unwrap_or("")));
    if r.reused {
        ctx.count("reuse");
    }
    if let Some((a, b)) = r.pools {
        ctx.count(&format!("pool:{}", a));
        ctx.count(&format!("pool:{}", b));
    }
    let idx = ctx.record(op.to_string(), r.out, r.nontrivial);
    if let Some((sig, what)) = r.verdict {
        ctx.fail(idx, sig, what);
    }
}

// ------------------------------------------------------------------ pools and reuse

/// Large cases run inside rayon pools (Greedy and KarmarkarKarp are sequential today; a blocked
/// or parallel variant must not change the answer): the fresh run in a pool of `.0` workers, the
/// reuse run in a pool of `.1` workers.  Deterministic in the op.
fn pools_for(n: usize, k: usize) -> Option<(usize, usize)> {
    if n < 4096 {
        return None;
    }
    const T: [usize; 4] = [1, 2, 3, 16];
    let i = (n / 7 + k) % 4;
    Some((T[i], T[(i + 1 + k % 3) % 4]))
}

fn in_pool<T: Send>(threads: Option<usize>, f: impl FnOnce() -> T + Send) -> T {
    match threads {
        Some(t) => with_pool(t, f),
        None => f(),
    }
}

type Res = Result<(), coupe::Error>;

fn res_class(r: &Caught<Res>) -> String {
    match r {
        Caught::Ok(Ok(())) => "ok".into(),
        Caught::Ok(Err(e)) => format!("err {:?}", e),
        Caught::Panic(m) => format!("panic {}", m),
        Caught::Hang => "hang".into(),
    }
}

/// The reuse protocol, generic in the weight type.  `run(k, array, weights)` calls the algorithm
/// with a FRESH value; `run2(k, a1, w1, a2, w2)` calls ONE algorithm value on two inputs in a row.
/// 1. an id array is filled by a run with `k + 3` parts on another input (`other`);
/// 2. one algorithm value with `k` parts serves `other` (scratch array), then the real input on
///    the array left by step 1.
/// The outcome must be the one of the fresh run: same result, same ids.
fn reuse_differs<W: Clone>(
    k: usize,
    ws: &[W],
    other: &[W],
    p0: &[usize],
    fresh: &Caught<Res>,
    fresh_ids: &[usize],
    threads: Option<usize>,
    run: &(dyn Fn(usize, &mut [usize], Vec<W>) -> Res + Sync),
    run2: &(dyn Fn(usize, &mut [usize], Vec<W>, &mut [usize], Vec<W>) -> Res + Sync),
) -> Option<String>
where
    W: Send + Sync,
{
    let mut buf = p0.to_vec();
    let mut scratch = vec![0usize; p0.len()];
    let again: Caught<Res> = in_pool(threads, || {
        catch(|| {
            let _ = run(k + 3, &mut buf, other.to_vec());
            run2(k, &mut scratch, other.to_vec(), &mut buf, ws.to_vec())
        })
    });
    let (a, b) = (res_class(fresh), res_class(&again));
    if a != b {
        return Some(format!("fresh run: {} / reused objects: {}", a, b));
    }
    if matches!(fresh, Caught::Ok(Ok(()))) && buf != fresh_ids {
        let i = buf.iter().zip(fresh_ids).position(|(x, y)| x != y).unwrap_or(0);
        return Some(format!(
            "ids differ at index {} (fresh {}, reused objects {})",
            i,
            fresh_ids.get(i).copied().unwrap_or(0),
            buf.get(i).copied().unwrap_or(0)
        ));
    }
    None
}

/// Another input of the same length (used to give the reused objects a history).
fn other_i64(ws: &[i64]) -> Vec<i64> {
    ws.iter().rev().map(|w| w / 2 + 1).collect()
}

fn greedy_fresh<W: coupe::GreedyWeight>(k: usize, a: &mut [usize], w: Vec<W>) -> Res {
    coupe::Greedy { part_count: k }.partition(a, w)
}

fn greedy_twice<W: coupe::GreedyWeight>(
    k: usize,
    a1: &mut [usize],
    w1: Vec<W>,
    a2: &mut [usize],
    w2: Vec<W>,
) -> Res {
    let mut alg = coupe::Greedy { part_count: k };
    let _ = alg.partition(a1, w1);
    alg.partition(a2, w2)
}

fn kk_fresh(k: usize, a: &mut [usize], w: Vec<i64>) -> Res {
    coupe::KarmarkarKarp { part_count: k }.partition(a, w)
}

fn kk_twice(k: usize, a1: &mut [usize], w1: Vec<i64>, a2: &mut [usize], w2: Vec<i64>) -> Res {
    let mut alg = coupe::KarmarkarKarp { part_count: k };
    let _ = alg.partition(a1, w1);
    alg.partition(a2, w2)
}

/// Outcomes other than `Ok(Ok(()))`, shared by the three runners.
fn other_outcome(algo: &str, res: Caught<Res>, lens_match: bool) -> (String, Verdict) {
    let sig = |s: &str| -> &'static str {
        match (algo, s) {
            ("greedy", "spurious") => "greedy-spurious-lenmismatch",
            ("greedy", _) => "greedy-unexpected-error",
            (_, "spurious") => "kk-spurious-lenmismatch",
            _ => "kk-unexpected-error",
        }
    };
    match res {
        Caught::Ok(Ok(())) => unreachable!(),
        Caught::Ok(Err(coupe::Error::InputLenMismatch { .. })) => {
            let v = if lens_match {
                Some((sig("spurious"), "InputLenMismatch on matching lengths".to_string()))
            } else {
                None
            };
            ("lenmismatch".to_string(), v)
        }
        Caught::Ok(Err(e)) => (format!("err {:?}", e), Some((sig("error"), format!("{:?}", e)))),
        Caught::Panic(m) => {
            let s = panic_sig(&m);
            (format!("panic {}", m), Some(("panic", format!("{} [{}]", m, s))))
        }
        Caught::Hang => ("hang".into(), Some(("hang", "watchdog".into()))),
    }
}

fn run_greedy(float: bool, k: usize, ws: &[i64], p0: &[usize]) -> Ran {
    let lens_match = ws.len() == p0.len();
    let pools = if lens_match { pools_for(ws.len(), k) } else { None };
    let mut p = p0.to_vec();
    let wf: Vec<f64> = if float { ws.iter().map(|&w| w as f64).collect() } else { vec![] };
    let res: Caught<Res> = in_pool(pools.map(|t| t.0), || {
        if float {
            catch(|| greedy_fresh(k, &mut p, wf.clone()))
        } else {
            catch(|| greedy_fresh(k, &mut p, ws.to_vec()))
        }
    });
    let nontrivial = lens_match && ws.len() >= 2 && k >= 2;
    let mut reuse_verdict: Verdict = None;
    if lens_match {
        let other = other_i64(ws);
        let d = if float {
            let of: Vec<f64> = other.iter().map(|&w| w as f64).collect();
            reuse_differs(k, &wf, &of, p0, &res, &p, pools.map(|t| t.1), &greedy_fresh::<f64>, &greedy_twice::<f64>)
        } else {
            reuse_differs(k, ws, &other, p0, &res, &p, pools.map(|t| t.1), &greedy_fresh::<i64>, &greedy_twice::<i64>)
        };
        if let Some(d) = d {
            reuse_verdict = Some(("greedy-reuse-differs", d));
        }
    }
    let (out, verdict): (String, Verdict) = match res {
        Caught::Ok(Ok(())) => {
            let mut v = None;
            if !lens_match {
                v = Some(("greedy-len-mismatch-ok", "Ok despite a length mismatch".to_string()));
            } else if let Some(loads) = part_loads(ws, &p, k.max(1)) {
                if k < 2 {
                    if p.iter().any(|&i| i != 0) {
                        v = Some(("greedy-k1-not-zero", format!("part_count {} but ids {}", k, short(&p))));
                    }
                } else {
                    // holds for all integers, negative ones included
                    let mut got = loads;
                    got.sort();
                    let want = lpt_loads(ws, k);
                    if got != want {
                        v = Some((
                            "greedy-not-lpt",
                            format!("sorted loads {} but LPT gives {}", short(&got), short(&want)),
                        ));
                    }
                }
            } else {
                v = Some((
                    "greedy-id-out-of-range",
                    format!("an id >= {} in {}", k.max(1), short(&p)),
                ));
            }
            (format!("ok {}", join(&p)), v)
        }
        r => other_outcome("greedy", r, lens_match),
    };
    Ran { out, verdict: verdict.or(reuse_verdict), nontrivial, reused: lens_match, pools }
}

/// `{:?}` of a slice, shortened (large cases).
fn short<T: std::fmt::Debug>(xs: &[T]) -> String {
    if xs.len() <= 40 {
        format!("{:?}", xs)
    } else {
        format!("{:?}… ({} entries)", &xs[..40], xs.len())
    }
}

/// LPT on `f64` weights with exactly the additions Greedy makes: weights in non-increasing order
/// (equal weights are the same number, their order cannot matter), each added to a currently
/// lightest part (equally light parts hold the same number, the choice cannot matter for the
/// multiset).  Returns the sorted bit patterns of the loads.
fn lpt_loads_f64_bits(ws: &[f64], k: usize) -> Vec<u64> {
    let mut v = ws.to_vec();
    v.sort_by(|a, b| b.partial_cmp(a).unwrap());
    let mut l = vec![0.0f64; k];
    for w in v {
        let mut best = 0;
        for j in 1..k {
            if l[j] < l[best] {
                best = j;
            }
        }
        l[best] += w;
    }
    let mut bits: Vec<u64> = l.iter().map(|x| x.to_bits()).collect();
    bits.sort();
    bits
}

/// Loads of the implementation's ids, added up in the order Greedy adds them (non-increasing
/// weight).  `None` if an id is out of range.
fn part_loads_f64_bits(ws: &[f64], ids: &[usize], k: usize) -> Option<Vec<u64>> {
    let mut order: Vec<usize> = (0..ws.len()).collect();
    order.sort_by(|&a, &b| ws[b].partial_cmp(&ws[a]).unwrap());
    let mut l = vec![0.0f64; k];
    for i in order {
        if ids[i] >= k {
            return None;
        }
        l[ids[i]] += ws[i];
    }
    let mut bits: Vec<u64> = l.iter().map(|x| x.to_bits()).collect();
    bits.sort();
    Some(bits)
}

fn run_greedyf(k: usize, ws: &[f64], p0: &[usize]) -> Ran {
    let lens_match = ws.len() == p0.len();
    let pools = if lens_match { pools_for(ws.len(), k) } else { None };
    let mut p = p0.to_vec();
    let res: Caught<Res> = in_pool(pools.map(|t| t.0), || catch(|| greedy_fresh(k, &mut p, ws.to_vec())));
    let nontrivial = lens_match && ws.len() >= 2 && k >= 2;
    let mut reuse_verdict: Verdict = None;
    if lens_match {
        let other: Vec<f64> = ws.iter().rev().map(|w| w * 0.5 + 1.0).collect();
        if let Some(d) = reuse_differs(k, ws, &other, p0, &res, &p, pools.map(|t| t.1), &greedy_fresh::<f64>, &greedy_twice::<f64>) {
            reuse_verdict = Some(("greedy-reuse-differs", d));
        }
    }
    let (out, verdict): (String, Verdict) = match res {
        Caught::Ok(Ok(())) => {
            let mut v = None;
            if !lens_match {
                v = Some(("greedy-len-mismatch-ok", "Ok despite a length mismatch".to_string()));
            } else if let Some(got) = part_loads_f64_bits(ws, &p, k.max(1)) {
                if k < 2 {
                    if p.iter().any(|&i| i != 0) {
                        v = Some(("greedy-k1-not-zero", format!("part_count {} but ids {}", k, short(&p))));
                    }
                } else {
                    let want = lpt_loads_f64_bits(ws, k);
                    if got != want {
                        let i = got.iter().zip(&want).position(|(a, b)| a != b).unwrap_or(0);
                        v = Some((
                            "greedy-not-lpt",
                            format!(
                                "f64 loads differ from sequential LPT (same additions): {}-th smallest load {:e} vs {:e}",
                                i,
                                f64::from_bits(got[i]),
                                f64::from_bits(want[i])
                            ),
                        ));
                    }
                }
            } else {
                v = Some(("greedy-id-out-of-range", format!("an id >= {} in {}", k.max(1), short(&p))));
            }
            (format!("ok {}", join(&p)), v)
        }
        r => other_outcome("greedy", r, lens_match),
    };
    Ran { out, verdict: verdict.or(reuse_verdict), nontrivial, reused: lens_match, pools }
}

fn run_kk(k: usize, cmp_loads: bool, ws: &[i64], p0: &[usize]) -> Ran {
    let lens_match = ws.len() == p0.len();
    let pools = if lens_match { pools_for(ws.len(), k) } else { None };
    let mut p = p0.to_vec();
    let res: Caught<Res> = in_pool(pools.map(|t| t.0), || catch(|| kk_fresh(k, &mut p, ws.to_vec())));
    let n = ws.len();
    let nontrivial = lens_match && n >= 2 && k >= 2;
    let kk1 = k.max(1);
    let mut reuse_verdict: Verdict = None;
    if lens_match {
        let other = other_i64(ws);
        if let Some(d) = reuse_differs(k, ws, &other, p0, &res, &p, pools.map(|t| t.1), &kk_fresh, &kk_twice) {
            reuse_verdict = Some(("kk-reuse-differs", d));
        }
    }
    let (out, verdict): (String, Verdict) = match res {
        Caught::Ok(Ok(())) => {
            let mut v = None;
            if !lens_match {
                v = Some(("kk-len-mismatch-ok", "Ok despite a length mismatch".to_string()));
            } else if let Some(loads) = part_loads(ws, &p, kk1) {
                if k < 2 || n < 2 {
                    if p.iter().any(|&i| i != 0) {
                        v = Some((
                            "kk-trivial-not-zero",
                            format!("part_count {} / {} weights but ids {}", k, n, short(&p)),
                        ));
                    }
                } else {
                    let hi = *loads.iter().max().unwrap();
                    let lo = *loads.iter().min().unwrap();
                    if k == 2 {
                        // holds for all integers
                        let r = residue(ws);
                        if (loads[0] - loads[1]).abs() != r {
                            v = Some((
                                "kk2-diff-not-residue",
                                format!("loads {} / {} but the differencing residue is {}", loads[0], loads[1], r),
                            ));
                        }
                    }
                    if v.is_none() && ws.iter().all(|&w| w >= 0) {
                        let wmax = *ws.iter().max().unwrap();
                        if hi - lo > wmax {
                            v = Some((
                                "kk-gap-exceeds-max",
                                format!("loads {}: gap {} > largest weight {}", short(&loads), hi - lo, wmax),
                            ));
                        }
                    }
                }
            } else {
                v = Some(("kk-id-out-of-range", format!("an id >= {} in {}", kk1, short(&p))));
            }
            let out = if cmp_loads {
                // tie-invariant observable: loads of parts 0..max(k,1), ascending; ids out of
                // range are left out of the sums (flagged above)
                let mut l = vec![0i64; kk1];
                for (w, &i) in ws.iter().zip(&p) {
                    if i < kk1 {
                        l[i] += *w;
                    }
                }
                l.sort();
                format!("ok loads {}", join(&l))
            } else {
                format!("ok ids {}", join(&p))
            };
            (out, v)
        }
        r => other_outcome("kk", r, lens_match),
    };
    Ran { out, verdict: verdict.or(reuse_verdict), nontrivial, reused: lens_match, pools }
}

// ------------------------------------------------------------------ generator

/// Emit one KarmarkarKarp case; `cmp` is decided here (never in `run_op`).
/// Returns `Some(exact ids asked for)` for a k-way case where that is a real decision.
fn emit_kk(ctx: &mut Ctx, k: usize, ws: &[i64], p: &[usize]) -> Option<bool> {
    let decisive = k >= 3 && ws.len() >= 2 && ws.len() == p.len();
    let (sens, by_id) = if decisive { kk_tie_sensitive_why(ws, k) } else { (false, false) };
    if decisive {
        // the share of tie-free k-way cases (exact ids) must stay visible
        ctx.count(if sens { "kk_cmp_loads" } else { "kk_cmp_ids" });
        if by_id {
            ctx.count("kk_cmp_loads_renamed_id_in_heap_tie");
        }
    } else {
        ctx.count("kk_deterministic_ids");
    }
    let op = kk_op(k, sens, ws, p);
    run_op(ctx, &op);
    if decisive {
        Some(!sens)
    } else {
        None
    }
}

fn emit_greedy(ctx: &mut Ctx, float: bool, k: usize, ws: &[i64], p: &[usize]) {
    let op = greedy_op(float, k, ws, p);
    run_op(ctx, &op);
}

const SHAPES: [&str; 9] =
    ["small", "wide", "ties", "huge", "dominant", "all_equal", "all_zero", "distinct", "pow2"];

fn weights(ctx: &mut Ctx, shape: usize, n: usize) -> Vec<i64> {
    match shape {
        0 => (0..n).map(|_| ctx.rng.range(0, 9)).collect(),
        1 => (0..n).map(|_| ctx.rng.range(0, 1000)).collect(),
        2 => (0..n).map(|_| ctx.rng.range(1, 3)).collect(),
        3 => (0..n).map(|_| ctx.rng.range(0, 1_000_000_000)).collect(),
        4 => {
            // one dominant element
            let mut v: Vec<i64> = (0..n).map(|_| ctx.rng.range(0, 20)).collect();
            if n > 0 {
                let i = ctx.rng.usize(n);
                v[i] = ctx.rng.range(100, 5000);
            }
            v
        }
        5 => {
            let w = ctx.rng.range(1, 50);
            vec![w; n]
        }
        6 => vec![0; n],
        7 => {
            // all distinct: a shuffled range with a random stride
            let start = ctx.rng.range(0, 20);
            let stride = ctx.rng.range(1, 7);
            let mut v: Vec<i64> = (0..n as i64).map(|i| start + stride * i).collect();
            ctx.rng.shuffle(&mut v);
            v
        }
        _ => (0..n).map(|_| 1i64 << ctx.rng.usize(31)).collect(),
    }
}

fn initial_array(ctx: &mut Ctx, m: usize) -> Vec<usize> {
    if ctx.rng.chance(9, 10) {
        vec![FILL; m]
    } else {
        ctx.count("initial_array_garbage");
        (0..m).map(|_| *ctx.rng.pick(&[0usize, 1, 2, 7, 1000, FILL])).collect()
    }
}

pub fn generate(ctx: &mut Ctx) {
    // 1. exhaustive sub-space: every vector over 0..=alpha up to length maxlen, every k in 1..=kmax
    let (alpha, maxlen, kmax) = if ctx.quick() { (3i64, 5usize, 4usize) } else { (4, 6, 4) };
    for len in 0..=maxlen {
        let mut v = vec![0i64; len];
        let p = vec![FILL; len];
        loop {
            for k in 1..=kmax {
                ctx.count("exhaustive_ops");
                emit_greedy(ctx, false, k, &v, &p);
                if k >= 2 {
                    ctx.count("exhaustive_ops");
                    emit_greedy(ctx, true, k, &v, &p);
                }
                ctx.count("exhaustive_ops");
                let _ = emit_kk(ctx, k, &v, &p);
            }
            // next vector
            let mut i = 0;
            while i < len {
                if v[i] < alpha {
                    v[i] += 1;
                    break;
                }
                v[i] = 0;
                i += 1;
            }
            if i == len {
                break;
            }
        }
    }
    ctx.notes.push(format!(
        "exhaustive sub-space: all weight vectors over 0..={} of length 0..={} x part counts 1..={} x (Greedy on i64, Greedy on f64 for k >= 2, KarmarkarKarp)",
        alpha, maxlen, kmax
    ));

    // 2. random vectors in nine shapes
    let nmax = if ctx.quick() { 16 } else { 24 };
    for _ in 0..ctx.budget(12000, 150000) {
        // mostly 4..=nmax weights, tiny vectors (0..=3) in one case out of seven
        let n = if ctx.rng.chance(1, 7) { ctx.rng.usize(4) } else { 4 + ctx.rng.usize(nmax - 3) };
        let shape = ctx.rng.usize(SHAPES.len());
        ctx.count(&format!("shape_{}", SHAPES[shape]));
        let ws = weights(ctx, shape, n);
        // part count: mostly 2..=6, sometimes 1, 7..=12, or more parts than weights
        let mut k = match ctx.rng.usize(20) {
            0 => 1,
            1..=15 => 2 + ctx.rng.usize(5),
            16..=17 => 7 + ctx.rng.usize(6),
            _ => n + 1 + ctx.rng.usize(4),
        };
        let p = initial_array(ctx, n);
        match ctx.rng.usize(20) {
            0..=4 => {
                ctx.count("random_greedy_i64");
                ctx.count(&k_class(k, n));
                emit_greedy(ctx, false, k, &ws, &p);
            }
            5..=8 => {
                ctx.count("random_greedy_f64");
                ctx.count(&k_class(k, n));
                emit_greedy(ctx, true, k, &ws, &p);
            }
            9..=13 => {
                ctx.count("random_kk_two_way");
                let _ = emit_kk(ctx, 2, &ws, &p);
            }
            _ => {
                if k < 3 {
                    k = 3 + ctx.rng.usize(4);
                }
                ctx.count("random_kk_k_way");
                ctx.count(&k_class(k, n));
                match emit_kk(ctx, k, &ws, &p) {
                    Some(true) => ctx.count("random_kk_k_way_exact_ids"),
                    Some(false) => ctx.count("random_kk_k_way_sorted_loads"),
                    None => {}
                }
            }
        }
    }

    // 2b. k-way KarmarkarKarp on shapes where equal sums are rare (wide, huge, distinct values,
    //     powers of two; at least as many weights as parts), so that a large share of the k-way
    //     cases is compared on exact ids
    for _ in 0..ctx.budget(4000, 50000) {
        let kspan = if ctx.rng.chance(1, 5) { 8 } else { 3 };
        let k = 3 + ctx.rng.usize(kspan);
        let n = k + ctx.rng.usize(nmax);
        let shape = *ctx.rng.pick(&[1usize, 3, 3, 7, 8]);
        ctx.count(&format!("kway_stream_shape_{}", SHAPES[shape]));
        let ws = weights(ctx, shape, n);
        let p = initial_array(ctx, n);
        match emit_kk(ctx, k, &ws, &p) {
            Some(true) => ctx.count("kway_stream_exact_ids"),
            Some(false) => ctx.count("kway_stream_sorted_loads"),
            None => {}
        }
    }

    // 3. malformed / edge stream
    for _ in 0..ctx.budget(100, 1000) {
        let algo = ctx.rng.usize(3); // 0 greedy i64, 1 greedy f64, 2 kk
        let kind = ctx.rng.usize(6);
        let (k, ws, p): (usize, Vec<i64>, Vec<usize>) = match kind {
            0 | 1 => {
                // length mismatch, n = 0 and m = 0 included, one part and several
                ctx.count("edge_len_mismatch");
                let n = ctx.rng.usize(6);
                let mut m = ctx.rng.usize(6);
                if m == n {
                    m = if ctx.rng.chance(1, 2) { n + 1 } else { n.saturating_sub(1) };
                    if m == n {
                        m = n + 2;
                    }
                }
                let k = *ctx.rng.pick(&[0usize, 1, 1, 2, 2, 3, 5]);
                let ws = (0..n).map(|_| ctx.rng.range(0, 9)).collect();
                let p = if ctx.rng.chance(1, 2) { vec![FILL; m] } else { vec![7; m] };
                (k, ws, p)
            }
            2 => {
                ctx.count("edge_k0");
                let n = ctx.rng.usize(6);
                (0, (0..n).map(|_| ctx.rng.range(0, 9)).collect(), initial_array(ctx, n))
            }
            3 => {
                ctx.count("edge_k1");
                let n = ctx.rng.usize(6);
                (1, (0..n).map(|_| ctx.rng.range(0, 9)).collect(), initial_array(ctx, n))
            }
            4 => {
                ctx.count("edge_n01");
                let n = ctx.rng.usize(2);
                let k = 2 + ctx.rng.usize(4);
                (k, (0..n).map(|_| ctx.rng.range(0, 9)).collect(), initial_array(ctx, n))
            }
            _ => {
                // negative weights: outside the property's quantifier; correspondence
                // (plus the LPT and residue identities, which hold for all integers)
                ctx.count("edge_negative_weights");
                let n = 2 + ctx.rng.usize(7);
                let k = 2 + ctx.rng.usize(4);
                (k, (0..n).map(|_| ctx.rng.range(-9, 9)).collect(), vec![FILL; n])
            }
        };
        match algo {
            0 => emit_greedy(ctx, false, k, &ws, &p),
            // negative weights: i64 only
            1 if kind != 5 => emit_greedy(ctx, true, k, &ws, &p),
            1 => emit_greedy(ctx, false, k, &ws, &p),
            _ => {
                let _ = emit_kk(ctx, k, &ws, &p);
            }
        }
    }

    // 4. parameter corners and large sizes
    corner_stream(ctx);
    large_stream(ctx);
}

// ------------------------------------------------------------------ corner and large streams

/// Sizes up to which `Driver/C12.lean` runs the model (beyond: `skip large-n`).
const MODEL_MAX_NK: usize = 13000;

/// k-way KarmarkarKarp, comparing the sorted loads (always tie-invariant) without classifying
/// the case: used where the classification (quadratic) or the model is too slow.
fn emit_kk_loads(ctx: &mut Ctx, k: usize, ws: &[i64], p: &[usize]) {
    ctx.count("kk_cmp_loads_unclassified");
    let op = kk_op(k, true, ws, p);
    run_op(ctx, &op);
}

fn emit_kk_auto(ctx: &mut Ctx, k: usize, ws: &[i64], p: &[usize]) {
    if k >= 3 && (ws.len() > 400 || ws.len() * k > MODEL_MAX_NK) {
        emit_kk_loads(ctx, k, ws, p);
    } else {
        let _ = emit_kk(ctx, k, ws, p);
    }
}

const CORNER_KS: [usize; 8] = [63, 64, 65, 66, 128, 256, 257, 1000];

/// Part counts 63, 64, 65, 66, 128, 256, 257, 1000 (even and odd) with fewer weights than
/// parts (2, 3, k-1, and a count the k-way model can follow), as many, and more (k+37, 4k+1);
/// weights near 2^61 whose total fits in `i64`; `f64` weights with inexact sums.
fn corner_stream(ctx: &mut Ctx) {
    for &k in &CORNER_KS {
        let n_model = (3000 / k).max(4).min(k - 1);
        let ns = [2usize, 3, n_model, k - 1, k, k + 37, 4 * k + 1];
        for (j, &n) in ns.iter().enumerate() {
            let rel = if n < k { "n_lt_k" } else if n == k { "n_eq_k" } else { "n_gt_k" };
            // two weight shapes per (k, n): wide values, and small values with many ties
            for shape in [1usize, 0] {
                let ws = weights(ctx, shape, n);
                let p = initial_array(ctx, n);
                ctx.count(&format!("corner:k{}_{}", k, rel));
                emit_greedy(ctx, (j + shape) % 2 == 1, k, &ws, &p);
                // the list-based k-way model costs ≈ (n·k)² / 10^8 s: above n·k = 1500 only one
                // of the two shapes goes through KarmarkarKarp when the model follows the case
                if shape == 1 || n * k <= 1500 || n * k > MODEL_MAX_NK {
                    ctx.count(&format!("corner:k{}_{}", k, rel));
                    emit_kk_auto(ctx, k, &ws, &p);
                }
            }
        }
        // a second call with a weight vector that has one dominant element
        let ws = weights(ctx, 4, k + 5);
        let p = initial_array(ctx, k + 5);
        ctx.count(&format!("corner:k{}_dominant", k));
        emit_greedy(ctx, false, k, &ws, &p);
        ctx.count(&format!("corner:k{}_dominant", k));
        emit_kk_auto(ctx, k, &ws, &p);
    }
    // exactly two and three weights, two-way
    for n in [2usize, 3] {
        for _ in 0..4 {
            let ws = weights(ctx, 1, n);
            ctx.count("corner:two_way_n2_n3");
            emit_kk_auto(ctx, 2, &ws, &vec![FILL; n]);
            emit_greedy(ctx, false, 2, &ws, &vec![FILL; n]);
        }
    }
    // i64 weights near 2^61 whose total still fits: three huge ones plus small ones
    for round in 0..ctx.budget(6, 40) {
        let mut ws: Vec<i64> = vec![
            (1i64 << 61) + ctx.rng.range(0, 1000),
            (1i64 << 61) - ctx.rng.range(1, 1000),
            (1i64 << 61) + ctx.rng.range(0, 5),
        ];
        let extra = ctx.rng.usize(20);
        for _ in 0..extra {
            let w = if ctx.rng.chance(1, 2) { ctx.rng.range(0, 1_000_000_000) } else { ctx.rng.range(0, 1i64 << 55) };
            ws.push(w);
        }
        // total < 3·2^61 + 1005 + 20·2^55 < 2^63
        ctx.rng.shuffle(&mut ws);
        let n = ws.len();
        let k = *ctx.rng.pick(&[2usize, 2, 3, 5, 64]);
        ctx.count("corner:i64_near_2^61");
        if round % 2 == 0 {
            emit_greedy(ctx, false, k, &ws, &vec![FILL; n]);
        }
        emit_kk_auto(ctx, k, &ws, &vec![FILL; n]);
    }
    // f64 weights whose sums are not exact: tenths, thirds, integers just above 2^53
    for round in 0..ctx.budget(30, 400) {
        let n = 2 + ctx.rng.usize(60);
        let kind = round % 3;
        let ws = inexact_weights(ctx, kind, n);
        let k = if ctx.rng.chance(1, 4) { *ctx.rng.pick(&CORNER_KS) } else { 2 + ctx.rng.usize(7) };
        ctx.count(&format!("corner:f64_inexact_{}", ["tenths", "thirds", "above_2^53"][kind]));
        let op = greedyf_op(k, &ws, &vec![FILL; n]);
        run_op(ctx, &op);
    }
}

/// `f64` weights whose sums round: multiples of 0.1, multiples of 1/3, even integers just
/// above 2^53 (all non-negative and finite).
fn inexact_weights(ctx: &mut Ctx, kind: usize, n: usize) -> Vec<f64> {
    (0..n)
        .map(|_| match kind {
            0 => ctx.rng.range(0, 1000) as f64 * 0.1,
            1 => ctx.rng.range(0, 1000) as f64 / 3.0,
            _ => 9007199254740992.0 + 2.0 * ctx.rng.range(0, 500) as f64,
        })
        .collect()
}

const LARGE_KINDS: [&str; 8] =
    ["random", "asc_blocks_4096", "desc_blocks_8192", "presorted_dups", "all_equal", "dominant", "small_ties", "dominant_at_seam"];

/// Weight vectors for the large stream: random order, sorted in runs that coincide with blocks
/// of 4096 / 8192 elements, fully pre-sorted with duplicates, all equal, one dominant weight
/// (larger than the sum of the others; anywhere, or right at a block seam), small values.
fn large_weights(ctx: &mut Ctx, kind: usize, n: usize) -> Vec<i64> {
    match kind {
        0 => (0..n).map(|_| ctx.rng.range(0, 1_000_000_000)).collect(),
        1 | 2 => {
            let mut v: Vec<i64> = (0..n).map(|_| ctx.rng.range(0, 1_000_000)).collect();
            let b = if kind == 1 { 4096 } else { 8192 };
            for c in v.chunks_mut(b) {
                c.sort();
                if kind == 2 {
                    c.reverse();
                }
            }
            v
        }
        3 => (0..n as i64).map(|i| i / 3).collect(),
        4 => vec![ctx.rng.range(1, 1000); n],
        5 | 7 => {
            let mut v: Vec<i64> = (0..n).map(|_| ctx.rng.range(0, 100)).collect();
            let i = if kind == 7 { 4096.min(n - 1) } else { ctx.rng.usize(n) };
            v[i] = 0;
            let s: i64 = v.iter().sum();
            v[i] = s + 1 + ctx.rng.range(0, 1000);
            v
        }
        _ => (0..n).map(|_| ctx.rng.range(0, 9)).collect(),
    }
}

#[derive(Clone, Copy)]
enum LargeAlgo {
    GreedyI,
    GreedyFInt,
    GreedyInexact(usize),
    Kk,
}

/// Sizes just above and far above the usual block thresholds (2^12, 2^13, 2^14, 2^16), never a
/// multiple of a power of two.  The model follows Greedy and two-way KarmarkarKarp up to
/// n = 21000 (quadratic list model: ≈ 8 s resp. ≈ 19 s at 20001, so the quick tier has one such
/// Greedy case and keeps two-way KarmarkarKarp at 8193) and k-way KarmarkarKarp up to
/// n·k = 13000; beyond, the oracle alone judges (LPT multiset, residue, gap ≤ largest weight,
/// ids < k, reuse and pool-size independence).  k-way KarmarkarKarp keeps n·k·16 bytes in its
/// heap, hence the smaller n for the large part counts.
fn large_stream(ctx: &mut Ctx) {
    use LargeAlgo::*;
    // (algorithm, part count, weights, kind of weight vector)
    let mut cases: Vec<(LargeAlgo, usize, usize, usize)> = vec![
        (GreedyI, 64, 20001, 0),
        (GreedyFInt, 65, 4097, 1),
        (GreedyI, 257, 65548, 2),
        (GreedyI, 1000, 70001, 6),
        (GreedyInexact(0), 66, 8193, 0),
        (GreedyInexact(1), 63, 4097, 0),
        (GreedyInexact(2), 128, 20001, 0),
        (Kk, 2, 8193, 0),
        (Kk, 2, 4097, 7),
        (Kk, 2, 70001, 5),
        (Kk, 2, 65548, 1),
        (Kk, 3, 4097, 0),
        (Kk, 64, 20001, 0),
        (Kk, 257, 8193, 2),
        (Kk, 1000, 4097, 6),
    ];
    if !ctx.quick() {
        cases.extend_from_slice(&[
            (GreedyI, 66, 20001, 1),
            (GreedyI, 128, 20001, 4),
            (GreedyI, 63, 20001, 5),
            (GreedyFInt, 256, 16422, 3),
            (GreedyI, 2, 20001, 6),
            (GreedyI, 64, 131077, 0),
            (GreedyI, 1000, 140003, 2),
            (GreedyFInt, 65, 140003, 1),
            (GreedyI, 257, 70001, 7),
            (GreedyInexact(0), 64, 140003, 0),
            (GreedyInexact(1), 257, 65548, 0),
            (GreedyInexact(2), 1000, 20001, 0),
            (Kk, 2, 20001, 0),
            (Kk, 2, 20001, 5),
            (Kk, 2, 16422, 2),
            (Kk, 2, 131077, 0),
            (Kk, 2, 140003, 5),
            (Kk, 2, 140003, 6),
            (Kk, 2, 70001, 3),
            (Kk, 3, 4097, 1),
            (Kk, 3, 65548, 0),
            (Kk, 5, 140003, 2),
            (Kk, 66, 70001, 0),
            (Kk, 128, 16422, 1),
            (Kk, 65, 16422, 5),
            (Kk, 256, 20001, 6),
            (Kk, 1000, 8193, 0),
        ]);
    }
    for (algo, k, n, kind) in cases {
        ctx.count(&format!("large:{}", n));
        ctx.count(&format!("large_kind:{}", LARGE_KINDS[kind]));
        let p = vec![FILL; n];
        match algo {
            GreedyI | GreedyFInt => {
                let ws = large_weights(ctx, kind, n);
                ctx.count("large_greedy");
                emit_greedy(ctx, matches!(algo, GreedyFInt), k, &ws, &p);
            }
            GreedyInexact(f) => {
                let ws = inexact_weights(ctx, f, n);
                ctx.count("large_greedy_inexact_f64");
                let op = greedyf_op(k, &ws, &p);
                run_op(ctx, &op);
            }
            Kk => {
                let ws = large_weights(ctx, kind, n);
                ctx.count(if k == 2 { "large_kk_two_way" } else { "large_kk_k_way" });
                emit_kk_auto(ctx, k, &ws, &p);
            }
        }
    }
}

fn k_class(k: usize, n: usize) -> String {
    let c = if k > n {
        "k_gt_n"
    } else if k <= 1 {
        "k_1"
    } else if k <= 6 {
        "k_2_6"
    } else {
        "k_7_12"
    };
    format!("random_{}", c)
}
