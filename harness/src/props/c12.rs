//! C12 — Greedy is LPT list scheduling; KarmarkarKarp is the differencing method.
//!
//! ops (`w` = integer weights in decimal, `p` = initial contents of the id array):
//! * `greedy <i64|f64> <k> <n> <w…> <m> <p…>`  (`f64`: the same integers, converted exactly with
//!   `as f64`, and Greedy runs on `Vec<f64>`)
//!   out: `ok <ids>` | `lenmismatch` | `panic …` | `err …`
//! * `kk <k> <ids|loads> <n> <w…> <m> <p…>`
//!   out: `ok ids <ids>` | `ok loads <part loads, ascending>` | `lenmismatch` | `panic …` | `err …`
//!
//! Greedy and two-way KarmarkarKarp are deterministic (their sort/heap keys contain the index),
//! so ids are compared exactly.  k-way KarmarkarKarp (k ≥ 3) sorts the combined row by weight
//! only with an *unstable* sort: where two equal sums meet, the order is implementation-defined.
//! The generator classifies each k-way case with a value-level simulation (`kk_tie_sensitive`)
//! and asks for exact ids on the tie-insensitive cases and for the sorted loads (tie-invariant)
//! on the others.  `run_op` obeys the `cmp` field of the line.

use crate::common::*;
use coupe::Partition as _;
use std::collections::BinaryHeap;

/// usual initial filler of the id array: a cell the algorithm did not write stays visible, and
/// `1 - partition[a]` on such a cell overflows (overflow checks are on)
const FILL: usize = usize::MAX;

// ------------------------------------------------------------------ protocol

enum Op {
    Greedy { float: bool, k: usize, ws: Vec<i64>, p: Vec<usize> },
    Kk { k: usize, loads: bool, ws: Vec<i64>, p: Vec<usize> },
}

fn fmt_arrays(ws: &[i64], p: &[usize]) -> String {
    let mut s = format!("{}", ws.len());
    if !ws.is_empty() {
        s.push(' ');
        s.push_str(&join(ws));
    }
    s.push_str(&format!(" {}", p.len()));
    if !p.is_empty() {
        s.push(' ');
        s.push_str(&join(p));
    }
    s
}

fn greedy_op(float: bool, k: usize, ws: &[i64], p: &[usize]) -> String {
    format!("greedy {} {} {}", if float { "f64" } else { "i64" }, k, fmt_arrays(ws, p))
}

fn kk_op(k: usize, loads: bool, ws: &[i64], p: &[usize]) -> String {
    format!("kk {} {} {}", k, if loads { "loads" } else { "ids" }, fmt_arrays(ws, p))
}

fn parse_arrays<'a>(it: &mut impl Iterator<Item = &'a str>) -> Option<(Vec<i64>, Vec<usize>)> {
    let n: usize = it.next()?.parse().ok()?;
    let mut ws = Vec::with_capacity(n.min(1 << 16));
    for _ in 0..n {
        ws.push(it.next()?.parse().ok()?);
    }
    let m: usize = it.next()?.parse().ok()?;
    let mut p = Vec::with_capacity(m.min(1 << 16));
    for _ in 0..m {
        p.push(it.next()?.parse().ok()?);
    }
    // like the model's parser: nothing may follow
    if it.next().is_some() {
        return None;
    }
    Some((ws, p))
}

fn parse_op(op: &str) -> Option<Op> {
    let mut it = op.split_whitespace();
    match it.next()? {
        "greedy" => {
            let float = match it.next()? {
                "i64" => false,
                "f64" => true,
                _ => return None,
            };
            let k: usize = it.next()?.parse().ok()?;
            let (ws, p) = parse_arrays(&mut it)?;
            if float && ws.iter().any(|w| w.unsigned_abs() >= 1 << 53) {
                return None;
            }
            Some(Op::Greedy { float, k, ws, p })
        }
        "kk" => {
            let k: usize = it.next()?.parse().ok()?;
            let loads = match it.next()? {
                "ids" => false,
                "loads" => true,
                _ => return None,
            };
            let (ws, p) = parse_arrays(&mut it)?;
            Some(Op::Kk { k, loads, ws, p })
        }
        _ => None,
    }
}

// ------------------------------------------------------------------ tie classification (generator side)

/// Can the ids returned by k-way KarmarkarKarp on `ws` depend on how `sort_unstable_by` orders
/// equal sums?  Value-level simulation of `kk.rs: kk` (not a call into coupe): rows of
/// `(value, id)` with a side table `id -> real` ("this slot holds at least one real weight"),
/// the heap ordered like `BinaryHeap<Vec<(T, usize)>>`, the combined row sorted *stably*.
///
/// A tie is two entries of the combined row with equal value.  It is harmless iff both
/// entries are empty slots (`real == false`: exchanging them only renames two empty parts)
/// and the row's maximum is positive (so slot 0, which decides heap comparisons, is not one of
/// them).  Any other tie makes the case tie-sensitive.
///
/// Renaming empty slots is invisible as long as heap comparisons never look at a renamed id.
/// Rows are compared lexicographically and all ids are distinct, so a comparison looks at ids
/// only when two rows have the same slot-0 value, and then only at the slot-0 ids.  The
/// simulation therefore remembers which ids took part in a harmless tie (`renamed`) and also
/// answers "sensitive" when two rows of the heap have equal slot-0 values and one of the two
/// slot-0 ids is such an id (second component of the result; rare).
fn kk_tie_sensitive_why(ws: &[i64], k: usize) -> (bool, bool) {
    let n = ws.len();
    if k < 3 || n < 2 {
        return (false, false);
    }
    let mut real = vec![false; n * k];
    let mut renamed = vec![false; n * k];
    let mut heap: BinaryHeap<Vec<(i64, usize)>> = BinaryHeap::with_capacity(n);
    for (id, &w) in ws.iter().enumerate() {
        real[id] = true;
        heap.push((0..k).map(|p| (if p == 0 { w } else { 0 }, n * p + id)).collect());
    }
    while heap.len() >= 2 {
        // a heap comparison decided by a renamed id?
        let mut heads: Vec<(i64, bool)> = heap.iter().map(|r| (r[0].0, renamed[r[0].1])).collect();
        heads.sort_unstable();
        let mut i = 0;
        while i < heads.len() {
            let mut j = i;
            let mut any = heads[i].1;
            while j + 1 < heads.len() && heads[j + 1].0 == heads[i].0 {
                j += 1;
                any |= heads[j].1;
            }
            if j > i && any {
                return (true, true);
            }
            i = j + 1;
        }
        let a = heap.pop().unwrap();
        let b = heap.pop().unwrap();
        // e_i = a_i + b_{k-1-i}, keeps a's id
        let mut e: Vec<(i64, bool, usize)> = a
            .iter()
            .zip(b.iter().rev())
            .map(|(x, y)| (x.0 + y.0, real[x.1] || real[y.1], x.1))
            .collect();
        e.sort_by(|x, y| y.0.cmp(&x.0));
        let emax = e[0].0;
        for w in e.windows(2) {
            if w[0].0 == w[1].0 {
                if w[0].1 || w[1].1 || emax <= 0 {
                    return (true, false);
                }
                renamed[w[0].2] = true;
                renamed[w[1].2] = true;
            }
        }
        let emin = e[e.len() - 1].0;
        for x in &e {
            real[x.2] = x.1;
        }
        heap.push(e.iter().map(|x| (x.0 - emin, x.2)).collect());
    }
    (false, false)
}

fn kk_tie_sensitive(ws: &[i64], k: usize) -> bool {
    kk_tie_sensitive_why(ws, k).0
}

// ------------------------------------------------------------------ oracle helpers (independent of the model)

/// Loads of parts `0..k`; `None` if some id is `>= k`.
fn part_loads(ws: &[i64], ids: &[usize], k: usize) -> Option<Vec<i64>> {
    let mut l = vec![0i64; k];
    for (w, &i) in ws.iter().zip(ids) {
        if i >= k {
            return None;
        }
        l[i] += *w;
    }
    Some(l)
}

/// LPT list scheduling, recomputed naively: weights in non-increasing order, each to the first
/// currently lightest part.  (Any tie-breaking gives the same multiset of loads.)  Sorted.
fn lpt_loads(ws: &[i64], k: usize) -> Vec<i64> {
    let mut v = ws.to_vec();
    v.sort();
    v.reverse();
    let mut l = vec![0i64; k];
    for w in v {
        let mut best = 0;
        for j in 1..k {
            if l[j] < l[best] {
                best = j;
            }
        }
        l[best] += w;
    }
    l.sort();
    l
}

/// The number left after repeatedly replacing the two largest numbers by their difference.
fn residue(ws: &[i64]) -> i64 {
    let mut h: BinaryHeap<i64> = ws.iter().copied().collect();
    while h.len() >= 2 {
        let a = h.pop().unwrap();
        let b = h.pop().unwrap();
        h.push(a - b);
    }
    h.pop().unwrap_or(0)
}

// ------------------------------------------------------------------ run one op

type Verdict = Option<(&'static str, String)>;

pub fn run_op(ctx: &mut Ctx, op: &str) {
    if ctx.hang_limit_reached() {
        return;
    }
    let Some(parsed) = parse_op(op) else {
        ctx.record(op.to_string(), "bad-op".into(), false);
        return;
    };
    let (out, verdict, nontrivial) = match parsed {
        Op::Greedy { float, k, ws, p } => run_greedy(float, k, &ws, &p),
        Op::Kk { k, loads, ws, p } => run_kk(k, loads, &ws, &p),
    };
    let kind = if op.starts_with("greedy") { "greedy" } else { "kk" };
    ctx.count(&format!("out_{}_{}", kind, out.split(' ').next().unwrap_or("")));
    let idx = ctx.record(op.to_string(), out, nontrivial);
    if let Some((sig, what)) = verdict {
        ctx.fail(idx, sig, what);
    }
}

fn run_greedy(float: bool, k: usize, ws: &[i64], p0: &[usize]) -> (String, Verdict, bool) {
    let mut p = p0.to_vec();
    let res = if float {
        let v: Vec<f64> = ws.iter().map(|&w| w as f64).collect();
        catch(|| coupe::Greedy { part_count: k }.partition(&mut p, v))
    } else {
        let v: Vec<i64> = ws.to_vec();
        catch(|| coupe::Greedy { part_count: k }.partition(&mut p, v))
    };
    let lens_match = ws.len() == p0.len();
    let nontrivial = lens_match && ws.len() >= 2 && k >= 2;
    let (out, verdict): (String, Verdict) = match res {
        Caught::Ok(Ok(())) => {
            let mut v = None;
            if !lens_match {
                v = Some(("greedy-len-mismatch-ok", "Ok despite a length mismatch".to_string()));
            } else if let Some(loads) = part_loads(ws, &p, k.max(1)) {
                if k < 2 {
                    if p.iter().any(|&i| i != 0) {
                        v = Some(("greedy-k1-not-zero", format!("part_count {} but ids {:?}", k, p)));
                    }
                } else {
                    // holds for all integers, negative ones included
                    let mut got = loads;
                    got.sort();
                    let want = lpt_loads(ws, k);
                    if got != want {
                        v = Some((
                            "greedy-not-lpt",
                            format!("sorted loads {:?} but LPT gives {:?}", got, want),
                        ));
                    }
                }
            } else {
                v = Some((
                    "greedy-id-out-of-range",
                    format!("an id >= {} in {:?}", k.max(1), p),
                ));
            }
            (format!("ok {}", join(&p)), v)
        }
        Caught::Ok(Err(coupe::Error::InputLenMismatch { .. })) => {
            let v = if lens_match {
                Some(("greedy-spurious-lenmismatch", "InputLenMismatch on matching lengths".to_string()))
            } else {
                None
            };
            ("lenmismatch".to_string(), v)
        }
        Caught::Ok(Err(e)) => (format!("err {:?}", e), Some(("greedy-unexpected-error", format!("{:?}", e)))),
        Caught::Panic(m) => {
            let sig = panic_sig(&m);
            (format!("panic {}", m), Some(("panic", format!("{} [{}]", m, sig))))
        }
        Caught::Hang => ("hang".into(), Some(("hang", "watchdog".into()))),
    };
    (out, verdict, nontrivial)
}

fn run_kk(k: usize, cmp_loads: bool, ws: &[i64], p0: &[usize]) -> (String, Verdict, bool) {
    let mut p = p0.to_vec();
    let v: Vec<i64> = ws.to_vec();
    let res = catch(|| coupe::KarmarkarKarp { part_count: k }.partition(&mut p, v));
    let lens_match = ws.len() == p0.len();
    let n = ws.len();
    let nontrivial = lens_match && n >= 2 && k >= 2;
    let kk1 = k.max(1);
    let (out, verdict): (String, Verdict) = match res {
        Caught::Ok(Ok(())) => {
            let mut v = None;
            if !lens_match {
                v = Some(("kk-len-mismatch-ok", "Ok despite a length mismatch".to_string()));
            } else if let Some(loads) = part_loads(ws, &p, kk1) {
                if k < 2 || n < 2 {
                    if p.iter().any(|&i| i != 0) {
                        v = Some((
                            "kk-trivial-not-zero",
                            format!("part_count {} / {} weights but ids {:?}", k, n, p),
                        ));
                    }
                } else {
                    let hi = *loads.iter().max().unwrap();
                    let lo = *loads.iter().min().unwrap();
                    if k == 2 {
                        // holds for all integers
                        let r = residue(ws);
                        if (loads[0] - loads[1]).abs() != r {
                            v = Some((
                                "kk2-diff-not-residue",
                                format!("loads {} / {} but the differencing residue is {}", loads[0], loads[1], r),
                            ));
                        }
                    }
                    if v.is_none() && ws.iter().all(|&w| w >= 0) {
                        let wmax = *ws.iter().max().unwrap();
                        if hi - lo > wmax {
                            v = Some((
                                "kk-gap-exceeds-max",
                                format!("loads {:?}: gap {} > largest weight {}", loads, hi - lo, wmax),
                            ));
                        }
                    }
                }
            } else {
                v = Some(("kk-id-out-of-range", format!("an id >= {} in {:?}", kk1, p)));
            }
            let out = if cmp_loads {
                // tie-invariant observable: loads of parts 0..max(k,1), ascending; ids out of
                // range are left out of the sums (flagged above)
                let mut l = vec![0i64; kk1];
                for (w, &i) in ws.iter().zip(&p) {
                    if i < kk1 {
                        l[i] += *w;
                    }
                }
                l.sort();
                format!("ok loads {}", join(&l))
            } else {
                format!("ok ids {}", join(&p))
            };
            (out, v)
        }
        Caught::Ok(Err(coupe::Error::InputLenMismatch { .. })) => {
            let v = if lens_match {
                Some(("kk-spurious-lenmismatch", "InputLenMismatch on matching lengths".to_string()))
            } else {
                None
            };
            ("lenmismatch".to_string(), v)
        }
        Caught::Ok(Err(e)) => (format!("err {:?}", e), Some(("kk-unexpected-error", format!("{:?}", e)))),
        Caught::Panic(m) => {
            let sig = panic_sig(&m);
            (format!("panic {}", m), Some(("panic", format!("{} [{}]", m, sig))))
        }
        Caught::Hang => ("hang".into(), Some(("hang", "watchdog".into()))),
    };
    (out, verdict, nontrivial)
}

// ------------------------------------------------------------------ generator

/// Emit one KarmarkarKarp case; `cmp` is decided here (never in `run_op`).
/// Returns `Some(exact ids asked for)` for a k-way case where that is a real decision.
fn emit_kk(ctx: &mut Ctx, k: usize, ws: &[i64], p: &[usize]) -> Option<bool> {
    let decisive = k >= 3 && ws.len() >= 2 && ws.len() == p.len();
    let (sens, by_id) = if decisive { kk_tie_sensitive_why(ws, k) } else { (false, false) };
    if decisive {
        // the share of tie-free k-way cases (exact ids) must stay visible
        ctx.count(if sens { "kk_cmp_loads" } else { "kk_cmp_ids" });
        if by_id {
            ctx.count("kk_cmp_loads_renamed_id_in_heap_tie");
        }
    } else {
        ctx.count("kk_deterministic_ids");
    }
    let op = kk_op(k, sens, ws, p);
    run_op(ctx, &op);
    if decisive {
        Some(!sens)
    } else {
        None
    }
}

fn emit_greedy(ctx: &mut Ctx, float: bool, k: usize, ws: &[i64], p: &[usize]) {
    let op = greedy_op(float, k, ws, p);
    run_op(ctx, &op);
}

const SHAPES: [&str; 9] =
    ["small", "wide", "ties", "huge", "dominant", "all_equal", "all_zero", "distinct", "pow2"];

fn weights(ctx: &mut Ctx, shape: usize, n: usize) -> Vec<i64> {
    match shape {
        0 => (0..n).map(|_| ctx.rng.range(0, 9)).collect(),
        1 => (0..n).map(|_| ctx.rng.range(0, 1000)).collect(),
        2 => (0..n).map(|_| ctx.rng.range(1, 3)).collect(),
        3 => (0..n).map(|_| ctx.rng.range(0, 1_000_000_000)).collect(),
        4 => {
            // one dominant element
            let mut v: Vec<i64> = (0..n).map(|_| ctx.rng.range(0, 20)).collect();
            if n > 0 {
                let i = ctx.rng.usize(n);
                v[i] = ctx.rng.range(100, 5000);
            }
            v
        }
        5 => {
            let w = ctx.rng.range(1, 50);
            vec![w; n]
        }
        6 => vec![0; n],
        7 => {
            // all distinct: a shuffled range with a random stride
            let start = ctx.rng.range(0, 20);
            let stride = ctx.rng.range(1, 7);
            let mut v: Vec<i64> = (0..n as i64).map(|i| start + stride * i).collect();
            ctx.rng.shuffle(&mut v);
            v
        }
        _ => (0..n).map(|_| 1i64 << ctx.rng.usize(31)).collect(),
    }
}

fn initial_array(ctx: &mut Ctx, m: usize) -> Vec<usize> {
    if ctx.rng.chance(9, 10) {
        vec![FILL; m]
    } else {
        ctx.count("initial_array_garbage");
        (0..m).map(|_| *ctx.rng.pick(&[0usize, 1, 2, 7, 1000, FILL])).collect()
    }
}

pub fn generate(ctx: &mut Ctx) {
    // 1. exhaustive sub-space: every vector over 0..=alpha up to length maxlen, every k in 1..=kmax
    let (alpha, maxlen, kmax) = if ctx.quick() { (3i64, 5usize, 4usize) } else { (4, 6, 4) };
    for len in 0..=maxlen {
        let mut v = vec![0i64; len];
        let p = vec![FILL; len];
        loop {
            for k in 1..=kmax {
                ctx.count("exhaustive_ops");
                emit_greedy(ctx, false, k, &v, &p);
                if k >= 2 {
                    ctx.count("exhaustive_ops");
                    emit_greedy(ctx, true, k, &v, &p);
                }
                ctx.count("exhaustive_ops");
                let _ = emit_kk(ctx, k, &v, &p);
            }
            // next vector
            let mut i = 0;
            while i < len {
                if v[i] < alpha {
                    v[i] += 1;
                    break;
                }
                v[i] = 0;
                i += 1;
            }
            if i == len {
                break;
            }
        }
    }
    ctx.notes.push(format!(
        "exhaustive sub-space: all weight vectors over 0..={} of length 0..={} x part counts 1..={} x (Greedy on i64, Greedy on f64 for k >= 2, KarmarkarKarp)",
        alpha, maxlen, kmax
    ));

    // 2. random vectors in nine shapes
    let nmax = if ctx.quick() { 16 } else { 24 };
    for _ in 0..ctx.budget(12000, 150000) {
        // mostly 4..=nmax weights, tiny vectors (0..=3) in one case out of seven
        let n = if ctx.rng.chance(1, 7) { ctx.rng.usize(4) } else { 4 + ctx.rng.usize(nmax - 3) };
        let shape = ctx.rng.usize(SHAPES.len());
        ctx.count(&format!("shape_{}", SHAPES[shape]));
        let ws = weights(ctx, shape, n);
        // part count: mostly 2..=6, sometimes 1, 7..=12, or more parts than weights
        let mut k = match ctx.rng.usize(20) {
            0 => 1,
            1..=15 => 2 + ctx.rng.usize(5),
            16..=17 => 7 + ctx.rng.usize(6),
            _ => n + 1 + ctx.rng.usize(4),
        };
        let p = initial_array(ctx, n);
        match ctx.rng.usize(20) {
            0..=4 => {
                ctx.count("random_greedy_i64");
                ctx.count(&k_class(k, n));
                emit_greedy(ctx, false, k, &ws, &p);
            }
            5..=8 => {
                ctx.count("random_greedy_f64");
                ctx.count(&k_class(k, n));
                emit_greedy(ctx, true, k, &ws, &p);
            }
            9..=13 => {
                ctx.count("random_kk_two_way");
                let _ = emit_kk(ctx, 2, &ws, &p);
            }
            _ => {
                if k < 3 {
                    k = 3 + ctx.rng.usize(4);
                }
                ctx.count("random_kk_k_way");
                ctx.count(&k_class(k, n));
                match emit_kk(ctx, k, &ws, &p) {
                    Some(true) => ctx.count("random_kk_k_way_exact_ids"),
                    Some(false) => ctx.count("random_kk_k_way_sorted_loads"),
                    None => {}
                }
            }
        }
    }

    // 2b. k-way KarmarkarKarp on shapes where equal sums are rare (wide, huge, distinct values,
    //     powers of two; at least as many weights as parts), so that a large share of the k-way
    //     cases is compared on exact ids
    for _ in 0..ctx.budget(4000, 50000) {
        let kspan = if ctx.rng.chance(1, 5) { 8 } else { 3 };
        let k = 3 + ctx.rng.usize(kspan);
        let n = k + ctx.rng.usize(nmax);
        let shape = *ctx.rng.pick(&[1usize, 3, 3, 7, 8]);
        ctx.count(&format!("kway_stream_shape_{}", SHAPES[shape]));
        let ws = weights(ctx, shape, n);
        let p = initial_array(ctx, n);
        match emit_kk(ctx, k, &ws, &p) {
            Some(true) => ctx.count("kway_stream_exact_ids"),
            Some(false) => ctx.count("kway_stream_sorted_loads"),
            None => {}
        }
    }

    // 3. malformed / edge stream
    for _ in 0..ctx.budget(100, 1000) {
        let algo = ctx.rng.usize(3); // 0 greedy i64, 1 greedy f64, 2 kk
        let kind = ctx.rng.usize(6);
        let (k, ws, p): (usize, Vec<i64>, Vec<usize>) = match kind {
            0 | 1 => {
                // length mismatch, n = 0 and m = 0 included, one part and several
                ctx.count("edge_len_mismatch");
                let n = ctx.rng.usize(6);
                let mut m = ctx.rng.usize(6);
                if m == n {
                    m = if ctx.rng.chance(1, 2) { n + 1 } else { n.saturating_sub(1) };
                    if m == n {
                        m = n + 2;
                    }
                }
                let k = *ctx.rng.pick(&[0usize, 1, 1, 2, 2, 3, 5]);
                let ws = (0..n).map(|_| ctx.rng.range(0, 9)).collect();
                let p = if ctx.rng.chance(1, 2) { vec![FILL; m] } else { vec![7; m] };
                (k, ws, p)
            }
            2 => {
                ctx.count("edge_k0");
                let n = ctx.rng.usize(6);
                (0, (0..n).map(|_| ctx.rng.range(0, 9)).collect(), initial_array(ctx, n))
            }
            3 => {
                ctx.count("edge_k1");
                let n = ctx.rng.usize(6);
                (1, (0..n).map(|_| ctx.rng.range(0, 9)).collect(), initial_array(ctx, n))
            }
            4 => {
                ctx.count("edge_n01");
                let n = ctx.rng.usize(2);
                let k = 2 + ctx.rng.usize(4);
                (k, (0..n).map(|_| ctx.rng.range(0, 9)).collect(), initial_array(ctx, n))
            }
            _ => {
                // negative weights: outside the property's quantifier; correspondence
                // (plus the LPT and residue identities, which hold for all integers)
                ctx.count("edge_negative_weights");
                let n = 2 + ctx.rng.usize(7);
                let k = 2 + ctx.rng.usize(4);
                (k, (0..n).map(|_| ctx.rng.range(-9, 9)).collect(), vec![FILL; n])
            }
        };
        match algo {
            0 => emit_greedy(ctx, false, k, &ws, &p),
            // negative weights: i64 only
            1 if kind != 5 => emit_greedy(ctx, true, k, &ws, &p),
            1 => emit_greedy(ctx, false, k, &ws, &p),
            _ => {
                let _ = emit_kk(ctx, k, &ws, &p);
            }
        }
    }
}

fn k_class(k: usize, n: usize) -> String {
    let c = if k > n {
        "k_gt_n"
    } else if k <= 1 {
        "k_1"
    } else if k <= 6 {
        "k_2_6"
    } else {
        "k_7_12"
    };
    format!("random_{}", c)
}
