//! C12 — Greedy is LPT list scheduling; KarmarkarKarp is the differencing method.
//!
//! ops (`w` = integer weights in decimal, `p` = initial contents of the id array):
//! * `greedy <i64|f64> <k> <n> <w…> <m> <p…>`  (`f64`: the same integers, converted exactly with
//!   `as f64`, and Greedy runs on `Vec<f64>`)
//!   out: `ok <ids>` | `lenmismatch` | `panic …` | `err …`
//! * `greedyf <k> <n> <w… as f64 bit patterns, hex> <m> <p…>`: Greedy on `f64` weights whose sums
//!   are NOT exact (tenths, thirds, integers just above 2^53).  The integer model does not apply
//!   (its line is `skip`); the oracle recomputes LPT with the same `f64` additions in the same
//!   order and compares the multiset of loads bit for bit.
//!   out: `ok <ids>` | …
//! * `kk <k> <ids|loads> <n> <w…> <m> <p…>`
//!   out: `ok ids <ids>` | `ok loads <part loads, ascending>` | `lenmismatch` | `panic …` | `err …`
//!
//! In `greedy f64` and in `kkr` (KarmarkarKarp on `coupe::Real`, the float weight type the tools
//! use; same integer values) a weight written `-0` is the float -0.0; the model reads it as 0.
//!
//! Ops with at most 200 weights are repeated through every input type the `Partition` impls
//! accept (slices, arrays, deques, iterator adaptors, inexact `size_hint`s for Greedy; other
//! weight types where all sums stay exact), through the tools entry point
//! `coupe_tools::parse_algorithm`, from inside a rayon task and as 8 / 32 concurrent calls on
//! pools of 4 / 16 workers, with +0.0 in place of -0.0, and (inexact `f64` ops) scaled by an exact
//! power of two: ids must not change (`input-type-dependent@…`, `tools-dependent@…`,
//! `context-dependent@…`, `negzero-dependent@…`, `scale-dependent@greedy`).
//!
//! Every op with matching lengths is run a second time on REUSED objects (an algorithm value that
//! already served another input, an id array left by a run with more parts) and, for 4096
//! weights or more, inside rayon pools of two different sizes: the answers must be identical.
//! Above the sizes the list-based Lean model can handle in a few seconds (`Driver/C12.lean`:
//! n > 21000, or n·k > 13000 for k-way KarmarkarKarp) the model line is `skip large-n` and the
//! oracle alone judges the case.
//!
//! Greedy and two-way KarmarkarKarp are deterministic (their sort/heap keys contain the index),
//! so ids are compared exactly.  k-way KarmarkarKarp (k ≥ 3) sorts the combined row by weight
//! only with an *unstable* sort: where two equal sums meet, the order is implementation-defined.
//! The generator classifies each k-way case with a value-level simulation (`kk_tie_sensitive`)
//! and asks for exact ids on the tie-insensitive cases and for the sorted loads (tie-invariant)
//! on the others.  `run_op` obeys the `cmp` field of the line.

use crate::common::*;
use coupe::rayon::prelude::*;
use coupe::Partition as _;
use std::collections::{BinaryHeap, VecDeque};
use std::panic::AssertUnwindSafe;
use std::sync::OnceLock;

/// usual initial filler of the id array: a cell the algorithm did not write stays visible, and
/// `1 - partition[a]` on such a cell overflows (overflow checks are on)
const FILL: usize = usize::MAX;

// ------------------------------------------------------------------ protocol

enum Op {
    /// `negz[i]`: weight `i` was written `-0` (-0.0 in the float runs)
    Greedy { float: bool, k: usize, ws: Vec<i64>, negz: Vec<bool>, p: Vec<usize> },
    GreedyF { k: usize, ws: Vec<f64>, p: Vec<usize> },
    Kk { real: bool, k: usize, loads: bool, ws: Vec<i64>, negz: Vec<bool>, p: Vec<usize> },
}

fn fmt_arrays(ws: &[i64], p: &[usize]) -> String {
    let mut s = format!("{}", ws.len());
    if !ws.is_empty() {
        s.push(' ');
        s.push_str(&join(ws));
    }
    s.push_str(&format!(" {}", p.len()));
    if !p.is_empty() {
        s.push(' ');
        s.push_str(&join(p));
    }
    s
}

fn greedy_op(float: bool, k: usize, ws: &[i64], p: &[usize]) -> String {
    format!("greedy {} {} {}", if float { "f64" } else { "i64" }, k, fmt_arrays(ws, p))
}

fn kk_op(k: usize, loads: bool, ws: &[i64], p: &[usize]) -> String {
    format!("kk {} {} {}", k, if loads { "loads" } else { "ids" }, fmt_arrays(ws, p))
}

/// Like `fmt_arrays`, with `-0` for the weights flagged in `negz` (which must be 0).
fn fmt_arrays_nz(ws: &[i64], negz: &[bool], p: &[usize]) -> String {
    let mut s = format!("{}", ws.len());
    for (i, w) in ws.iter().enumerate() {
        if negz.get(i).copied().unwrap_or(false) && *w == 0 {
            s.push_str(" -0");
        } else {
            s.push_str(&format!(" {}", w));
        }
    }
    s.push_str(&format!(" {}", p.len()));
    if !p.is_empty() {
        s.push(' ');
        s.push_str(&join(p));
    }
    s
}

fn greedyf_op(k: usize, ws: &[f64], p: &[usize]) -> String {
    let mut s = format!("greedyf {} {}", k, ws.len());
    for w in ws {
        s.push_str(&format!(" {:x}", w.to_bits()));
    }
    s.push_str(&format!(" {}", p.len()));
    if !p.is_empty() {
        s.push(' ');
        s.push_str(&join(p));
    }
    s
}

fn parse_arrays<'a>(it: &mut impl Iterator<Item = &'a str>) -> Option<(Vec<i64>, Vec<bool>, Vec<usize>)> {
    let n: usize = it.next()?.parse().ok()?;
    let mut ws = Vec::with_capacity(n.min(1 << 16));
    let mut negz = Vec::with_capacity(n.min(1 << 16));
    for _ in 0..n {
        let t = it.next()?;
        negz.push(t == "-0");
        ws.push(t.parse().ok()?);
    }
    let m: usize = it.next()?.parse().ok()?;
    let mut p = Vec::with_capacity(m.min(1 << 16));
    for _ in 0..m {
        p.push(it.next()?.parse().ok()?);
    }
    // like the model's parser: nothing may follow
    if it.next().is_some() {
        return None;
    }
    Some((ws, negz, p))
}

fn parse_op(op: &str) -> Option<Op> {
    let mut it = op.split_whitespace();
    match it.next()? {
        "greedy" => {
            let float = match it.next()? {
                "i64" => false,
                "f64" => true,
                _ => return None,
            };
            let k: usize = it.next()?.parse().ok()?;
            let (ws, negz, p) = parse_arrays(&mut it)?;
            if float && ws.iter().any(|w| w.unsigned_abs() >= 1 << 53) {
                return None;
            }
            Some(Op::Greedy { float, k, ws, negz, p })
        }
        "greedyf" => {
            let k: usize = it.next()?.parse().ok()?;
            let n: usize = it.next()?.parse().ok()?;
            let mut ws = Vec::with_capacity(n.min(1 << 16));
            for _ in 0..n {
                let w = f64::from_bits(u64::from_str_radix(it.next()?, 16).ok()?);
                // the property's quantifier: non-negative finite weights
                if !w.is_finite() || w < 0.0 {
                    return None;
                }
                ws.push(w);
            }
            let m: usize = it.next()?.parse().ok()?;
            let mut p = Vec::with_capacity(m.min(1 << 16));
            for _ in 0..m {
                p.push(it.next()?.parse().ok()?);
            }
            if it.next().is_some() {
                return None;
            }
            Some(Op::GreedyF { k, ws, p })
        }
        name @ ("kk" | "kkr") => {
            let real = name == "kkr";
            let k: usize = it.next()?.parse().ok()?;
            let loads = match it.next()? {
                "ids" => false,
                "loads" => true,
                _ => return None,
            };
            let (ws, negz, p) = parse_arrays(&mut it)?;
            if real && ws.iter().any(|w| w.unsigned_abs() >= 1 << 53) {
                return None;
            }
            Some(Op::Kk { real, k, loads, ws, negz, p })
        }
        _ => None,
    }
}

// ------------------------------------------------------------------ tie classification (generator side)

/// Can the ids returned by k-way KarmarkarKarp on `ws` depend on how `sort_unstable_by` orders
/// equal sums?  Value-level simulation of `kk.rs: kk` (not a call into coupe): rows of
/// `(value, id)` with a side table `id -> real` ("this slot holds at least one real weight"),
/// the heap ordered like `BinaryHeap<Vec<(T, usize)>>`, the combined row sorted *stably*.
///
/// A tie is two entries of the combined row with equal value.  It is harmless iff both
/// entries are empty slots (`real == false`: exchanging them only renames two empty parts)
/// and the row's maximum is positive (so slot 0, which decides heap comparisons, is not one of
/// them).  Any other tie makes the case tie-sensitive.
///
/// Renaming empty slots is invisible as long as heap comparisons never look at a renamed id.
/// Rows are compared lexicographically and all ids are distinct, so a comparison looks at ids
/// only when two rows have the same slot-0 value, and then only at the slot-0 ids.  The
/// simulation therefore remembers which ids took part in a harmless tie (`renamed`) and also
/// answers "sensitive" when two rows of the heap have equal slot-0 values and one of the two
/// slot-0 ids is such an id (second component of the result; rare).
fn kk_tie_sensitive_why(ws: &[i64], k: usize) -> (bool, bool) {
    let n = ws.len();
    if k < 3 || n < 2 {
        return (false, false);
    }
    let mut real = vec![false; n * k];
    let mut renamed = vec![false; n * k];
    let mut heap: BinaryHeap<Vec<(i64, usize)>> = BinaryHeap::with_capacity(n);
    for (id, &w) in ws.iter().enumerate() {
        real[id] = true;
        heap.push((0..k).map(|p| (if p == 0 { w } else { 0 }, n * p + id)).collect());
    }
    while heap.len() >= 2 {
        // a heap comparison decided by a renamed id?
        let mut heads: Vec<(i64, bool)> = heap.iter().map(|r| (r[0].0, renamed[r[0].1])).collect();
        heads.sort_unstable();
        let mut i = 0;
        while i < heads.len() {
            let mut j = i;
            let mut any = heads[i].1;
            while j + 1 < heads.len() && heads[j + 1].0 == heads[i].0 {
                j += 1;
                any |= heads[j].1;
            }
            if j > i && any {
                return (true, true);
            }
            i = j + 1;
        }
        let a = heap.pop().unwrap();
        let b = heap.pop().unwrap();
        // e_i = a_i + b_{k-1-i}, keeps a's id
        let mut e: Vec<(i64, bool, usize)> = a
            .iter()
            .zip(b.iter().rev())
            .map(|(x, y)| (x.0 + y.0, real[x.1] || real[y.1], x.1))
            .collect();
        e.sort_by(|x, y| y.0.cmp(&x.0));
        let emax = e[0].0;
        for w in e.windows(2) {
            if w[0].0 == w[1].0 {
                if w[0].1 || w[1].1 || emax <= 0 {
                    return (true, false);
                }
                renamed[w[0].2] = true;
                renamed[w[1].2] = true;
            }
        }
        let emin = e[e.len() - 1].0;
        for x in &e {
            real[x.2] = x.1;
        }
        heap.push(e.iter().map(|x| (x.0 - emin, x.2)).collect());
    }
    (false, false)
}

fn kk_tie_sensitive(ws: &[i64], k: usize) -> bool {
    kk_tie_sensitive_why(ws, k).0
}

// ------------------------------------------------------------------ oracle helpers (independent of the model)

/// Loads of parts `0..k`; `None` if some id is `>= k`.
fn part_loads(ws: &[i64], ids: &[usize], k: usize) -> Option<Vec<i64>> {
    let mut l = vec![0i64; k];
    for (w, &i) in ws.iter().zip(ids) {
        if i >= k {
            return None;
        }
        l[i] += *w;
    }
    Some(l)
}

/// LPT list scheduling, recomputed naively: weights in non-increasing order, each to the first
/// currently lightest part.  (Any tie-breaking gives the same multiset of loads.)  Sorted.
fn lpt_loads(ws: &[i64], k: usize) -> Vec<i64> {
    let mut v = ws.to_vec();
    v.sort();
    v.reverse();
    let mut l = vec![0i64; k];
    for w in v {
        let mut best = 0;
        for j in 1..k {
            if l[j] < l[best] {
                best = j;
            }
        }
        l[best] += w;
    }
    l.sort();
    l
}

/// The number left after repeatedly replacing the two largest numbers by their difference.
fn residue(ws: &[i64]) -> i64 {
    let mut h: BinaryHeap<i64> = ws.iter().copied().collect();
    while h.len() >= 2 {
        let a = h.pop().unwrap();
        let b = h.pop().unwrap();
        h.push(a - b);
    }
    h.pop().unwrap_or(0)
}

// ------------------------------------------------------------------ run one op

type Verdict = Option<(&'static str, String)>;

/// What one run of an op reports back to `run_op`.
struct Ran {
    out: String,
    verdict: Verdict,
    nontrivial: bool,
    /// the reuse comparison was made
    reused: bool,
    /// pool sizes used (large cases only)
    pools: Option<(usize, usize)>,
    /// count keys of the extra comparisons made (`plumbing:…`, `context:…`, `special:…`)
    counts: Vec<String>,
}

pub fn run_op(ctx: &mut Ctx, op: &str) {
    if ctx.hang_limit_reached() {
        return;
    }
    let Some(parsed) = parse_op(op) else {
        ctx.record(op.to_string(), "bad-op".into(), false);
        return;
    };
    let r = match parsed {
        Op::Greedy { float, k, ws, negz, p } => run_greedy(float, k, &ws, &negz, &p, op),
        Op::GreedyF { k, ws, p } => run_greedyf(k, &ws, &p, op),
        Op::Kk { real, k, loads, ws, negz, p } => run_kk(real, k, loads, &ws, &negz, &p, op),
    };
    for c in &r.counts {
        ctx.count(c);
    }
    let kind = if op.starts_with("greedy") { "greedy" } else { "kk" };
    ctx.count(&format!("out_{}_{}", kind, r.out.split(' ').next().unwrap_or("")));
    if r.reused {
        ctx.count("reuse");
    }
    if let Some((a, b)) = r.pools {
        ctx.count(&format!("pool:{}", a));
        ctx.count(&format!("pool:{}", b));
    }
    let idx = ctx.record(op.to_string(), r.out, r.nontrivial);
    if let Some((sig, what)) = r.verdict {
        ctx.fail(idx, sig, what);
    }
}

// ------------------------------------------------------------------ pools and reuse

/// Large cases run inside rayon pools (Greedy and KarmarkarKarp are sequential today; a blocked
/// or parallel variant must not change the answer): the fresh run in a pool of `.0` workers, the
/// reuse run in a pool of `.1` workers.  Deterministic in the op.
fn pools_for(n: usize, k: usize) -> Option<(usize, usize)> {
    if n < 4096 {
        return None;
    }
    const T: [usize; 4] = [1, 2, 3, 16];
    let i = (n / 7 + k) % 4;
    Some((T[i], T[(i + 1 + k % 3) % 4]))
}

fn in_pool<T: Send>(threads: Option<usize>, f: impl FnOnce() -> T + Send) -> T {
    match threads {
        Some(t) => with_pool(t, f),
        None => f(),
    }
}

type Res = Result<(), coupe::Error>;

fn res_class(r: &Caught<Res>) -> String {
    match r {
        Caught::Ok(Ok(())) => "ok".into(),
        Caught::Ok(Err(e)) => format!("err {:?}", e),
        Caught::Panic(m) => format!("panic {}", m),
        Caught::Hang => "hang".into(),
    }
}

/// The reuse protocol, generic in the weight type.  `run(k, array, weights)` calls the algorithm
/// with a FRESH value; `run2(k, a1, w1, a2, w2)` calls ONE algorithm value on two inputs in a row.
/// 1. an id array is filled by a run with `k + 3` parts on another input (`other`);
/// 2. one algorithm value with `k` parts serves `other` (scratch array), then the real input on
///    the array left by step 1.
/// The outcome must be the one of the fresh run: same result, same ids.
fn reuse_differs<W: Clone>(
    k: usize,
    ws: &[W],
    other: &[W],
    p0: &[usize],
    fresh: &Caught<Res>,
    fresh_ids: &[usize],
    threads: Option<usize>,
    run: &(dyn Fn(usize, &mut [usize], Vec<W>) -> Res + Sync),
    run2: &(dyn Fn(usize, &mut [usize], Vec<W>, &mut [usize], Vec<W>) -> Res + Sync),
) -> Option<String>
where
    W: Send + Sync,
{
    let mut buf = p0.to_vec();
    let mut scratch = vec![0usize; p0.len()];
    let again: Caught<Res> = in_pool(threads, || {
        catch(|| {
            let _ = run(k + 3, &mut buf, other.to_vec());
            run2(k, &mut scratch, other.to_vec(), &mut buf, ws.to_vec())
        })
    });
    let (a, b) = (res_class(fresh), res_class(&again));
    if a != b {
        return Some(format!("fresh run: {} / reused objects: {}", a, b));
    }
    if matches!(fresh, Caught::Ok(Ok(()))) && buf != fresh_ids {
        let i = buf.iter().zip(fresh_ids).position(|(x, y)| x != y).unwrap_or(0);
        return Some(format!(
            "ids differ at index {} (fresh {}, reused objects {})",
            i,
            fresh_ids.get(i).copied().unwrap_or(0),
            buf.get(i).copied().unwrap_or(0)
        ));
    }
    None
}

/// Another input of the same length (used to give the reused objects a history).
fn other_i64(ws: &[i64]) -> Vec<i64> {
    ws.iter().rev().map(|w| w / 2 + 1).collect()
}

// ------------------------------------------------------------------ input types, tools, context

/// Ops up to this many weights (and array cells) get the input-type / tools / context variants.
const SMALL: usize = 200;

/// The reference run of an op (fresh objects, `Vec` input, caller's thread).
struct Fresh<'a> {
    /// `res_class` / `coarse` of the reference outcome
    class: String,
    coarse: &'static str,
    ids: &'a [usize],
    p0: &'a [usize],
}

#[derive(Default)]
struct Extras {
    counts: Vec<String>,
    fail: Verdict,
}

impl Extras {
    fn note(&mut self, key: &str, sig: &'static str, d: Option<String>) {
        self.counts.push(key.to_string());
        if let Some(d) = d {
            if self.fail.is_none() {
                self.fail = Some((sig, format!("{}: {}", key, d)));
            }
        }
    }
}

fn first_diff(a: &[usize], b: &[usize]) -> String {
    let i = a.iter().zip(b).position(|(x, y)| x != y).unwrap_or(a.len().min(b.len()));
    format!(
        "ids differ at index {} (reference {:?}, variant {:?})",
        i,
        a.get(i),
        b.get(i)
    )
}

/// Run a variant of the reference call (another input type, weight type, …) on a copy of the
/// initial array: same outcome and same array contents expected.
fn check_variant(fr: &Fresh, f: impl FnOnce(&mut [usize]) -> Res) -> Option<String> {
    let mut buf = fr.p0.to_vec();
    let r: Caught<Res> = catch(|| f(&mut buf));
    let b = res_class(&r);
    if fr.class != b {
        return Some(format!("reference run: {} / variant: {}", fr.class, b));
    }
    if buf != fr.ids {
        return Some(first_diff(fr.ids, &buf));
    }
    None
}

fn coarse(r: &Caught<Res>) -> &'static str {
    match r {
        Caught::Ok(Ok(())) => "ok",
        Caught::Ok(Err(_)) => "err",
        Caught::Panic(_) => "panic",
        Caught::Hang => "hang",
    }
}

fn fnv(s: &str) -> u64 {
    let mut h = 0xcbf2_9ce4_8422_2325u64;
    for b in s.bytes() {
        h = (h ^ b as u64).wrapping_mul(0x0000_0100_0000_01b3);
    }
    h
}

const TYPE_GREEDY: &str = "input-type-dependent@greedy";
const TYPE_KK: &str = "input-type-dependent@kk";

/// Every input type `Greedy::partition` accepts (`W: IntoIterator`, no `ExactSizeIterator`
/// bound) for the same weights: exact and inexact `size_hint`s.
fn greedy_plumbing<W>(k: usize, ws: &[W], fr: &Fresh, ex: &mut Extras)
where
    W: coupe::GreedyWeight + Copy + Send + Sync,
{
    let g = || coupe::Greedy { part_count: k };
    let h = ws.len() / 2;
    ex.note("plumbing:slice_iter_copied", TYPE_GREEDY, check_variant(fr, |a| g().partition(a, ws.iter().copied())));
    ex.note("plumbing:into_iter_map", TYPE_GREEDY, check_variant(fr, |a| g().partition(a, ws.to_vec().into_iter().map(|w| w))));
    ex.note("plumbing:vecdeque", TYPE_GREEDY, check_variant(fr, |a| g().partition(a, ws.iter().copied().collect::<VecDeque<W>>())));
    ex.note("plumbing:filter_true", TYPE_GREEDY, check_variant(fr, |a| g().partition(a, ws.iter().copied().filter(|_| true))));
    ex.note("plumbing:flat_map", TYPE_GREEDY, check_variant(fr, |a| g().partition(a, ws.iter().flat_map(|w| std::iter::once(*w)))));
    ex.note(
        "plumbing:from_fn",
        TYPE_GREEDY,
        check_variant(fr, |a| {
            let mut i = 0;
            g().partition(
                a,
                std::iter::from_fn(move || {
                    let r = ws.get(i).copied();
                    i += 1;
                    r
                }),
            )
        }),
    );
    ex.note("plumbing:chain", TYPE_GREEDY, check_variant(fr, |a| g().partition(a, ws[..h].iter().copied().chain(ws[h..].iter().copied()))));
    ex.note("plumbing:rev_rev", TYPE_GREEDY, check_variant(fr, |a| g().partition(a, ws.iter().copied().rev().rev())));
    match ws.len() {
        2 => ex.note("plumbing:array", TYPE_GREEDY, check_variant(fr, |a| g().partition(a, <[W; 2]>::try_from(ws).unwrap()))),
        3 => ex.note("plumbing:array", TYPE_GREEDY, check_variant(fr, |a| g().partition(a, <[W; 3]>::try_from(ws).unwrap()))),
        5 => ex.note("plumbing:array", TYPE_GREEDY, check_variant(fr, |a| g().partition(a, <[W; 5]>::try_from(ws).unwrap()))),
        _ => {}
    }
}

/// The input types `KarmarkarKarp::partition` accepts (`ExactSizeIterator` required).
fn kk_plumbing<W>(k: usize, ws: &[W], fr: &Fresh, ex: &mut Extras)
where
    W: coupe::KkWeight + Send + Sync,
{
    let g = || coupe::KarmarkarKarp { part_count: k };
    ex.note("plumbing:slice_iter_copied", TYPE_KK, check_variant(fr, |a| g().partition(a, ws.iter().copied())));
    ex.note("plumbing:into_iter_map", TYPE_KK, check_variant(fr, |a| g().partition(a, ws.to_vec().into_iter().map(|w| w))));
    ex.note("plumbing:vecdeque", TYPE_KK, check_variant(fr, |a| g().partition(a, ws.iter().copied().collect::<VecDeque<W>>())));
    ex.note("plumbing:rev_rev", TYPE_KK, check_variant(fr, |a| g().partition(a, ws.iter().copied().rev().rev())));
    ex.note("plumbing:slice_iter_cloned", TYPE_KK, check_variant(fr, |a| g().partition(a, ws.iter().cloned())));
    match ws.len() {
        2 => ex.note("plumbing:array", TYPE_KK, check_variant(fr, |a| g().partition(a, <[W; 2]>::try_from(ws).unwrap()))),
        3 => ex.note("plumbing:array", TYPE_KK, check_variant(fr, |a| g().partition(a, <[W; 3]>::try_from(ws).unwrap()))),
        5 => ex.note("plumbing:array", TYPE_KK, check_variant(fr, |a| g().partition(a, <[W; 5]>::try_from(ws).unwrap()))),
        _ => {}
    }
}

/// Sum of the absolute values (every partial sum either algorithm can form is bounded by it).
fn abs_total(ws: &[i64]) -> u128 {
    ws.iter().map(|w| w.unsigned_abs() as u128).sum()
}

/// Other weight types the bounds admit, where the values fit and every sum stays exact: the ids
/// must be the ones of the reference run.  `float_ref`: the reference ran on floats.
fn greedy_types(k: usize, ws: &[i64], float_ref: bool, fr: &Fresh, ex: &mut Extras) {
    let g = || coupe::Greedy { part_count: k };
    let t = abs_total(ws);
    let nonneg = ws.iter().all(|&w| w >= 0);
    if t < 1 << 31 {
        ex.note("plumbing:weight_i32", TYPE_GREEDY, check_variant(fr, |a| g().partition(a, ws.iter().map(|&w| w as i32).collect::<Vec<i32>>())));
    }
    if nonneg {
        ex.note("plumbing:weight_u64", TYPE_GREEDY, check_variant(fr, |a| g().partition(a, ws.iter().map(|&w| w as u64).collect::<Vec<u64>>())));
        if t < 1 << 32 {
            ex.note("plumbing:weight_u32", TYPE_GREEDY, check_variant(fr, |a| g().partition(a, ws.iter().map(|&w| w as u32).collect::<Vec<u32>>())));
        }
    }
    if t < 1 << 24 {
        ex.note("plumbing:weight_f32", TYPE_GREEDY, check_variant(fr, |a| g().partition(a, ws.iter().map(|&w| w as f32).collect::<Vec<f32>>())));
    }
    if t < 1 << 53 {
        if float_ref {
            ex.note("plumbing:weight_i64", TYPE_GREEDY, check_variant(fr, |a| g().partition(a, ws.to_vec())));
        } else {
            ex.note("plumbing:weight_f64", TYPE_GREEDY, check_variant(fr, |a| g().partition(a, ws.iter().map(|&w| w as f64).collect::<Vec<f64>>())));
        }
    }
}

fn kk_types(k: usize, ws: &[i64], real_ref: bool, fr: &Fresh, ex: &mut Extras) {
    let g = || coupe::KarmarkarKarp { part_count: k };
    let t = abs_total(ws);
    let nonneg = ws.iter().all(|&w| w >= 0);
    if t < 1 << 31 {
        ex.note("plumbing:weight_i32", TYPE_KK, check_variant(fr, |a| g().partition(a, ws.iter().map(|&w| w as i32).collect::<Vec<i32>>())));
    }
    if nonneg {
        ex.note("plumbing:weight_u64", TYPE_KK, check_variant(fr, |a| g().partition(a, ws.iter().map(|&w| w as u64).collect::<Vec<u64>>())));
        if t < 1 << 32 {
            ex.note("plumbing:weight_u32", TYPE_KK, check_variant(fr, |a| g().partition(a, ws.iter().map(|&w| w as u32).collect::<Vec<u32>>())));
        }
    }
    if t < 1 << 53 {
        if real_ref {
            ex.note("plumbing:weight_i64", TYPE_KK, check_variant(fr, |a| g().partition(a, ws.to_vec())));
        } else {
            ex.note("plumbing:weight_real", TYPE_KK, check_variant(fr, |a| g().partition(a, ws.iter().map(|&w| coupe::Real::from(w as f64)).collect::<Vec<coupe::Real>>())));
        }
    }
}

/// The tools entry point: `coupe_tools::parse_algorithm("<name>,<k>")` on a mesh-less problem
/// carrying the same weights (one criterion), run on a copy of the initial array.
fn check_tools(spec: &str, weights: mesh_io::weight::Array, fr: &Fresh) -> Option<String> {
    let mut buf = fr.p0.to_vec();
    let r: Caught<Result<(), String>> = catch(|| {
        let mut algo = coupe_tools::parse_algorithm::<2>(spec).map_err(|e| format!("{:#}", e))?;
        let problem = coupe_tools::Problem::<2>::without_mesh(weights);
        let mut runner = algo.to_runner(&problem);
        runner(&mut buf).map(|_| ()).map_err(|e| format!("{:#}", e))
    });
    let tools = match &r {
        Caught::Ok(Ok(())) => "ok",
        Caught::Ok(Err(_)) => "err",
        Caught::Panic(_) => "panic",
        Caught::Hang => "hang",
    };
    if tools != fr.coarse {
        let detail = match r {
            Caught::Ok(Err(e)) => e,
            Caught::Panic(m) => m,
            _ => String::new(),
        };
        return Some(format!("library: {} / tools: {} {}", fr.class, tools, detail));
    }
    if buf != fr.ids {
        return Some(first_diff(fr.ids, &buf));
    }
    None
}

fn static_pool(cell: &'static OnceLock<coupe::rayon::ThreadPool>, threads: usize) -> &'static coupe::rayon::ThreadPool {
    cell.get_or_init(|| coupe::rayon::ThreadPoolBuilder::new().num_threads(threads).build().expect("pool"))
}

static POOL4: OnceLock<coupe::rayon::ThreadPool> = OnceLock::new();
static POOL16: OnceLock<coupe::rayon::ThreadPool> = OnceLock::new();

/// Calling context: the same call from inside a rayon task, and as many calls at once
/// (8 on a pool of 4 workers, 32 on a pool of 16; every other call works on another input so
/// that different inputs interleave on the same worker threads).  `call` is the reference call,
/// `call_other` the same algorithm on another input of the same length.
fn context_checks(
    sig: &'static str,
    fr: &Fresh,
    call: &(dyn Fn(&mut [usize]) -> Res + Sync),
    call_other: &(dyn Fn(&mut [usize]) -> Res + Sync),
    ex: &mut Extras,
) {
    let want = fr.coarse;
    let run_one = |f: &(dyn Fn(&mut [usize]) -> Res + Sync)| -> (&'static str, Vec<usize>) {
        let mut b = fr.p0.to_vec();
        let r = std::panic::catch_unwind(AssertUnwindSafe(|| f(&mut b)));
        let c = match r {
            Ok(Ok(())) => "ok",
            Ok(Err(_)) => "err",
            Err(_) => "panic",
        };
        (c, b)
    };
    let judge = |c: &'static str, b: &[usize]| -> Option<String> {
        if c != want {
            Some(format!("reference run: {} / here: {}", want, c))
        } else if b != fr.ids {
            Some(first_diff(fr.ids, b))
        } else {
            None
        }
    };
    // (c) from inside a task spawned in a pool
    let p4 = static_pool(&POOL4, 4);
    let mut got = None;
    p4.install(|| {
        coupe::rayon::scope(|s| {
            s.spawn(|_| got = Some(run_one(call)));
        })
    });
    let (c, b) = got.expect("task ran");
    ex.note("context:inside_task", sig, judge(c, &b));
    // (d) many calls at once
    for (pool, calls, key) in [(p4, 8usize, "context:concurrent_8_on_4"), (static_pool(&POOL16, 16), 32, "context:concurrent_32_on_16")] {
        let results: Vec<(usize, &'static str, Vec<usize>)> = pool.install(|| {
            (0..calls)
                .into_par_iter()
                .map(|i| {
                    let (c, b) = if i % 2 == 0 { run_one(call) } else { run_one(call_other) };
                    (i, c, b)
                })
                .collect()
        });
        let mut d = None;
        for (i, c, b) in &results {
            if i % 2 == 0 && d.is_none() {
                d = judge(c, b).map(|m| format!("concurrent call #{}: {}", i, m));
            }
        }
        ex.note(key, sig, d);
    }
}

fn greedy_fresh<W: coupe::GreedyWeight>(k: usize, a: &mut [usize], w: Vec<W>) -> Res {
    coupe::Greedy { part_count: k }.partition(a, w)
}

fn greedy_twice<W: coupe::GreedyWeight>(
    k: usize,
    a1: &mut [usize],
    w1: Vec<W>,
    a2: &mut [usize],
    w2: Vec<W>,
) -> Res {
    let mut alg = coupe::Greedy { part_count: k };
    let _ = alg.partition(a1, w1);
    alg.partition(a2, w2)
}

fn kk_fresh<W: coupe::KkWeight>(k: usize, a: &mut [usize], w: Vec<W>) -> Res {
    coupe::KarmarkarKarp { part_count: k }.partition(a, w)
}

fn kk_twice<W: coupe::KkWeight>(k: usize, a1: &mut [usize], w1: Vec<W>, a2: &mut [usize], w2: Vec<W>) -> Res {
    let mut alg = coupe::KarmarkarKarp { part_count: k };
    let _ = alg.partition(a1, w1);
    alg.partition(a2, w2)
}

/// Outcomes other than `Ok(Ok(()))`, shared by the three runners.
fn other_outcome(algo: &str, res: Caught<Res>, lens_match: bool) -> (String, Verdict) {
    let sig = |s: &str| -> &'static str {
        match (algo, s) {
            ("greedy", "spurious") => "greedy-spurious-lenmismatch",
            ("greedy", _) => "greedy-unexpected-error",
            (_, "spurious") => "kk-spurious-lenmismatch",
            _ => "kk-unexpected-error",
        }
    };
    match res {
        Caught::Ok(Ok(())) => unreachable!(),
        Caught::Ok(Err(coupe::Error::InputLenMismatch { .. })) => {
            let v = if lens_match {
                Some((sig("spurious"), "InputLenMismatch on matching lengths".to_string()))
            } else {
                None
            };
            ("lenmismatch".to_string(), v)
        }
        Caught::Ok(Err(e)) => (format!("err {:?}", e), Some((sig("error"), format!("{:?}", e)))),
        Caught::Panic(m) => {
            let s = panic_sig(&m);
            (format!("panic {}", m), Some(("panic", format!("{} [{}]", m, s))))
        }
        Caught::Hang => ("hang".into(), Some(("hang", "watchdog".into()))),
    }
}

fn to_f64_nz(ws: &[i64], negz: &[bool]) -> Vec<f64> {
    ws.iter()
        .enumerate()
        .map(|(i, &w)| if w == 0 && negz.get(i).copied().unwrap_or(false) { -0.0 } else { w as f64 })
        .collect()
}

fn negz_key(negz: &[bool]) -> String {
    let c = negz.iter().filter(|&&b| b).count();
    format!("special:negzero_{}", if c % 2 == 1 { "odd_count" } else { "even_count" })
}

fn run_greedy(float: bool, k: usize, ws: &[i64], negz: &[bool], p0: &[usize], op: &str) -> Ran {
    let lens_match = ws.len() == p0.len();
    let pools = if lens_match { pools_for(ws.len(), k) } else { None };
    let mut p = p0.to_vec();
    let wf: Vec<f64> = if float { to_f64_nz(ws, negz) } else { vec![] };
    let res: Caught<Res> = in_pool(pools.map(|t| t.0), || {
        if float {
            catch(|| greedy_fresh(k, &mut p, wf.clone()))
        } else {
            catch(|| greedy_fresh(k, &mut p, ws.to_vec()))
        }
    });
    let nontrivial = lens_match && ws.len() >= 2 && k >= 2;
    let mut reuse_verdict: Verdict = None;
    if lens_match {
        let other = other_i64(ws);
        let d = if float {
            let of: Vec<f64> = other.iter().map(|&w| w as f64).collect();
            reuse_differs(k, &wf, &of, p0, &res, &p, pools.map(|t| t.1), &greedy_fresh::<f64>, &greedy_twice::<f64>)
        } else {
            reuse_differs(k, ws, &other, p0, &res, &p, pools.map(|t| t.1), &greedy_fresh::<i64>, &greedy_twice::<i64>)
        };
        if let Some(d) = d {
            reuse_verdict = Some(("greedy-reuse-differs", d));
        }
    }
    let (fresh_class, fresh_coarse) = (res_class(&res), coarse(&res));
    let (out, verdict): (String, Verdict) = match res {
        Caught::Ok(Ok(())) => {
            let mut v = None;
            if !lens_match {
                v = Some(("greedy-len-mismatch-ok", "Ok despite a length mismatch".to_string()));
            } else if let Some(loads) = part_loads(ws, &p, k.max(1)) {
                if k < 2 {
                    if p.iter().any(|&i| i != 0) {
                        v = Some(("greedy-k1-not-zero", format!("part_count {} but ids {}", k, short(&p))));
                    }
                } else {
                    // holds for all integers, negative ones included
                    let mut got = loads;
                    got.sort();
                    let want = lpt_loads(ws, k);
                    if got != want {
                        v = Some((
                            "greedy-not-lpt",
                            format!("sorted loads {} but LPT gives {}", short(&got), short(&want)),
                        ));
                    }
                }
            } else {
                v = Some((
                    "greedy-id-out-of-range",
                    format!("an id >= {} in {}", k.max(1), short(&p)),
                ));
            }
            (format!("ok {}", join(&p)), v)
        }
        r => other_outcome("greedy", r, lens_match),
    };
    // input types, weight types, tools, context, signed zero (small ops only)
    let mut ex = Extras::default();
    if ws.len() <= SMALL && p0.len() <= SMALL {
        {
            let fr = Fresh { class: fresh_class, coarse: fresh_coarse, ids: &p, p0 };
            if float {
                greedy_plumbing::<f64>(k, &wf, &fr, &mut ex);
            } else {
                greedy_plumbing::<i64>(k, ws, &fr, &mut ex);
            }
            greedy_types(k, ws, float, &fr, &mut ex);
            if float && negz.iter().any(|&b| b) {
                let plus: Vec<f64> = ws.iter().map(|&w| w as f64).collect();
                ex.note(&negz_key(negz), "negzero-dependent@greedy", check_variant(&fr, |a| greedy_fresh(k, a, plus.clone())));
            }
            let arr = if float {
                mesh_io::weight::Array::Floats(wf.iter().map(|&w| vec![w]).collect())
            } else {
                mesh_io::weight::Array::Integers(ws.iter().map(|&w| vec![w]).collect())
            };
            ex.note("plumbing:tools_parse_algorithm", "tools-dependent@greedy", check_tools(&format!("greedy,{}", k), arr, &fr));
            if fnv(op) % 4 == 0 {
                let other = other_i64(ws);
                if float {
                    let of: Vec<f64> = other.iter().map(|&w| w as f64).collect();
                    context_checks("context-dependent@greedy", &fr, &|a| greedy_fresh(k, a, wf.clone()), &|a| greedy_fresh(k, a, of.clone()), &mut ex);
                } else {
                    context_checks("context-dependent@greedy", &fr, &|a| greedy_fresh(k, a, ws.to_vec()), &|a| greedy_fresh(k, a, other.clone()), &mut ex);
                }
            }
        }
    }
    Ran { out, verdict: verdict.or(reuse_verdict).or(ex.fail), nontrivial, reused: lens_match, pools, counts: ex.counts }
}

/// `{:?}` of a slice, shortened (large cases).
fn short<T: std::fmt::Debug>(xs: &[T]) -> String {
    if xs.len() <= 40 {
        format!("{:?}", xs)
    } else {
        format!("{:?}… ({} entries)", &xs[..40], xs.len())
    }
}

/// LPT on `f64` weights with exactly the additions Greedy makes: weights in non-increasing order
/// (equal weights are the same number, their order cannot matter), each added to a currently
/// lightest part (equally light parts hold the same number, the choice cannot matter for the
/// multiset).  Returns the sorted bit patterns of the loads.
fn lpt_loads_f64_bits(ws: &[f64], k: usize) -> Vec<u64> {
    let mut v = ws.to_vec();
    v.sort_by(|a, b| b.partial_cmp(a).unwrap());
    let mut l = vec![0.0f64; k];
    for w in v {
        let mut best = 0;
        for j in 1..k {
            if l[j] < l[best] {
                best = j;
            }
        }
        l[best] += w;
    }
    let mut bits: Vec<u64> = l.iter().map(|x| x.to_bits()).collect();
    bits.sort();
    bits
}

/// Loads of the implementation's ids, added up in the order Greedy adds them (non-increasing
/// weight).  `None` if an id is out of range.
fn part_loads_f64_bits(ws: &[f64], ids: &[usize], k: usize) -> Option<Vec<u64>> {
    let mut order: Vec<usize> = (0..ws.len()).collect();
    order.sort_by(|&a, &b| ws[b].partial_cmp(&ws[a]).unwrap());
    let mut l = vec![0.0f64; k];
    for i in order {
        if ids[i] >= k {
            return None;
        }
        l[ids[i]] += ws[i];
    }
    let mut bits: Vec<u64> = l.iter().map(|x| x.to_bits()).collect();
    bits.sort();
    Some(bits)
}

fn run_greedyf(k: usize, ws: &[f64], p0: &[usize], op: &str) -> Ran {
    let lens_match = ws.len() == p0.len();
    let pools = if lens_match { pools_for(ws.len(), k) } else { None };
    let mut p = p0.to_vec();
    let res: Caught<Res> = in_pool(pools.map(|t| t.0), || catch(|| greedy_fresh(k, &mut p, ws.to_vec())));
    let nontrivial = lens_match && ws.len() >= 2 && k >= 2;
    let mut reuse_verdict: Verdict = None;
    if lens_match {
        let other: Vec<f64> = ws.iter().rev().map(|w| w * 0.5 + 1.0).collect();
        if let Some(d) = reuse_differs(k, ws, &other, p0, &res, &p, pools.map(|t| t.1), &greedy_fresh::<f64>, &greedy_twice::<f64>) {
            reuse_verdict = Some(("greedy-reuse-differs", d));
        }
    }
    let (fresh_class, fresh_coarse) = (res_class(&res), coarse(&res));
    let (out, verdict): (String, Verdict) = match res {
        Caught::Ok(Ok(())) => {
            let mut v = None;
            if !lens_match {
                v = Some(("greedy-len-mismatch-ok", "Ok despite a length mismatch".to_string()));
            } else if let Some(got) = part_loads_f64_bits(ws, &p, k.max(1)) {
                if k < 2 {
                    if p.iter().any(|&i| i != 0) {
                        v = Some(("greedy-k1-not-zero", format!("part_count {} but ids {}", k, short(&p))));
                    }
                } else {
                    let want = lpt_loads_f64_bits(ws, k);
                    if got != want {
                        let i = got.iter().zip(&want).position(|(a, b)| a != b).unwrap_or(0);
                        v = Some((
                            "greedy-not-lpt",
                            format!(
                                "f64 loads differ from sequential LPT (same additions): {}-th smallest load {:e} vs {:e}",
                                i,
                                f64::from_bits(got[i]),
                                f64::from_bits(want[i])
                            ),
                        ));
                    }
                }
            } else {
                v = Some(("greedy-id-out-of-range", format!("an id >= {} in {}", k.max(1), short(&p))));
            }
            (format!("ok {}", join(&p)), v)
        }
        r => other_outcome("greedy", r, lens_match),
    };
    let mut ex = Extras::default();
    if ws.len() <= SMALL && p0.len() <= SMALL {
        let fr = Fresh { class: fresh_class, coarse: fresh_coarse, ids: &p, p0 };
        greedy_plumbing::<f64>(k, ws, &fr, &mut ex);
        // signed zero
        if ws.iter().any(|w| *w == 0.0 && w.is_sign_negative()) {
            let negz: Vec<bool> = ws.iter().map(|w| *w == 0.0 && w.is_sign_negative()).collect();
            let plus: Vec<f64> = ws.iter().map(|w| if *w == 0.0 { 0.0 } else { *w }).collect();
            ex.note(&negz_key(&negz), "negzero-dependent@greedy", check_variant(&fr, |a| greedy_fresh(k, a, plus.clone())));
        }
        // scaling by an exact power of two (into the normal range) must not change any decision:
        // sums of numbers below 2^-900 scaled up by 2^600, of numbers above 2^900 (and no
        // positive weight below 2^-300) scaled down by 2^-600 round at the same places
        let hi = ws.iter().cloned().fold(0.0f64, f64::max);
        let lo_pos = ws.iter().cloned().filter(|w| *w > 0.0).fold(f64::INFINITY, f64::min);
        let scale = if hi > 0.0 && hi < 2f64.powi(-900) {
            Some((2f64.powi(600), "special:scaled_up_2^600"))
        } else if hi > 2f64.powi(900) && lo_pos > 2f64.powi(-300) {
            Some((2f64.powi(-600), "special:scaled_down_2^-600"))
        } else {
            None
        };
        if let Some((f, key)) = scale {
            let scaled: Vec<f64> = ws.iter().map(|w| w * f).collect();
            ex.note(key, "scale-dependent@greedy", check_variant(&fr, |a| greedy_fresh(k, a, scaled.clone())));
        }
        let arr = mesh_io::weight::Array::Floats(ws.iter().map(|&w| vec![w]).collect());
        ex.note("plumbing:tools_parse_algorithm", "tools-dependent@greedy", check_tools(&format!("greedy,{}", k), arr, &fr));
        if fnv(op) % 4 == 0 {
            let other: Vec<f64> = ws.iter().rev().map(|w| w * 0.5).collect();
            context_checks("context-dependent@greedy", &fr, &|a| greedy_fresh(k, a, ws.to_vec()), &|a| greedy_fresh(k, a, other.clone()), &mut ex);
        }
    }
    Ran { out, verdict: verdict.or(reuse_verdict).or(ex.fail), nontrivial, reused: lens_match, pools, counts: ex.counts }
}

fn to_real_nz(ws: &[i64], negz: &[bool]) -> Vec<coupe::Real> {
    to_f64_nz(ws, negz).into_iter().map(coupe::Real::from).collect()
}

fn run_kk(real: bool, k: usize, cmp_loads: bool, ws: &[i64], negz: &[bool], p0: &[usize], op: &str) -> Ran {
    let lens_match = ws.len() == p0.len();
    let pools = if lens_match { pools_for(ws.len(), k) } else { None };
    let mut p = p0.to_vec();
    let wr: Vec<coupe::Real> = if real { to_real_nz(ws, negz) } else { vec![] };
    let res: Caught<Res> = in_pool(pools.map(|t| t.0), || {
        if real {
            catch(|| kk_fresh(k, &mut p, wr.clone()))
        } else {
            catch(|| kk_fresh(k, &mut p, ws.to_vec()))
        }
    });
    let (fresh_class, fresh_coarse) = (res_class(&res), coarse(&res));
    let n = ws.len();
    let nontrivial = lens_match && n >= 2 && k >= 2;
    let kk1 = k.max(1);
    let mut reuse_verdict: Verdict = None;
    if lens_match {
        let other = other_i64(ws);
        let d = if real {
            let or: Vec<coupe::Real> = other.iter().map(|&w| coupe::Real::from(w as f64)).collect();
            reuse_differs(k, &wr, &or, p0, &res, &p, pools.map(|t| t.1), &kk_fresh::<coupe::Real>, &kk_twice::<coupe::Real>)
        } else {
            reuse_differs(k, ws, &other, p0, &res, &p, pools.map(|t| t.1), &kk_fresh::<i64>, &kk_twice::<i64>)
        };
        if let Some(d) = d {
            reuse_verdict = Some(("kk-reuse-differs", d));
        }
    }
    let (out, verdict): (String, Verdict) = match res {
        Caught::Ok(Ok(())) => {
            let mut v = None;
            if !lens_match {
                v = Some(("kk-len-mismatch-ok", "Ok despite a length mismatch".to_string()));
            } else if let Some(loads) = part_loads(ws, &p, kk1) {
                if k < 2 || n < 2 {
                    if p.iter().any(|&i| i != 0) {
                        v = Some((
                            "kk-trivial-not-zero",
                            format!("part_count {} / {} weights but ids {}", k, n, short(&p)),
                        ));
                    }
                } else {
                    let hi = *loads.iter().max().unwrap();
                    let lo = *loads.iter().min().unwrap();
                    if k == 2 {
                        // holds for all integers
                        let r = residue(ws);
                        if (loads[0] - loads[1]).abs() != r {
                            v = Some((
                                "kk2-diff-not-residue",
                                format!("loads {} / {} but the differencing residue is {}", loads[0], loads[1], r),
                            ));
                        }
                    }
                    if v.is_none() && ws.iter().all(|&w| w >= 0) {
                        let wmax = *ws.iter().max().unwrap();
                        if hi - lo > wmax {
                            v = Some((
                                "kk-gap-exceeds-max",
                                format!("loads {}: gap {} > largest weight {}", short(&loads), hi - lo, wmax),
                            ));
                        }
                    }
                }
            } else {
                v = Some(("kk-id-out-of-range", format!("an id >= {} in {}", kk1, short(&p))));
            }
            let out = if cmp_loads {
                // tie-invariant observable: loads of parts 0..max(k,1), ascending; ids out of
                // range are left out of the sums (flagged above)
                let mut l = vec![0i64; kk1];
                for (w, &i) in ws.iter().zip(&p) {
                    if i < kk1 {
                        l[i] += *w;
                    }
                }
                l.sort();
                format!("ok loads {}", join(&l))
            } else {
                format!("ok ids {}", join(&p))
            };
            (out, v)
        }
        r => other_outcome("kk", r, lens_match),
    };
    let mut ex = Extras::default();
    if ws.len() <= SMALL && p0.len() <= SMALL {
        let fr = Fresh { class: fresh_class, coarse: fresh_coarse, ids: &p, p0 };
        if real {
            kk_plumbing::<coupe::Real>(k, &wr, &fr, &mut ex);
        } else {
            kk_plumbing::<i64>(k, ws, &fr, &mut ex);
        }
        kk_types(k, ws, real, &fr, &mut ex);
        if real && negz.iter().any(|&b| b) {
            let plus: Vec<coupe::Real> = ws.iter().map(|&w| coupe::Real::from(w as f64)).collect();
            ex.note(&negz_key(negz), "negzero-dependent@kk", check_variant(&fr, |a| kk_fresh(k, a, plus.clone())));
        }
        let arr = if real {
            mesh_io::weight::Array::Floats(to_f64_nz(ws, negz).into_iter().map(|w| vec![w]).collect())
        } else {
            mesh_io::weight::Array::Integers(ws.iter().map(|&w| vec![w]).collect())
        };
        ex.note("plumbing:tools_parse_algorithm", "tools-dependent@kk", check_tools(&format!("kk,{}", k), arr, &fr));
        if fnv(op) % 4 == 0 {
            let other = other_i64(ws);
            if real {
                let or: Vec<coupe::Real> = other.iter().map(|&w| coupe::Real::from(w as f64)).collect();
                context_checks("context-dependent@kk", &fr, &|a| kk_fresh(k, a, wr.clone()), &|a| kk_fresh(k, a, or.clone()), &mut ex);
            } else {
                context_checks("context-dependent@kk", &fr, &|a| kk_fresh(k, a, ws.to_vec()), &|a| kk_fresh(k, a, other.clone()), &mut ex);
            }
        }
    }
    Ran { out, verdict: verdict.or(reuse_verdict).or(ex.fail), nontrivial, reused: lens_match, pools, counts: ex.counts }
}

// ------------------------------------------------------------------ generator

/// Emit one KarmarkarKarp case; `cmp` is decided here (never in `run_op`).
/// Returns `Some(exact ids asked for)` for a k-way case where that is a real decision.
fn emit_kk(ctx: &mut Ctx, k: usize, ws: &[i64], p: &[usize]) -> Option<bool> {
    let decisive = k >= 3 && ws.len() >= 2 && ws.len() == p.len();
    let (sens, by_id) = if decisive { kk_tie_sensitive_why(ws, k) } else { (false, false) };
    if decisive {
        // the share of tie-free k-way cases (exact ids) must stay visible
        ctx.count(if sens { "kk_cmp_loads" } else { "kk_cmp_ids" });
        if by_id {
            ctx.count("kk_cmp_loads_renamed_id_in_heap_tie");
        }
    } else {
        ctx.count("kk_deterministic_ids");
    }
    let op = kk_op(k, sens, ws, p);
    run_op(ctx, &op);
    if decisive {
        Some(!sens)
    } else {
        None
    }
}

fn emit_greedy(ctx: &mut Ctx, float: bool, k: usize, ws: &[i64], p: &[usize]) {
    let op = greedy_op(float, k, ws, p);
    run_op(ctx, &op);
}

const SHAPES: [&str; 9] =
    ["small", "wide", "ties", "huge", "dominant", "all_equal", "all_zero", "distinct", "pow2"];

fn weights(ctx: &mut Ctx, shape: usize, n: usize) -> Vec<i64> {
    match shape {
        0 => (0..n).map(|_| ctx.rng.range(0, 9)).collect(),
        1 => (0..n).map(|_| ctx.rng.range(0, 1000)).collect(),
        2 => (0..n).map(|_| ctx.rng.range(1, 3)).collect(),
        3 => (0..n).map(|_| ctx.rng.range(0, 1_000_000_000)).collect(),
        4 => {
            // one dominant element
            let mut v: Vec<i64> = (0..n).map(|_| ctx.rng.range(0, 20)).collect();
            if n > 0 {
                let i = ctx.rng.usize(n);
                v[i] = ctx.rng.range(100, 5000);
            }
            v
        }
        5 => {
            let w = ctx.rng.range(1, 50);
            vec![w; n]
        }
        6 => vec![0; n],
        7 => {
            // all distinct: a shuffled range with a random stride
            let start = ctx.rng.range(0, 20);
            let stride = ctx.rng.range(1, 7);
            let mut v: Vec<i64> = (0..n as i64).map(|i| start + stride * i).collect();
            ctx.rng.shuffle(&mut v);
            v
        }
        _ => (0..n).map(|_| 1i64 << ctx.rng.usize(31)).collect(),
    }
}

fn initial_array(ctx: &mut Ctx, m: usize) -> Vec<usize> {
    if ctx.rng.chance(9, 10) {
        vec![FILL; m]
    } else {
        ctx.count("initial_array_garbage");
        (0..m).map(|_| *ctx.rng.pick(&[0usize, 1, 2, 7, 1000, FILL])).collect()
    }
}

pub fn generate(ctx: &mut Ctx) {
    // 0. process-level state: which instantiation runs first in this process is drawn from the
    //    seed (a cache initialised by the first call must not change later results; every one
    //    of these ops is compared with the model and judged by the oracle like any other)
    first_calls(ctx);
    // 1. exhaustive sub-space: every vector over 0..=alpha up to length maxlen, every k in 1..=kmax
    let (alpha, maxlen, kmax) = if ctx.quick() { (3i64, 5usize, 4usize) } else { (4, 6, 4) };
    for len in 0..=maxlen {
        let mut v = vec![0i64; len];
        let p = vec![FILL; len];
        loop {
            for k in 1..=kmax {
                ctx.count("exhaustive_ops");
                emit_greedy(ctx, false, k, &v, &p);
                if k >= 2 {
                    ctx.count("exhaustive_ops");
                    emit_greedy(ctx, true, k, &v, &p);
                }
                ctx.count("exhaustive_ops");
                let _ = emit_kk(ctx, k, &v, &p);
            }
            // next vector
            let mut i = 0;
            while i < len {
                if v[i] < alpha {
                    v[i] += 1;
                    break;
                }
                v[i] = 0;
                i += 1;
            }
            if i == len {
                break;
            }
        }
    }
    ctx.notes.push(format!(
        "exhaustive sub-space: all weight vectors over 0..={} of length 0..={} x part counts 1..={} x (Greedy on i64, Greedy on f64 for k >= 2, KarmarkarKarp)",
        alpha, maxlen, kmax
    ));

    // 2. random vectors in nine shapes
    let nmax = if ctx.quick() { 16 } else { 24 };
    for _ in 0..ctx.budget(12000, 150000) {
        // mostly 4..=nmax weights, tiny vectors (0..=3) in one case out of seven
        let n = if ctx.rng.chance(1, 7) { ctx.rng.usize(4) } else { 4 + ctx.rng.usize(nmax - 3) };
        let shape = ctx.rng.usize(SHAPES.len());
        ctx.count(&format!("shape_{}", SHAPES[shape]));
        let ws = weights(ctx, shape, n);
        // part count: mostly 2..=6, sometimes 1, 7..=12, or more parts than weights
        let mut k = match ctx.rng.usize(20) {
            0 => 1,
            1..=15 => 2 + ctx.rng.usize(5),
            16..=17 => 7 + ctx.rng.usize(6),
            _ => n + 1 + ctx.rng.usize(4),
        };
        let p = initial_array(ctx, n);
        match ctx.rng.usize(20) {
            0..=4 => {
                ctx.count("random_greedy_i64");
                ctx.count(&k_class(k, n));
                emit_greedy(ctx, false, k, &ws, &p);
            }
            5..=8 => {
                ctx.count("random_greedy_f64");
                ctx.count(&k_class(k, n));
                emit_greedy(ctx, true, k, &ws, &p);
            }
            9..=13 => {
                ctx.count("random_kk_two_way");
                let _ = emit_kk(ctx, 2, &ws, &p);
            }
            _ => {
                if k < 3 {
                    k = 3 + ctx.rng.usize(4);
                }
                ctx.count("random_kk_k_way");
                ctx.count(&k_class(k, n));
                match emit_kk(ctx, k, &ws, &p) {
                    Some(true) => ctx.count("random_kk_k_way_exact_ids"),
                    Some(false) => ctx.count("random_kk_k_way_sorted_loads"),
                    None => {}
                }
            }
        }
    }

    // 2b. k-way KarmarkarKarp on shapes where equal sums are rare (wide, huge, distinct values,
    //     powers of two; at least as many weights as parts), so that a large share of the k-way
    //     cases is compared on exact ids
    for _ in 0..ctx.budget(4000, 50000) {
        let kspan = if ctx.rng.chance(1, 5) { 8 } else { 3 };
        let k = 3 + ctx.rng.usize(kspan);
        let n = k + ctx.rng.usize(nmax);
        let shape = *ctx.rng.pick(&[1usize, 3, 3, 7, 8]);
        ctx.count(&format!("kway_stream_shape_{}", SHAPES[shape]));
        let ws = weights(ctx, shape, n);
        let p = initial_array(ctx, n);
        match emit_kk(ctx, k, &ws, &p) {
            Some(true) => ctx.count("kway_stream_exact_ids"),
            Some(false) => ctx.count("kway_stream_sorted_loads"),
            None => {}
        }
    }

    // 3. malformed / edge stream
    for _ in 0..ctx.budget(100, 1000) {
        let algo = ctx.rng.usize(3); // 0 greedy i64, 1 greedy f64, 2 kk
        let kind = ctx.rng.usize(6);
        let (k, ws, p): (usize, Vec<i64>, Vec<usize>) = match kind {
            0 | 1 => {
                // length mismatch, n = 0 and m = 0 included, one part and several
                ctx.count("edge_len_mismatch");
                let n = ctx.rng.usize(6);
                let mut m = ctx.rng.usize(6);
                if m == n {
                    m = if ctx.rng.chance(1, 2) { n + 1 } else { n.saturating_sub(1) };
                    if m == n {
                        m = n + 2;
                    }
                }
                let k = *ctx.rng.pick(&[0usize, 1, 1, 2, 2, 3, 5]);
                let ws = (0..n).map(|_| ctx.rng.range(0, 9)).collect();
                let p = if ctx.rng.chance(1, 2) { vec![FILL; m] } else { vec![7; m] };
                (k, ws, p)
            }
            2 => {
                ctx.count("edge_k0");
                let n = ctx.rng.usize(6);
                (0, (0..n).map(|_| ctx.rng.range(0, 9)).collect(), initial_array(ctx, n))
            }
            3 => {
                ctx.count("edge_k1");
                let n = ctx.rng.usize(6);
                (1, (0..n).map(|_| ctx.rng.range(0, 9)).collect(), initial_array(ctx, n))
            }
            4 => {
                ctx.count("edge_n01");
                let n = ctx.rng.usize(2);
                let k = 2 + ctx.rng.usize(4);
                (k, (0..n).map(|_| ctx.rng.range(0, 9)).collect(), initial_array(ctx, n))
            }
            _ => {
                // negative weights: outside the property's quantifier; correspondence
                // (plus the LPT and residue identities, which hold for all integers)
                ctx.count("edge_negative_weights");
                let n = 2 + ctx.rng.usize(7);
                let k = 2 + ctx.rng.usize(4);
                (k, (0..n).map(|_| ctx.rng.range(-9, 9)).collect(), vec![FILL; n])
            }
        };
        match algo {
            0 => emit_greedy(ctx, false, k, &ws, &p),
            // negative weights: i64 only
            1 if kind != 5 => emit_greedy(ctx, true, k, &ws, &p),
            1 => emit_greedy(ctx, false, k, &ws, &p),
            _ => {
                let _ = emit_kk(ctx, k, &ws, &p);
            }
        }
    }

    // 4. parameter corners and large sizes
    corner_stream(ctx);
    large_stream(ctx);

    // 5. special values (signed zero, subnormal and near-overflow magnitudes, i64 beyond 2^53)
    special_stream(ctx);
}

// ------------------------------------------------------------------ special values

fn first_calls(ctx: &mut Ctx) {
    let ws = [5i64, 3, 3, 2, 2, 2, 1];
    let p = vec![FILL; ws.len()];
    let nz = vec![false; ws.len()];
    let mut order = vec![
        ("greedy_i64", greedy_op(false, 3, &ws, &p)),
        ("greedy_f64", greedy_op(true, 3, &ws, &p)),
        ("kk_i64_two_way", kk_op(2, false, &ws, &p)),
        ("kk_real_two_way", format!("kkr 2 ids {}", fmt_arrays_nz(&ws, &nz, &p))),
        ("kk_i64_k_way", kk_op(3, true, &ws, &p)),
        ("kk_real_k_way", format!("kkr 3 loads {}", fmt_arrays_nz(&ws, &nz, &p))),
        ("greedy_f64_inexact", greedyf_op(3, &[0.1, 0.2, 0.3, 0.7, 1.0 / 3.0], &vec![FILL; 5])),
    ];
    ctx.rng.shuffle(&mut order);
    ctx.count(&format!("context:first_call_{}", order[0].0));
    for (_, op) in order {
        run_op(ctx, &op);
    }
}

/// KarmarkarKarp on `coupe::Real` (op `kkr`), `-0` where `negz` says so; `cmp` decided like
/// `emit_kk` (the classification looks at values only, and -0.0 == 0.0).
fn emit_kkr(ctx: &mut Ctx, k: usize, ws: &[i64], negz: &[bool], p: &[usize]) {
    let decisive = k >= 3 && ws.len() >= 2 && ws.len() == p.len();
    let sens = decisive && kk_tie_sensitive(ws, k);
    if decisive {
        ctx.count(if sens { "kk_cmp_loads" } else { "kk_cmp_ids" });
    } else {
        ctx.count("kk_deterministic_ids");
    }
    let op = format!("kkr {} {} {}", k, if sens { "loads" } else { "ids" }, fmt_arrays_nz(ws, negz, p));
    run_op(ctx, &op);
}

const EXTREME: [&str; 4] = ["subnormal", "subnormal_1e-310", "near_overflow", "min_normal_both_sides"];

/// `f64` weights at the ends of the range (all finite, non-negative, with a finite total).
fn extreme_weights(ctx: &mut Ctx, class: usize, n: usize) -> Vec<f64> {
    match class {
        // subnormal: bit patterns with a zero exponent field
        0 => (0..n).map(|_| f64::from_bits(ctx.rng.range(1, 1 << 40) as u64)).collect(),
        // e.g. 64 weights of 1e-310, a few doubled or halved
        1 => (0..n)
            .map(|_| match ctx.rng.usize(4) {
                0 => 2e-310,
                1 => 5e-311,
                _ => 1e-310,
            })
            .collect(),
        // one weight f64::MAX / 2, the others share ≈ 8.9e307: the total stays finite, and
        // for many draws total × 1.01 would overflow
        2 => {
            let mut v = vec![f64::MAX / 2.0];
            let rest = n.saturating_sub(1).max(1);
            for _ in 0..rest {
                let f = 0.95 + 0.05 * (ctx.rng.below(1000) as f64 / 1000.0);
                v.push(8.9e307 * f / rest as f64);
            }
            ctx.rng.shuffle(&mut v);
            v
        }
        // the smallest normal number, its neighbours and simple multiples on both sides
        _ => (0..n)
            .map(|_| {
                let m = f64::MIN_POSITIVE;
                match ctx.rng.usize(9) {
                    0 => m,
                    1 => f64::from_bits(m.to_bits() - 1),
                    2 => f64::from_bits(m.to_bits() + 1),
                    3 => m * 0.5,
                    4 => m * 0.75,
                    5 => m * 1.5,
                    6 => m * 2.0,
                    7 => m * 0.25,
                    _ => f64::from_bits(m.to_bits() - 2),
                }
            })
            .collect(),
    }
}

fn special_stream(ctx: &mut Ctx) {
    // signed zero: -0.0 weights (an odd and an even number of them) among small weights with
    // ties, n above / equal to / below the part count; Greedy on f64 and KarmarkarKarp on Real
    for round in 0..ctx.budget(90, 900) {
        let k = *ctx.rng.pick(&[2usize, 2, 3, 3, 4, 5, 64]);
        let n = match round % 3 {
            0 => k + 1 + ctx.rng.usize(6),
            1 => k,
            _ => 1 + ctx.rng.usize(k.min(8) - 1),
        };
        let mut ws: Vec<i64> = (0..n).map(|_| ctx.rng.range(0, 4)).collect();
        let mut negz = vec![false; n];
        let want = if ctx.rng.chance(1, 8) { n } else { (1 + ctx.rng.usize(4)).min(n) };
        let mut idx: Vec<usize> = (0..n).collect();
        ctx.rng.shuffle(&mut idx);
        for &i in idx.iter().take(want) {
            ws[i] = 0;
            negz[i] = true;
        }
        let p = initial_array(ctx, n);
        let rel = if n > k { "n_gt_k" } else if n == k { "n_eq_k" } else { "n_lt_k" };
        ctx.count(&format!("special:negzero_{}", rel));
        if round % 2 == 0 {
            ctx.count("special:negzero_greedy_f64");
            let op = format!("greedy f64 {} {}", k, fmt_arrays_nz(&ws, &negz, &p));
            run_op(ctx, &op);
        } else {
            ctx.count("special:negzero_kk_real");
            emit_kkr(ctx, k, &ws, &negz, &p);
        }
    }
    // KarmarkarKarp on Real without signed zeros: the float path of the tools
    for _ in 0..ctx.budget(60, 600) {
        let n = ctx.rng.usize(14);
        let shape = *ctx.rng.pick(&[0usize, 1, 2, 4, 7]);
        let ws = weights(ctx, shape, n);
        let k = *ctx.rng.pick(&[1usize, 2, 2, 3, 4, 6]);
        let p = initial_array(ctx, n);
        ctx.count("special:kk_real");
        emit_kkr(ctx, k, &ws, &vec![false; n], &p);
    }
    // subnormal and near-overflow magnitudes through Greedy on f64 (oracle: sequential LPT with
    // the same additions; ids must survive scaling by an exact power of two), with a few -0.0
    for round in 0..ctx.budget(60, 800) {
        let class = round % EXTREME.len();
        let n = if class == 1 && round % 8 == 1 { 64 } else { 2 + ctx.rng.usize(20) };
        let mut ws = extreme_weights(ctx, class, n);
        if ctx.rng.chance(1, 5) {
            let i = ctx.rng.usize(ws.len());
            ws[i] = -0.0;
        }
        let k = if ctx.rng.chance(1, 6) { *ctx.rng.pick(&CORNER_KS) } else { 2 + ctx.rng.usize(6) };
        ctx.count(&format!("special:{}", EXTREME[class]));
        let op = greedyf_op(k, &ws, &vec![FILL; ws.len()]);
        run_op(ctx, &op);
    }
    // i64 weights at and above 2^53 that differ by less than the spacing of doubles there
    // (2^53 + 1, + 2, + 3; 2^60 + 1, …): a conversion to f64 on the way in (tools entry point,
    // another weight type) would turn them into ties
    for round in 0..ctx.budget(40, 400) {
        let base: i64 = if round % 2 == 0 { 1 << 53 } else { 1 << 60 };
        let big = if base == 1 << 53 { 2 + ctx.rng.usize(9) } else { 2 + ctx.rng.usize(5) };
        let mut ws: Vec<i64> = (0..big).map(|_| base + ctx.rng.range(-3, 6)).collect();
        for _ in 0..ctx.rng.usize(6) {
            ws.push(ctx.rng.range(0, 1000));
        }
        ctx.rng.shuffle(&mut ws);
        let n = ws.len();
        let k = *ctx.rng.pick(&[2usize, 2, 3, 4, n, n + 2]);
        let p = vec![FILL; n];
        ctx.count("special:i64_above_2^53_near_ties");
        emit_greedy(ctx, false, k, &ws, &p);
        emit_kk_auto(ctx, k, &ws, &p);
    }
}

// ------------------------------------------------------------------ corner and large streams

/// Sizes up to which `Driver/C12.lean` runs the model (beyond: `skip large-n`).
const MODEL_MAX_NK: usize = 13000;

/// k-way KarmarkarKarp, comparing the sorted loads (always tie-invariant) without classifying
/// the case: used where the classification (quadratic) or the model is too slow.
fn emit_kk_loads(ctx: &mut Ctx, k: usize, ws: &[i64], p: &[usize]) {
    ctx.count("kk_cmp_loads_unclassified");
    let op = kk_op(k, true, ws, p);
    run_op(ctx, &op);
}

fn emit_kk_auto(ctx: &mut Ctx, k: usize, ws: &[i64], p: &[usize]) {
    if k >= 3 && (ws.len() > 400 || ws.len() * k > MODEL_MAX_NK) {
        emit_kk_loads(ctx, k, ws, p);
    } else {
        let _ = emit_kk(ctx, k, ws, p);
    }
}

const CORNER_KS: [usize; 8] = [63, 64, 65, 66, 128, 256, 257, 1000];

/// Part counts 63, 64, 65, 66, 128, 256, 257, 1000 (even and odd) with fewer weights than
/// parts (2, 3, k-1, and a count the k-way model can follow), as many, and more (k+37, 4k+1);
/// weights near 2^61 whose total fits in `i64`; `f64` weights with inexact sums.
fn corner_stream(ctx: &mut Ctx) {
    for &k in &CORNER_KS {
        let n_model = (3000 / k).max(4).min(k - 1);
        let ns = [2usize, 3, n_model, k - 1, k, k + 37, 4 * k + 1];
        for (j, &n) in ns.iter().enumerate() {
            let rel = if n < k { "n_lt_k" } else if n == k { "n_eq_k" } else { "n_gt_k" };
            // two weight shapes per (k, n): wide values, and small values with many ties
            for shape in [1usize, 0] {
                let ws = weights(ctx, shape, n);
                let p = initial_array(ctx, n);
                ctx.count(&format!("corner:k{}_{}", k, rel));
                emit_greedy(ctx, (j + shape) % 2 == 1, k, &ws, &p);
                // the list-based k-way model costs ≈ (n·k)² / 10^8 s: above n·k = 1500 only one
                // of the two shapes goes through KarmarkarKarp when the model follows the case
                if shape == 1 || n * k <= 1500 || n * k > MODEL_MAX_NK {
                    ctx.count(&format!("corner:k{}_{}", k, rel));
                    emit_kk_auto(ctx, k, &ws, &p);
                }
            }
        }
        // a second call with a weight vector that has one dominant element
        let ws = weights(ctx, 4, k + 5);
        let p = initial_array(ctx, k + 5);
        ctx.count(&format!("corner:k{}_dominant", k));
        emit_greedy(ctx, false, k, &ws, &p);
        ctx.count(&format!("corner:k{}_dominant", k));
        emit_kk_auto(ctx, k, &ws, &p);
    }
    // exactly two and three weights, two-way
    for n in [2usize, 3] {
        for _ in 0..4 {
            let ws = weights(ctx, 1, n);
            ctx.count("corner:two_way_n2_n3");
            emit_kk_auto(ctx, 2, &ws, &vec![FILL; n]);
            emit_greedy(ctx, false, 2, &ws, &vec![FILL; n]);
        }
    }
    // i64 weights near 2^61 whose total still fits: three huge ones plus small ones
    for round in 0..ctx.budget(6, 40) {
        let mut ws: Vec<i64> = vec![
            (1i64 << 61) + ctx.rng.range(0, 1000),
            (1i64 << 61) - ctx.rng.range(1, 1000),
            (1i64 << 61) + ctx.rng.range(0, 5),
        ];
        let extra = ctx.rng.usize(20);
        for _ in 0..extra {
            let w = if ctx.rng.chance(1, 2) { ctx.rng.range(0, 1_000_000_000) } else { ctx.rng.range(0, 1i64 << 55) };
            ws.push(w);
        }
        // total < 3·2^61 + 1005 + 20·2^55 < 2^63
        ctx.rng.shuffle(&mut ws);
        let n = ws.len();
        let k = *ctx.rng.pick(&[2usize, 2, 3, 5, 64]);
        ctx.count("corner:i64_near_2^61");
        if round % 2 == 0 {
            emit_greedy(ctx, false, k, &ws, &vec![FILL; n]);
        }
        emit_kk_auto(ctx, k, &ws, &vec![FILL; n]);
    }
    // f64 weights whose sums are not exact: tenths, thirds, integers just above 2^53
    for round in 0..ctx.budget(30, 400) {
        let n = 2 + ctx.rng.usize(60);
        let kind = round % 3;
        let ws = inexact_weights(ctx, kind, n);
        let k = if ctx.rng.chance(1, 4) { *ctx.rng.pick(&CORNER_KS) } else { 2 + ctx.rng.usize(7) };
        ctx.count(&format!("corner:f64_inexact_{}", ["tenths", "thirds", "above_2^53"][kind]));
        let op = greedyf_op(k, &ws, &vec![FILL; n]);
        run_op(ctx, &op);
    }
}

/// `f64` weights whose sums round: multiples of 0.1, multiples of 1/3, even integers just
/// above 2^53 (all non-negative and finite).
fn inexact_weights(ctx: &mut Ctx, kind: usize, n: usize) -> Vec<f64> {
    (0..n)
        .map(|_| match kind {
            0 => ctx.rng.range(0, 1000) as f64 * 0.1,
            1 => ctx.rng.range(0, 1000) as f64 / 3.0,
            _ => 9007199254740992.0 + 2.0 * ctx.rng.range(0, 500) as f64,
        })
        .collect()
}

const LARGE_KINDS: [&str; 8] =
    ["random", "asc_blocks_4096", "desc_blocks_8192", "presorted_dups", "all_equal", "dominant", "small_ties", "dominant_at_seam"];

/// Weight vectors for the large stream: random order, sorted in runs that coincide with blocks
/// of 4096 / 8192 elements, fully pre-sorted with duplicates, all equal, one dominant weight
/// (larger than the sum of the others; anywhere, or right at a block seam), small values.
fn large_weights(ctx: &mut Ctx, kind: usize, n: usize) -> Vec<i64> {
    match kind {
        0 => (0..n).map(|_| ctx.rng.range(0, 1_000_000_000)).collect(),
        1 | 2 => {
            let mut v: Vec<i64> = (0..n).map(|_| ctx.rng.range(0, 1_000_000)).collect();
            let b = if kind == 1 { 4096 } else { 8192 };
            for c in v.chunks_mut(b) {
                c.sort();
                if kind == 2 {
                    c.reverse();
                }
            }
            v
        }
        3 => (0..n as i64).map(|i| i / 3).collect(),
        4 => vec![ctx.rng.range(1, 1000); n],
        5 | 7 => {
            let mut v: Vec<i64> = (0..n).map(|_| ctx.rng.range(0, 100)).collect();
            let i = if kind == 7 { 4096.min(n - 1) } else { ctx.rng.usize(n) };
            v[i] = 0;
            let s: i64 = v.iter().sum();
            v[i] = s + 1 + ctx.rng.range(0, 1000);
            v
        }
        _ => (0..n).map(|_| ctx.rng.range(0, 9)).collect(),
    }
}

#[derive(Clone, Copy)]
enum LargeAlgo {
    GreedyI,
    GreedyFInt,
    GreedyInexact(usize),
    Kk,
}

/// Sizes just above and far above the usual block thresholds (2^12, 2^13, 2^14, 2^16), never a
/// multiple of a power of two.  The model follows Greedy and two-way KarmarkarKarp up to
/// n = 21000 (quadratic list model: ≈ 8 s resp. ≈ 19 s at 20001, so the quick tier has one such
/// Greedy case and keeps two-way KarmarkarKarp at 8193) and k-way KarmarkarKarp up to
/// n·k = 13000; beyond, the oracle alone judges (LPT multiset, residue, gap ≤ largest weight,
/// ids < k, reuse and pool-size independence).  k-way KarmarkarKarp keeps n·k·16 bytes in its
/// heap, hence the smaller n for the large part counts.
fn large_stream(ctx: &mut Ctx) {
    use LargeAlgo::*;
    // (algorithm, part count, weights, kind of weight vector)
    let mut cases: Vec<(LargeAlgo, usize, usize, usize)> = vec![
        (GreedyI, 64, 20001, 0),
        (GreedyFInt, 65, 4097, 1),
        (GreedyI, 257, 65548, 2),
        (GreedyI, 1000, 70001, 6),
        (GreedyInexact(0), 66, 8193, 0),
        (GreedyInexact(1), 63, 4097, 0),
        (GreedyInexact(2), 128, 20001, 0),
        (Kk, 2, 8193, 0),
        (Kk, 2, 4097, 7),
        (Kk, 2, 70001, 5),
        (Kk, 2, 65548, 1),
        (Kk, 3, 4097, 0),
        (Kk, 64, 20001, 0),
        (Kk, 257, 8193, 2),
        (Kk, 1000, 4097, 6),
    ];
    if !ctx.quick() {
        cases.extend_from_slice(&[
            (GreedyI, 66, 20001, 1),
            (GreedyI, 128, 20001, 4),
            (GreedyI, 63, 20001, 5),
            (GreedyFInt, 256, 16422, 3),
            (GreedyI, 2, 20001, 6),
            (GreedyI, 64, 131077, 0),
            (GreedyI, 1000, 140003, 2),
            (GreedyFInt, 65, 140003, 1),
            (GreedyI, 257, 70001, 7),
            (GreedyInexact(0), 64, 140003, 0),
            (GreedyInexact(1), 257, 65548, 0),
            (GreedyInexact(2), 1000, 20001, 0),
            (Kk, 2, 20001, 0),
            (Kk, 2, 20001, 5),
            (Kk, 2, 16422, 2),
            (Kk, 2, 131077, 0),
            (Kk, 2, 140003, 5),
            (Kk, 2, 140003, 6),
            (Kk, 2, 70001, 3),
            (Kk, 3, 4097, 1),
            (Kk, 3, 65548, 0),
            (Kk, 5, 140003, 2),
            (Kk, 66, 70001, 0),
            (Kk, 128, 16422, 1),
            (Kk, 65, 16422, 5),
            (Kk, 256, 20001, 6),
            (Kk, 1000, 8193, 0),
        ]);
    }
    for (algo, k, n, kind) in cases {
        ctx.count(&format!("large:{}", n));
        ctx.count(&format!("large_kind:{}", LARGE_KINDS[kind]));
        let p = vec![FILL; n];
        match algo {
            GreedyI | GreedyFInt => {
                let ws = large_weights(ctx, kind, n);
                ctx.count("large_greedy");
                emit_greedy(ctx, matches!(algo, GreedyFInt), k, &ws, &p);
            }
            GreedyInexact(f) => {
                let ws = inexact_weights(ctx, f, n);
                ctx.count("large_greedy_inexact_f64");
                let op = greedyf_op(k, &ws, &p);
                run_op(ctx, &op);
            }
            Kk => {
                let ws = large_weights(ctx, kind, n);
                ctx.count(if k == 2 { "large_kk_two_way" } else { "large_kk_k_way" });
                emit_kk_auto(ctx, k, &ws, &p);
            }
        }
    }
}

fn k_class(k: usize, n: usize) -> String {
    let c = if k > n {
        "k_gt_n"
    } else if k <= 1 {
        "k_1"
    } else if k <= 6 {
        "k_2_6"
    } else {
        "k_7_12"
    };
    format!("random_{}", c)
}
