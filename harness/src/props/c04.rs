//! C04 — every bisection of the Rcb/Rib tree is within tolerance or adjacent to the weighted median.
//!
//! ops (floats as hex bit patterns, points point-major):
//!   `rcb <D> <iter> <tol f64> <threads> <n> <w…> <coords f64 n·D>`
//!   `rib <D> <iter> <tol f64> <threads> <n> <w…> <orig coords f64 n·D> <rot coords f64 n·D>`
//!       (`rot` = the points in the frame Rib builds: `obb_frame` hook in a 1-thread pool)
//!   `split <D> <coord> <tol f64> <min f32> <max f32> <n> <w…> <coords f32 n·D>`
//! out:
//!   rcb/rib: `ok <ids> | <exit>,<sum>,<weight_left>,<split_pos f32>,<n_low> …` (bisection nodes in
//!       pre-order: node, low subtree, high subtree; `exit` ∈ allleft|plateau|nopoint|tol)
//!   split:   `ok <exit> <split> <weight_left> <split_pos f32> | <item ids in final order>`
//!   `panic <file:line: msg>` | `hang` | `bad-op` | `frame-mismatch` | `replay-mismatch`
//!
//! The ids come from the public API.  The trace comes from `replay_rcb`, a re-implementation of
//! `rcb`/`rcb_recurse` on top of the hook `coupe::verif::rcb::par_rcb_split` (one real split per
//! node); the exit tag of a node comes from `replica_split`, a sequential transliteration of
//! `par_rcb_split`, cross-checked against the hook at every node.  The oracle works on the tree the
//! implementation produced, in exact integers.

use crate::common::*;
use coupe::Partition as _;
use coupe::PointND;
use std::fmt::Write as _;

const TOLS: [f64; 4] = [0.0, 0.01, 0.05, 0.5];
/// iteration cap of the replica's search loop (same as the model's fuel)
const MAX_SPLIT_ITERS: usize = 2000;

const SIG_K2: &str = "rcb-k2-rounding";
const SIG_K1C: &str = "rcb-k1c-all-left";
const SIG_K1A: &str = "rcb-k1a-plateau";
const SIG_K1B: &str = "rcb-k1b-heavy-left";
/// the `max <= split_target + nearest_distance` exit fired on rounded f32 values although a point
/// lies strictly between the split position and `max` (found by this harness; a sub-class of what
/// would otherwise be `rcb-unbalanced-other`)
const SIG_K2B: &str = "rcb-k2b-nopoint-rounding";
const SIG_OTHER: &str = "rcb-unbalanced-other";
/// the search interval or the split position is not finite although every coordinate is: the
/// bisection target overflowed (`(min + max) / 2.0` did, beyond 1.7e38, before /repo 2a9cff7 made it
/// `min / 2.0 + max / 2.0`): every item is on one side of it twice, the node is not cut at all
const SIG_K3: &str = "rcb-k3-midpoint-overflow";
const SIG_PREMISE: &str = "rcb-premise-violated";
/// what `par_rcb_split` reports contradicts what its fold/reduce must compute on these items,
/// whatever rayon's chunking (never a rounding effect: both facts are exact in IEEE arithmetic)
const SIG_REPORT: &str = "rcb-split-report-inconsistent";
/// from this many items on rayon may split the fold of `par_rcb_split` (`with_min_len(4096)`)
const LARGE_N: usize = 4096;

// ------------------------------------------------------------------ replica of `par_rcb_split`

#[derive(Clone, Copy, PartialEq, Eq, Debug)]
enum Exit {
    AllLeft,
    Plateau,
    NoPoint,
    Tol,
}

impl Exit {
    fn name(self) -> &'static str {
        match self {
            Exit::AllLeft => "allleft",
            Exit::Plateau => "plateau",
            Exit::NoPoint => "nopoint",
            Exit::Tol => "tol",
        }
    }
}

#[derive(Clone, Debug)]
struct Replica {
    exit: Exit,
    /// `nearest_idx` at the exit (None for the all-left return)
    pivot: Option<usize>,
    weight_left: i64,
    split_pos: f32,
    count_left: usize,
    /// `min`, `max` when the loop returned
    fmin: f32,
    fmax: f32,
    /// `max` was assigned at least once (it is no longer the bounding-box bound)
    max_updated: bool,
    iters: usize,
    /// largest `weight_left` / `sum - weight_left` at a step after which the search went on (the
    /// direction test ran on them); statistics of the narrow-weight-type stream
    max_wl_cont: i64,
    max_wr_cont: i64,
}

/// Sequential transliteration of `par_rcb_split` (the search loop only) on the coordinates of the
/// split axis. `sum` is what `rcb_recurse` passes down. `None`: the loop did not return within
/// `MAX_SPLIT_ITERS` iterations.
fn replica_split(xs: &[f32], ws: &[i64], sum: i64, tolerance: f64, mut min: f32, mut max: f32) -> Option<Replica> {
    let mut prev_count_left = usize::MAX;
    let mut max_updated = false;
    let mut iters = 0usize;
    let (mut max_wl_cont, mut max_wr_cont) = (0i64, 0i64);
    loop {
        iters += 1;
        if iters > MAX_SPLIT_ITERS {
            return None;
        }
        let split_target = min / 2.0 + max / 2.0; // as par_rcb_split since /repo 2a9cff7
        let mut count_left = 0usize;
        let mut weight_left = 0i64;
        let mut nearest_idx: Option<usize> = None;
        let mut nearest_distance = f32::INFINITY;
        for (idx, (point, weight)) in xs.iter().zip(ws).enumerate() {
            let distance = point - split_target;
            if distance < 0.0 {
                count_left += 1;
                weight_left += *weight;
            } else if distance < nearest_distance {
                nearest_distance = distance;
                nearest_idx = Some(idx);
            }
        }
        let nearest_idx = match nearest_idx {
            Some(v) => v,
            None if prev_count_left == count_left => {
                return Some(Replica {
                    exit: Exit::AllLeft,
                    pivot: None,
                    weight_left: sum,
                    split_pos: max,
                    count_left,
                    fmin: min,
                    fmax: max,
                    max_updated,
                    iters,
                    max_wl_cont,
                    max_wr_cont,
                });
            }
            None => {
                max = split_target;
                max_updated = true;
                prev_count_left = count_left;
                continue;
            }
        };
        let imbalance = {
            let ideal_weight_left = sum as f64 / 2.0;
            let weight_left = weight_left as f64;
            f64::abs((weight_left - ideal_weight_left) / ideal_weight_left)
        };
        let exit = if count_left == prev_count_left {
            Some(Exit::Plateau)
        } else if max <= split_target + nearest_distance {
            Some(Exit::NoPoint)
        } else if imbalance <= tolerance {
            Some(Exit::Tol)
        } else {
            None
        };
        if let Some(exit) = exit {
            return Some(Replica {
                exit,
                pivot: Some(nearest_idx),
                weight_left,
                split_pos: split_target,
                count_left,
                fmin: min,
                fmax: max,
                max_updated,
                iters,
                max_wl_cont,
                max_wr_cont,
            });
        }
        prev_count_left = count_left;
        let weight_right = sum - weight_left;
        max_wl_cont = max_wl_cont.max(weight_left);
        max_wr_cont = max_wr_cont.max(weight_right);
        if weight_left < weight_right {
            min = split_target;
        } else {
            max = split_target;
            max_updated = true;
        }
    }
}

/// Transliteration of `reorder_split_scalar` on the split axis: the final order of the local
/// indices and the split index. `pivot = None`: the all-left return (nothing is moved).
fn replica_reorder(xs: &[f32], pivot: Option<usize>) -> (Vec<usize>, usize) {
    let n = xs.len();
    let mut a: Vec<usize> = (0..n).collect();
    let Some(pivot) = pivot else {
        return (a, n);
    };
    a.swap(0, pivot);
    let pv = xs[a[0]];
    // `l`, `r` index the tail after cell 0
    let mut l = 0usize;
    let mut r = n - 1;
    loop {
        while l < r && xs[a[1 + l]] < pv {
            l += 1;
        }
        while l < r && pv <= xs[a[1 + r - 1]] {
            r -= 1;
        }
        if r <= l {
            break;
        }
        r -= 1;
        a.swap(1 + l, 1 + r);
        l += 1;
    }
    a.swap(0, l);
    (a, l)
}

// ------------------------------------------------------------------ the oracle, one node

#[derive(Clone, Debug, Default)]
struct NodeEval {
    /// actual weight of the node and of its low side
    w: i64,
    wl: i64,
    within_tol: bool,
    brackets: bool,
    /// a K2 symptom at this node (pivot not a nearest point, reported weight wrong, sum drift)
    k2_here: bool,
    /// exit = tolerance, or the final interval holds at most one distinct value
    premise: bool,
    /// achievable low weights around the half: largest with 2A <= W, smallest with 2A >= W
    below: i64,
    above: i64,
    distinct: usize,
    /// exit `nopoint` although an item lies in `[split_pos, max)`: the test was decided by rounding
    spurious_nopoint: bool,
    /// the reported result contradicts the fold's definition (see `SIG_REPORT`)
    anomaly: Option<String>,
    /// two DISTINCT coordinates at or right of split_pos share the smallest rounded distance: which
    /// becomes the pivot depends on the order of the items and, with several chunks, on rayon's split
    tie_possible: bool,
    /// the search interval or the split position is not finite although every coordinate is
    overflowed: bool,
    /// all-left exit although items lie at or right of the last target: `point - split_target`
    /// overflowed to +inf for all of them (a gap wider than f32::MAX, only in a loose inherited box)
    distance_overflow_all_left: bool,
}

/// `xs`, `ws`: the node's items (split axis); `order[..split]` = the low side the implementation made.
#[allow(clippy::too_many_arguments)]
fn eval_node(
    xs: &[f32],
    ws: &[i64],
    order: &[usize],
    split: usize,
    sum_passed: i64,
    wl_reported: i64,
    split_pos: f32,
    tol: f64,
    rep: Option<&Replica>,
) -> NodeEval {
    let n = xs.len();
    let w: i64 = ws.iter().sum();
    let wl: i64 = order[..split].iter().map(|&i| ws[i]).sum();
    // achievable low weights A_1 = 0 < … : weight strictly below each distinct value; A_{m+1} = W
    let mut idx: Vec<usize> = (0..n).collect();
    idx.sort_by(|&a, &b| xs[a].partial_cmp(&xs[b]).unwrap_or(std::cmp::Ordering::Equal));
    let mut ach: Vec<i64> = Vec::new();
    let mut acc = 0i64;
    let mut k = 0;
    while k < n {
        ach.push(acc);
        let v = xs[idx[k]];
        while k < n && xs[idx[k]] == v {
            acc += ws[idx[k]];
            k += 1;
        }
    }
    let m = ach.len();
    ach.push(acc); // = W
    let within_tol = w == 0
        || ((wl as f64 - w as f64 / 2.0) / (w as f64 / 2.0)).abs() <= tol
        || ((2 * wl - w).abs() as f64) <= tol * w as f64;
    let mut brackets = false;
    for j in 0..=m {
        if ach[j] != wl {
            continue;
        }
        if j < m && 2 * ach[j] <= w && w <= 2 * ach[j + 1] {
            brackets = true;
        }
        if j >= 1 && 2 * ach[j - 1] <= w && w <= 2 * ach[j] {
            brackets = true;
        }
    }
    let below = ach.iter().copied().filter(|a| 2 * a <= w).max().unwrap_or(0);
    let above = ach.iter().copied().filter(|a| 2 * a >= w).min().unwrap_or(w);
    // K2 symptoms, from the implementation's output alone
    let mut k2_here = wl_reported != wl || sum_passed != w;
    if split < n {
        // the high side is not empty: its smallest coordinate is the pivot's; a low item at or
        // right of the split position is a point nearer than the pivot that the search missed
        if order[..split].iter().any(|&i| xs[i] >= split_pos) {
            k2_here = true;
        }
    }
    let premise = match rep {
        None => false,
        // an overflowed interval is outside the exact arithmetic the premise is about
        Some(r) if !(r.fmin.is_finite() && r.fmax.is_finite() && split_pos.is_finite()) => false,
        Some(r) => {
            r.exit == Exit::Tol || {
                let mut first: Option<f32> = None;
                let mut resolved = true;
                for &c in xs {
                    let inside = r.fmin <= c && (if r.max_updated { c < r.fmax } else { c <= r.fmax });
                    if inside {
                        match first {
                            None => first = Some(c),
                            Some(f) if f == c => {}
                            Some(_) => {
                                resolved = false;
                                break;
                            }
                        }
                    }
                }
                resolved
            }
        }
    };
    let spurious_nopoint = match rep {
        Some(r) if r.exit == Exit::NoPoint => xs.iter().any(|&c| split_pos <= c && c < r.fmax),
        _ => false,
    };
    // What the fold + reduce of par_rcb_split must have computed, for ANY chunking and whatever the
    // float rounding (`c - t < 0.0` is exact: it holds iff `c < t`):
    //  (1) weight_left = weight of the items strictly left of split_pos (all-left exit: the sum given);
    //  (2) the pivot – smallest coordinate of the high side – has the smallest ROUNDED distance to
    //      split_pos among the items at or right of it (K2 is: a nearer item with an EQUAL rounded
    //      distance; an item with a strictly smaller rounded distance is never passed over).
    let overflowed = xs.iter().all(|c| c.is_finite())
        && (!split_pos.is_finite() || rep.map_or(false, |r| !(r.fmin.is_finite() && r.fmax.is_finite())));
    let distance_overflow_all_left = match rep {
        Some(r) if r.exit == Exit::AllLeft && r.fmin.is_finite() && r.fmax.is_finite() => {
            let t = r.fmin / 2.0 + r.fmax / 2.0;
            xs.iter().any(|&c| !(c - t < 0.0))
        }
        _ => false,
    };
    let mut anomaly = None;
    let mut tie_possible = false;
    if split < n {
        let pv = order[split..].iter().map(|&i| xs[i]).fold(f32::INFINITY, f32::min);
        let dp = pv - split_pos;
        tie_possible = (0..n).any(|i| !(xs[i] - split_pos < 0.0) && xs[i] != pv && xs[i] - split_pos == dp);
    }
    if split < n {
        let strictly_left: i64 = (0..n).filter(|&i| xs[i] - split_pos < 0.0).map(|i| ws[i]).sum();
        if wl_reported != strictly_left {
            anomaly = Some(format!(
                "weight_left reported {} but the items strictly left of split_pos {:e} weigh {}",
                wl_reported, split_pos, strictly_left
            ));
        } else {
            let pv = order[split..].iter().map(|&i| xs[i]).fold(f32::INFINITY, f32::min);
            let dp = pv - split_pos;
            if let Some(i) = (0..n).find(|&i| !(xs[i] - split_pos < 0.0) && xs[i] - split_pos < dp) {
                anomaly = Some(format!(
                    "pivot coordinate {:e} (rounded distance {:e} to split_pos {:e}) although item {} at {:e} has the smaller rounded distance {:e}",
                    pv, dp, split_pos, i, xs[i], xs[i] - split_pos
                ));
            }
        }
    } else if n > 0 && wl_reported != sum_passed {
        anomaly = Some(format!("all-left exit reports weight_left {} instead of the sum {} it was given", wl_reported, sum_passed));
    }
    NodeEval { w, wl, within_tol, brackets, k2_here, premise, below, above, distinct: m, spurious_nopoint, anomaly, tie_possible, overflowed, distance_overflow_all_left }
}

fn signature(anomalous: bool, overflowed: bool, k2: bool, exit: Option<Exit>, wl: i64, w: i64, spurious_nopoint: bool) -> &'static str {
    if anomalous {
        // an inconsistent report here or above: whatever follows is not one of the known causes
        SIG_OTHER
    } else if overflowed {
        SIG_K3
    } else if k2 {
        SIG_K2
    } else {
        match exit {
            Some(Exit::AllLeft) => SIG_K1C,
            Some(Exit::Plateau) => SIG_K1A,
            Some(Exit::NoPoint) if 2 * wl >= w => SIG_K1B,
            Some(Exit::NoPoint) if spurious_nopoint => SIG_K2B,
            _ => SIG_OTHER,
        }
    }
}

/// One bisection node as observed.
#[derive(Clone, Debug)]
struct NodeOut {
    path: String,
    coord: usize,
    n: usize,
    n_low: usize,
    exit: Option<Exit>,
    sum_passed: i64,
    wl_reported: i64,
    split_pos: f32,
    drift: bool,
    mismatch: bool,
    /// K2 symptom here or at an ancestor
    k2: bool,
    /// every item lies inside `[min, max]` on the split axis
    boxed: bool,
    /// K2 symptom at an ancestor
    k2_above: bool,
    /// an inconsistent report (`SIG_REPORT`) here or at an ancestor
    anomalous: bool,
    eval: NodeEval,
}

impl NodeOut {
    fn exit_name(&self) -> &'static str {
        if self.mismatch {
            "replica-mismatch"
        } else {
            self.exit.map(|e| e.name()).unwrap_or("replica-mismatch")
        }
    }
    fn token(&self) -> String {
        if self.mismatch || self.exit.is_none() {
            return "replica-mismatch".to_string();
        }
        format!(
            "{},{},{},{:x},{}",
            self.exit_name(),
            self.sum_passed,
            self.wl_reported,
            self.split_pos.to_bits(),
            self.n_low
        )
    }
}

/// Count the nodes and derive the verdicts of a case: one `(signature, what)` per signature.
fn judge(ctx: &mut Ctx, nodes: &[NodeOut]) -> Vec<(String, String)> {
    let mut verdicts: Vec<(String, String, usize)> = Vec::new();
    let mut add = |sig: &str, what: String| {
        if let Some(v) = verdicts.iter_mut().find(|v| v.0 == sig) {
            v.2 += 1;
        } else {
            verdicts.push((sig.to_string(), what, 1));
        }
    };
    for nd in nodes {
        let e = &nd.eval;
        ctx.count("node_total");
        ctx.count(&format!("node_exit_{}", nd.exit_name()));
        if nd.drift {
            ctx.count("node_sum_drift");
        }
        if nd.mismatch {
            ctx.count("node_replica_mismatch");
        }
        if e.within_tol {
            ctx.count("node_within_tol");
        }
        if e.brackets {
            ctx.count("node_brackets");
        }
        if e.premise {
            ctx.count("node_premise_holds");
        }
        if nd.k2 {
            ctx.count("node_k2_symptom_here_or_above");
        }
        if e.spurious_nopoint {
            ctx.count("node_nopoint_exit_decided_by_rounding");
        }
        if e.distance_overflow_all_left {
            ctx.count("node_all_left_exit_hiding_items_at_infinite_distance");
        }
        if !nd.boxed {
            ctx.count(if nd.k2_above { "node_box_not_containing_below_k2" } else { "node_box_not_containing_without_k2" });
        }
        if let Some(a) = &e.anomaly {
            ctx.count("node_report_inconsistent");
            add(SIG_REPORT, format!("node {} (axis {}, {} items): {}", nd.path, nd.coord, nd.n, a));
        }
        if e.within_tol || e.brackets {
            continue;
        }
        let sig = signature(nd.anomalous, e.overflowed, nd.k2, nd.exit, e.wl, e.w, e.spurious_nopoint);
        ctx.count(&format!("node_fail_{}", sig));
        let what = format!(
            "node {} (axis {}, {} items, {} distinct values) exit {}: low side weighs {} of {} \
             (reported {}, sum passed down {}, {} items low, split_pos {:e}); achievable low weights \
             around the half: {} and {}",
            nd.path,
            nd.coord,
            nd.n,
            e.distinct,
            nd.exit_name(),
            e.wl,
            e.w,
            nd.wl_reported,
            nd.sum_passed,
            nd.n_low,
            nd.split_pos,
            e.below,
            e.above
        );
        if e.premise && sig != SIG_K2 {
            ctx.count("premise_holds_but_fails");
            add(SIG_PREMISE, what.clone());
        }
        add(sig, what);
    }
    verdicts
        .into_iter()
        .map(|(s, w, k)| (s, if k > 1 { format!("{} [+{} more nodes]", w, k - 1) } else { w }))
        .collect()
}

// ------------------------------------------------------------------ running the implementation

fn to_points<const D: usize>(xs: &[f64]) -> Vec<PointND<D>> {
    xs.chunks_exact(D).map(|c| PointND::<D>::from_column_slice(c)).collect()
}

fn pool_size(threads: usize) -> usize {
    threads.clamp(1, 64)
}

type ApiOut = Result<Vec<usize>, String>;

fn api_rcb_d<const D: usize>(iter: usize, tol: f64, threads: usize, ws: Vec<i64>, xs: Vec<f64>) -> Caught<ApiOut> {
    catch_timeout(30, move || {
        let points: Vec<PointND<D>> = to_points::<D>(&xs);
        let mut ids = vec![0usize; ws.len()];
        let r = with_pool(pool_size(threads), || {
            coupe::Rcb { iter_count: iter, tolerance: tol }.partition(&mut ids, (points, ws))
        });
        r.map(|()| ids).map_err(|e| format!("{:?}", e))
    })
}

fn api_rcb(d: usize, iter: usize, tol: f64, threads: usize, ws: &[i64], xs: &[f64]) -> Caught<ApiOut> {
    if d == 2 {
        api_rcb_d::<2>(iter, tol, threads, ws.to_vec(), xs.to_vec())
    } else {
        api_rcb_d::<3>(iter, tol, threads, ws.to_vec(), xs.to_vec())
    }
}

fn api_rib_2(iter: usize, tol: f64, threads: usize, ws: Vec<i64>, xs: Vec<f64>) -> Caught<ApiOut> {
    catch_timeout(30, move || {
        let points = to_points::<2>(&xs);
        let mut ids = vec![0usize; ws.len()];
        let r = with_pool(pool_size(threads), || {
            coupe::Rib { iter_count: iter, tolerance: tol }.partition(&mut ids, (&points[..], ws))
        });
        r.map(|()| ids).map_err(|e| format!("{:?}", e))
    })
}

fn api_rib_3(iter: usize, tol: f64, threads: usize, ws: Vec<i64>, xs: Vec<f64>) -> Caught<ApiOut> {
    catch_timeout(30, move || {
        let points = to_points::<3>(&xs);
        let mut ids = vec![0usize; ws.len()];
        let r = with_pool(pool_size(threads), || {
            coupe::Rib { iter_count: iter, tolerance: tol }.partition(&mut ids, (&points[..], ws))
        });
        r.map(|()| ids).map_err(|e| format!("{:?}", e))
    })
}

fn api_rib(d: usize, iter: usize, tol: f64, threads: usize, ws: &[i64], xs: &[f64]) -> Caught<ApiOut> {
    if d == 2 {
        api_rib_2(iter, tol, threads, ws.to_vec(), xs.to_vec())
    } else {
        api_rib_3(iter, tol, threads, ws.to_vec(), xs.to_vec())
    }
}

// ------------------------------------------------------------------ narrow integer weight types

/// `wt_<type>` variants of `rcbvar` / `ribvar`: the same data with the weights in a narrower integer
/// type the trait bounds of `RcbWeight` admit (C `int` weights arrive like this through the FFI), and
/// the largest value of the type. The contract: every weight and the TOTAL fit the type – then no
/// arithmetic of the search may leave the type's range (every partial sum is at most the total), the
/// ids must be those of the `i64` run of the same data, which is judged node by node.
const WT_TYPES: [(&str, i64); 6] = [
    ("wt_i8", i8::MAX as i64),
    ("wt_u8", u8::MAX as i64),
    ("wt_i16", i16::MAX as i64),
    ("wt_u16", u16::MAX as i64),
    ("wt_i32", i32::MAX as i64),
    ("wt_u32", u32::MAX as i64),
];

fn wt_max(var: &str) -> Option<i64> {
    WT_TYPES.iter().find(|t| t.0 == var).map(|t| t.1)
}

fn typed_rcb<const D: usize, W>(iter: usize, tol: f64, threads: usize, ws: Vec<W>, xs: Vec<f64>) -> Caught<ApiOut>
where
    W: coupe::RcbWeight + 'static,
{
    catch_timeout(30, move || {
        let points: Vec<PointND<D>> = to_points::<D>(&xs);
        let mut ids = vec![0usize; ws.len()];
        let r = with_pool(pool_size(threads), || {
            coupe::Rcb { iter_count: iter, tolerance: tol }.partition(&mut ids, (points, ws))
        });
        r.map(|()| ids).map_err(|e| format!("{:?}", e))
    })
}

macro_rules! typed_rib_fn {
    ($name:ident, $d:literal) => {
        /// 1-thread pool, as the plain Rib run (the frame is a parallel `f64` sum)
        fn $name<W>(iter: usize, tol: f64, ws: Vec<W>, xs: Vec<f64>) -> Caught<ApiOut>
        where
            W: coupe::RcbWeight + 'static,
        {
            catch_timeout(30, move || {
                let points = to_points::<$d>(&xs);
                let mut ids = vec![0usize; ws.len()];
                let r = with_pool(1, || {
                    coupe::Rib { iter_count: iter, tolerance: tol }.partition(&mut ids, (&points[..], ws))
                });
                r.map(|()| ids).map_err(|e| format!("{:?}", e))
            })
        }
    };
}
typed_rib_fn!(typed_rib_2, 2);
typed_rib_fn!(typed_rib_3, 3);

/// The ids of Rcb / Rib with the weights converted to the type of `var`. `None`: not applicable (a
/// weight or the total does not fit the type, or a weight is negative: outside the contract).
#[allow(clippy::too_many_arguments)]
fn typed_ids(rib: bool, d: usize, var: &str, iter: usize, tol: f64, threads: usize, ws: &[i64], xs: &[f64]) -> Option<Caught<ApiOut>> {
    let max = wt_max(var)?;
    if ws.iter().any(|&w| w < 0 || w > max) || ws.iter().sum::<i64>() > max {
        return None;
    }
    macro_rules! go {
        ($t:ty) => {{
            let w: Vec<$t> = ws.iter().map(|v| *v as $t).collect();
            match (rib, d) {
                (false, 2) => typed_rcb::<2, $t>(iter, tol, threads, w, xs.to_vec()),
                (false, _) => typed_rcb::<3, $t>(iter, tol, threads, w, xs.to_vec()),
                (true, 2) => typed_rib_2::<$t>(iter, tol, w, xs.to_vec()),
                (true, _) => typed_rib_3::<$t>(iter, tol, w, xs.to_vec()),
            }
        }};
    }
    Some(match var {
        "wt_i8" => go!(i8),
        "wt_u8" => go!(u8),
        "wt_i16" => go!(i16),
        "wt_u16" => go!(u16),
        "wt_i32" => go!(i32),
        "wt_u32" => go!(u32),
        _ => return None,
    })
}

/// Runs the `wt_<type>` variant and compares it with the `i64` run (`base_ids`). `orig`: the points
/// handed to the API; `pts`: the points Rcb works on (Rib: the rotated ones).
#[allow(clippy::too_many_arguments)]
fn narrow_verdict(
    ctx: &mut Ctx,
    rib: bool,
    d: usize,
    var: &str,
    iter: usize,
    tol: f64,
    threads: usize,
    ws: &[i64],
    orig: &[f64],
    pts: &[f64],
    base_ids: &[usize],
) -> Option<(String, String)> {
    let algo = if rib { "rib" } else { "rcb" };
    let ty = &var[3..];
    let Some(max) = wt_max(var) else { return None };
    let Some(res) = typed_ids(rib, d, var, iter, tol, threads, ws, orig) else {
        ctx.count(&format!("narrow:{}_not_applicable", var));
        return None;
    };
    ctx.count(&format!("narrow:{}@{}", var, algo));
    let total: i64 = ws.iter().sum();
    // where the case sits relative to the type's range (evidence of what the stream reaches)
    if total == max {
        ctx.count("narrow:total_is_type_max");
    }
    if 2 * total > max {
        ctx.count("narrow:total_above_half_range");
        if iter >= 1 {
            let x0: Vec<f32> = pts.chunks_exact(d).map(|p| p[0] as f32).collect();
            let lo = x0.iter().copied().fold(f32::INFINITY, f32::min);
            let hi = x0.iter().copied().fold(f32::NEG_INFINITY, f32::max);
            if let Some(r) = replica_split(&x0, ws, total, tol, lo, hi) {
                if 2 * r.max_wl_cont > max {
                    ctx.count("narrow:root_search_goes_on_with_left_above_half_range");
                }
                if 2 * r.max_wr_cont > max {
                    ctx.count("narrow:root_search_goes_on_with_right_above_half_range");
                }
                if 2 * r.weight_left > max || 2 * (total - r.weight_left) > max {
                    ctx.count("narrow:root_child_total_above_half_range");
                }
            }
        }
    }
    let head = format!("weights as {} (every weight and the total {} fit: largest value {})", ty, total, max);
    match res {
        Caught::Ok(Ok(ids)) if ids == base_ids => None,
        Caught::Ok(Ok(ids)) => {
            let k = (0..ids.len().min(base_ids.len())).find(|&i| ids[i] != base_ids[i]);
            let alone = match ids_only_unbalanced(d, iter, tol, ws, pts, &ids) {
                Some(what) => format!("judged alone these ids are unbalanced ({})", what),
                None => "judged alone these ids pass the balance oracle".to_string(),
            };
            Some((
                format!("weight-type-dependent@{}", algo),
                format!(
                    "{}: other ids than the i64 run of the same data (first difference at point {:?}: {:?} vs {:?}); {}",
                    head,
                    k,
                    k.map(|i| ids[i]),
                    k.map(|i| base_ids[i]),
                    alone
                ),
            ))
        }
        Caught::Ok(Err(e)) => Some((format!("weight-type-dependent@{}", algo), format!("{}: returns {}, the i64 run Ok", head, e))),
        Caught::Panic(m) => Some((
            format!("weight-type-panic@{}", algo),
            format!("{}: panics although no partial sum can leave the type's range: {}; the i64 run of the same data returns normally", head, m),
        )),
        Caught::Hang => Some((format!("weight-type@{}:hang", algo), format!("{}: no return within 30 s; the i64 run returns", head))),
    }
}

/// K2 (pivot chosen by rounded distances) lets a low side receive items whose weight was not counted:
/// the weight handed down to that child is smaller than the child's real weight, and `sum - weight_left`
/// goes below zero there. A signed type carries that like the i64 run does; an UNSIGNED type panics
/// (`attempt to subtract with overflow`; it wraps without overflow checks). That deviation of an unsigned
/// run is a consequence of the known K2, proven by the i64 replay (a node whose passed-down sum is not
/// its weight, below a node with the K2 symptom): it is labelled as such, not as a weight-type defect.
fn relabel_k2_unsigned(ctx: &mut Ctx, var: Option<&str>, nodes: &[NodeOut], extra: &mut [(String, String)]) {
    let Some(v) = var else { return };
    if !v.starts_with("wt_u") || !nodes.iter().any(|nd| nd.drift && nd.k2_above && !nd.anomalous) {
        return;
    }
    for (sig, what) in extra.iter_mut() {
        let algo = sig.rsplit('@').next().unwrap_or("rcb").to_string();
        let explained = (sig.starts_with("weight-type-panic@") && what.contains("attempt to subtract with overflow"))
            || sig.starts_with("weight-type-dependent@");
        if explained {
            ctx.count("narrow:unsigned_deviation_below_k2_sum_drift");
            *sig = format!("{}:unsigned-weight-underflow@{}", SIG_K2, algo);
            what.push_str(
                " [the i64 replay shows the cause: below a node with the K2 symptom a child was handed a sum smaller than its real weight, so `sum - weight_left` is negative there, which an unsigned weight type cannot hold]",
            );
        }
    }
}

/// The frame hook in a 1-thread pool (parallel `f64` sums are only deterministic there): the
/// points as Rib's inner Rcb sees them, flat and point-major. `Ok(None)`: no frame.
fn frame(d: usize, xs: &[f64]) -> Caught<Option<Vec<f64>>> {
    fn flat<const D: usize>(m: Vec<PointND<D>>) -> Vec<f64> {
        m.iter().flat_map(|p| p.iter().copied().collect::<Vec<f64>>()).collect()
    }
    if d == 2 {
        let points = to_points::<2>(xs);
        catch(move || with_pool(1, || coupe::verif::geometry::obb_frame::<2>(&points)).map(|(m, _)| flat(m)))
    } else {
        let points = to_points::<3>(xs);
        catch(move || with_pool(1, || coupe::verif::geometry::obb_frame::<3>(&points)).map(|(m, _)| flat(m)))
    }
}

type SplitOut = (Vec<usize>, usize, i64, f32);

/// The hook: one real `par_rcb_split` on copies of the arrays (structure of arrays, `d` axes).
fn hook_split(d: usize, coords: Vec<Vec<f32>>, ws: Vec<i64>, coord: usize, tol: f64, min: f32, max: f32) -> SplitOut {
    if d == 2 {
        let c: [Vec<f32>; 2] = coords.try_into().expect("2 axes");
        coupe::verif::rcb::par_rcb_split::<2>(c, ws, coord, tol, min, max)
    } else {
        let c: [Vec<f32>; 3] = coords.try_into().expect("3 axes");
        coupe::verif::rcb::par_rcb_split::<3>(c, ws, coord, tol, min, max)
    }
}

// ------------------------------------------------------------------ replay of `rcb` / `rcb_recurse`

struct Replay<'a> {
    d: usize,
    tol: f64,
    /// `pts[c][i]`: coordinate `c` of point `i`, `as f32`
    pts: &'a [Vec<f32>],
    ws: &'a [i64],
    part: Vec<usize>,
    nodes: Vec<NodeOut>,
    /// nodes of `LARGE_N` items or more where the (sequential) replica picked another pivot than the
    /// real multi-chunk fold: legitimate, the index among equal rounded distances depends on rayon's split
    chunk_ties: usize,
}

impl Replay<'_> {
    /// `rcb_recurse`; `items` = global indices in the order the parent left them.
    #[allow(clippy::too_many_arguments)]
    fn recurse(
        &mut self,
        items: Vec<usize>,
        iter_count: usize,
        iter_id: usize,
        coord: usize,
        sum: i64,
        bb_min: Vec<f32>,
        bb_max: Vec<f32>,
        path: String,
        k2_above: bool,
        anomalous_above: bool,
    ) {
        if items.is_empty() {
            return;
        }
        if iter_count == 0 {
            for &i in &items {
                self.part[i] = iter_id;
            }
            return;
        }
        let n = items.len();
        let local: Vec<Vec<f32>> = (0..self.d).map(|c| items.iter().map(|&i| self.pts[c][i]).collect()).collect();
        let lws: Vec<i64> = items.iter().map(|&i| self.ws[i]).collect();
        let actual: i64 = lws.iter().sum();
        let drift = sum != actual;
        let (min, max) = (bb_min[coord], bb_max[coord]);
        let rep = replica_split(&local[coord], &lws, sum, self.tol, min, max);
        let rep_order = rep.as_ref().map(|r| replica_reorder(&local[coord], r.pivot));
        let mut mismatch = rep.is_none();
        let (order, split, wl_reported, split_pos) = if drift {
            // the hook recomputes `sum` from the weights: it cannot replay a node whose
            // passed-down sum is wrong; the replica (run with the passed-down sum) stands in
            match (&rep, &rep_order) {
                (Some(r), Some((o, s))) => (o.clone(), *s, r.weight_left, r.split_pos),
                _ => ((0..n).collect(), n, sum, max),
            }
        } else {
            let xs = local[coord].clone();
            let (o, s, wl, sp) = hook_split(self.d, local.clone(), lws.clone(), coord, self.tol, min, max);
            match (&rep, &rep_order) {
                (Some(r), Some((ro, rs))) => {
                    // weight, position, low set – and the whole order, which the descendants' ties depend on
                    let mut low_h: Vec<usize> = o[..s.min(o.len())].to_vec();
                    let mut low_r: Vec<usize> = match r.pivot {
                        Some(p) => (0..n).filter(|&i| xs[i] < xs[p]).collect(),
                        None => (0..n).collect(),
                    };
                    low_h.sort_unstable();
                    low_r.sort_unstable();
                    if wl != r.weight_left || sp.to_bits() != r.split_pos.to_bits() {
                        mismatch = true;
                    } else if low_h != low_r || *rs != s || *ro != o {
                        if n >= LARGE_N {
                            // several chunks: which of several items with the same rounded distance
                            // becomes the pivot (hence the order, and under K2 the low set) depends
                            // on rayon's split; the replica is one sequential chunk
                            self.chunk_ties += 1;
                        } else {
                            mismatch = true;
                        }
                    }
                }
                _ => mismatch = true,
            }
            (o, s, wl, sp)
        };
        let eval = eval_node(&local[coord], &lws, &order, split, sum, wl_reported, split_pos, self.tol, rep.as_ref());
        let k2 = k2_above || eval.k2_here;
        let anomalous = anomalous_above || eval.anomaly.is_some();
        // the box rcb_recurse hands down contains the node's items unless a cut above went wrong (K2)
        let boxed = local[coord].iter().all(|&c| min <= c && c <= max);
        self.nodes.push(NodeOut {
            path: path.clone(),
            coord,
            n,
            n_low: split,
            exit: rep.as_ref().map(|r| r.exit),
            sum_passed: sum,
            wl_reported,
            split_pos,
            drift,
            mismatch,
            k2,
            boxed,
            k2_above,
            anomalous,
            eval,
        });
        let low: Vec<usize> = order[..split].iter().map(|&k| items[k]).collect();
        let high: Vec<usize> = order[split..].iter().map(|&k| items[k]).collect();
        let mut max_low = bb_max.clone();
        max_low[coord] = split_pos;
        let mut min_high = bb_min.clone();
        min_high[coord] = split_pos;
        let next = (coord + 1) % self.d;
        self.recurse(low, iter_count - 1, 2 * iter_id + 1, next, wl_reported, bb_min, max_low, format!("{}L", path), k2, anomalous);
        self.recurse(high, iter_count - 1, 2 * iter_id + 2, next, sum - wl_reported, min_high, bb_max, format!("{}H", path), k2, anomalous);
    }
}

/// `rcb` on `n ≥ 1` points: the part ids and the bisection nodes in pre-order.
fn replay_rcb(d: usize, iter: usize, tol: f64, ws: &[i64], xs: &[f64]) -> (Vec<usize>, Vec<NodeOut>, usize) {
    let n = ws.len();
    let pts: Vec<Vec<f32>> = (0..d).map(|c| xs.chunks_exact(d).map(|p| p[c] as f32).collect()).collect();
    // `BoundingBox::from_points` on the f64 points, read through `as f32`
    let mut bb_min = Vec::with_capacity(d);
    let mut bb_max = Vec::with_capacity(d);
    for c in 0..d {
        let mut lo = f64::MAX;
        let mut hi = f64::MIN;
        for p in xs.chunks_exact(d) {
            if p[c] < lo {
                lo = p[c];
            }
            if hi < p[c] {
                hi = p[c];
            }
        }
        bb_min.push(lo as f32);
        bb_max.push(hi as f32);
    }
    let mut rp = Replay { d, tol, pts: &pts, ws, part: vec![0; n], nodes: Vec::new(), chunk_ties: 0 };
    let sum: i64 = ws.iter().sum();
    rp.recurse((0..n).collect(), iter, 0, 0, sum, bb_min, bb_max, "r".to_string(), false, false);
    let off = rp.part.iter().copied().min().unwrap_or(0);
    let ids = rp.part.iter().map(|p| p - off).collect();
    (ids, rp.nodes, rp.chunk_ties)
}

// ------------------------------------------------------------------ protocol

enum Op {
    Tree { rib: bool, d: usize, iter: usize, tol: f64, threads: usize, var: Option<String>, ws: Vec<i64>, orig: Vec<f64>, rot: Vec<f64> },
    Split { d: usize, coord: usize, tol: f64, min: f32, max: f32, ws: Vec<i64>, xs: Vec<f32> },
}

fn hex64(t: Option<&str>) -> Option<u64> {
    u64::from_str_radix(t?, 16).ok()
}

fn hex32(t: Option<&str>) -> Option<f32> {
    let v = hex64(t)?;
    if v > u32::MAX as u64 {
        return None;
    }
    Some(f32::from_bits(v as u32))
}

fn parse_op(op: &str) -> Option<Op> {
    let mut it = op.split_whitespace();
    let kind = it.next()?;
    match kind {
        "rcb" | "rib" | "rcbvar" | "ribvar" => {
            let d: usize = it.next()?.parse().ok()?;
            if d != 2 && d != 3 {
                return None;
            }
            let iter: usize = it.next()?.parse().ok()?;
            if iter > 40 {
                return None;
            }
            let tol = f64::from_bits(hex64(it.next())?);
            let threads: usize = it.next()?.parse().ok()?;
            let var = if kind == "rcbvar" || kind == "ribvar" {
                let v = it.next()?;
                // `ribvar`: only the weight types (`wt_…`); `rcbvar`: those and the variants of C03
                if wt_max(v).is_none() && (kind == "ribvar" || !super::c03::VARIANTS.contains(&v)) {
                    return None;
                }
                Some(v.to_string())
            } else {
                None
            };
            let n: usize = it.next()?.parse().ok()?;
            let mut ws = Vec::with_capacity(n);
            for _ in 0..n {
                ws.push(it.next()?.parse().ok()?);
            }
            let mut orig = Vec::with_capacity(n * d);
            for _ in 0..n * d {
                orig.push(f64::from_bits(hex64(it.next())?));
            }
            let mut rot = Vec::new();
            if kind == "rib" || kind == "ribvar" {
                for _ in 0..n * d {
                    rot.push(f64::from_bits(hex64(it.next())?));
                }
            }
            if it.next().is_some() {
                return None;
            }
            Some(Op::Tree { rib: kind == "rib" || kind == "ribvar", d, iter, tol, threads, var, ws, orig, rot })
        }
        "split" => {
            let d: usize = it.next()?.parse().ok()?;
            if d != 2 && d != 3 {
                return None;
            }
            let coord: usize = it.next()?.parse().ok()?;
            if coord >= d {
                return None;
            }
            let tol = f64::from_bits(hex64(it.next())?);
            let min = hex32(it.next())?;
            let max = hex32(it.next())?;
            let n: usize = it.next()?.parse().ok()?;
            let mut ws = Vec::with_capacity(n);
            for _ in 0..n {
                ws.push(it.next()?.parse().ok()?);
            }
            let mut xs = Vec::with_capacity(n * d);
            for _ in 0..n * d {
                xs.push(hex32(it.next())?);
            }
            if it.next().is_some() {
                return None;
            }
            Some(Op::Split { d, coord, tol, min, max, ws, xs })
        }
        _ => None,
    }
}

fn push_f64s(s: &mut String, xs: &[f64]) {
    for x in xs {
        write!(s, " {:x}", x.to_bits()).unwrap();
    }
}

fn format_tree_op(rib: bool, d: usize, iter: usize, tol: f64, threads: usize, ws: &[i64], orig: &[f64], rot: &[f64]) -> String {
    let mut s = format!("{} {} {} {:x} {} {}", if rib { "rib" } else { "rcb" }, d, iter, tol.to_bits(), threads, ws.len());
    for w in ws {
        write!(s, " {}", w).unwrap();
    }
    push_f64s(&mut s, orig);
    if rib {
        push_f64s(&mut s, rot);
    }
    s
}

/// `ribvar <D> <iter> <tol> <threads> <wt_type> <n> <w…> <orig…> <rot…>`: `rib` with the weight type
fn format_ribvar_op(d: usize, iter: usize, tol: f64, threads: usize, var: &str, ws: &[i64], orig: &[f64], rot: &[f64]) -> String {
    let mut s = format!("ribvar {} {} {:x} {} {} {}", d, iter, tol.to_bits(), threads, var, ws.len());
    for w in ws {
        write!(s, " {}", w).unwrap();
    }
    push_f64s(&mut s, orig);
    push_f64s(&mut s, rot);
    s
}

fn format_var_op(d: usize, iter: usize, tol: f64, threads: usize, var: &str, ws: &[i64], xs: &[f64]) -> String {
    let mut s = format!("rcbvar {} {} {:x} {} {} {}", d, iter, tol.to_bits(), threads, var, ws.len());
    for w in ws {
        write!(s, " {}", w).unwrap();
    }
    push_f64s(&mut s, xs);
    s
}

fn format_split_op(d: usize, coord: usize, tol: f64, min: f32, max: f32, ws: &[i64], xs: &[f32]) -> String {
    let mut s = format!("split {} {} {:x} {:x} {:x} {}", d, coord, tol.to_bits(), min.to_bits(), max.to_bits(), ws.len());
    for w in ws {
        write!(s, " {}", w).unwrap();
    }
    for x in xs {
        write!(s, " {:x}", x.to_bits()).unwrap();
    }
    s
}

pub fn run_op(ctx: &mut Ctx, op: &str) {
    if ctx.hang_limit_reached() {
        return;
    }
    match parse_op(op) {
        None => {
            ctx.count("bad-op");
            ctx.record(op.to_string(), "bad-op".into(), false);
        }
        Some(Op::Tree { rib, d, iter, tol, threads, var, ws, orig, rot }) => run_tree(ctx, op, rib, d, iter, tol, threads, var, ws, orig, rot),
        Some(Op::Split { d, coord, tol, min, max, ws, xs }) => run_split(ctx, op, d, coord, tol, min, max, ws, xs),
    }
}

fn finish(ctx: &mut Ctx, op: &str, out: String, nontrivial: bool, verdicts: Vec<(String, String)>) {
    ctx.count(&format!("out_{}", out.split(' ').next().unwrap_or("")));
    let idx = ctx.record(op.to_string(), out, nontrivial);
    for (sig, what) in verdicts {
        ctx.fail(idx, &sig, what);
    }
}

/// C04 judged on the part ids alone (used when the hook replay cannot reproduce them): for every
/// offset under which the ids form a strict bisection tree (leaf = id + offset, axes cyclic), every
/// internal node must leave on its low side a weight within tolerance of the half, or an achievable
/// weight adjacent to the half-weight mark. Returns a description of a failing node when no offset
/// gives a tree whose nodes all pass.
fn ids_only_unbalanced(d: usize, k: usize, tol: f64, ws: &[i64], xs: &[f64], ids: &[usize]) -> Option<String> {
    let n = ids.len();
    if n == 0 || k == 0 || k > 12 || xs.len() != n * d {
        return None;
    }
    let x: Vec<f32> = xs.iter().map(|v| *v as f32).collect();
    let leaves = 1usize << k;
    let max_id = *ids.iter().max().unwrap();
    if max_id >= leaves {
        return Some(format!("id {} with iter_count {}", max_id, k));
    }
    let mut first: Option<String> = None;
    'offsets: for o in 0..=(leaves - 1 - max_id) {
        for lvl in 0..k {
            let axis = lvl % d;
            for node in 0..(1usize << lvl) {
                let members: Vec<usize> = (0..n).filter(|&i| (ids[i] + o) >> (k - lvl) == node).collect();
                if members.len() < 2 {
                    continue;
                }
                let is_high = |i: usize| ((ids[i] + o) >> (k - 1 - lvl)) & 1 == 1;
                let lo_max = members.iter().filter(|&&i| !is_high(i)).map(|&i| x[i * d + axis]).fold(f32::NEG_INFINITY, f32::max);
                let hi_min = members.iter().filter(|&&i| is_high(i)).map(|&i| x[i * d + axis]).fold(f32::INFINITY, f32::min);
                if !(lo_max < hi_min) {
                    // not a bisection under this offset
                    continue 'offsets;
                }
                let w: i64 = members.iter().map(|&i| ws[i]).sum();
                let wl: i64 = members.iter().filter(|&&i| !is_high(i)).map(|&i| ws[i]).sum();
                if w <= 0 {
                    continue;
                }
                let within = ((2 * wl - w).abs() as f64) <= tol * w as f64;
                // achievable low-side weights: prefix sums over the distinct coordinate values
                let mut vals: Vec<(f32, i64)> = members.iter().map(|&i| (x[i * d + axis], ws[i])).collect();
                vals.sort_by(|a, b| a.0.partial_cmp(&b.0).unwrap());
                let mut ach: Vec<i64> = vec![0];
                let mut acc = 0i64;
                let mut j = 0;
                while j < vals.len() {
                    let v = vals[j].0;
                    while j < vals.len() && vals[j].0 == v {
                        acc += vals[j].1;
                        j += 1;
                    }
                    ach.push(acc);
                }
                let brackets = match ach.iter().position(|&a| a == wl) {
                    None => false,
                    Some(_) => {
                        // some occurrence of wl among the achievable weights is adjacent to the half
                        (0..ach.len()).any(|q| {
                            ach[q] == wl
                                && ((2 * ach[q] <= w && (q + 1 == ach.len() || 2 * ach[q + 1] >= w))
                                    || (2 * ach[q] >= w && (q == 0 || 2 * ach[q - 1] <= w)))
                        })
                    }
                };
                if !within && !brackets {
                    if first.is_none() {
                        first = Some(format!(
                            "offset {} level {} node {} axis {}: low side weighs {} of {} ({} points), tolerance {}: neither within tolerance of the half nor adjacent to the half-weight mark (achievable {:?})",
                            o, lvl, node, axis, wl, w, members.len(), tol, &ach[..ach.len().min(12)]
                        ));
                    }
                    continue 'offsets;
                }
            }
        }
        // a tree under this offset passes everywhere
        return None;
    }
    first
}

/// C03's tree oracle on the ids alone: under some offset the ids are leaf codes of a binary tree
/// whose level `l` separates STRICTLY on axis `l % d` (f32 coordinates). `None` = holds.
fn ids_not_bisection(d: usize, k: usize, xs: &[f64], ids: &[usize]) -> Option<String> {
    let n = ids.len();
    if n == 0 || k > 16 || xs.len() != n * d {
        return None;
    }
    let x: Vec<f32> = xs.iter().map(|v| *v as f32).collect();
    let leaves = 1usize << k;
    let max_id = *ids.iter().max().unwrap();
    if max_id >= leaves {
        return Some(format!("id {} with iter_count {}", max_id, k));
    }
    let mut first: Option<String> = None;
    'offsets: for o in 0..=(leaves - 1 - max_id) {
        for lvl in 0..k {
            let axis = lvl % d;
            let nodes = 1usize << lvl;
            let mut lo = vec![f32::NEG_INFINITY; nodes];
            let mut hi = vec![f32::INFINITY; nodes];
            for i in 0..n {
                let code = ids[i] + o;
                let node = code >> (k - lvl);
                let v = x[i * d + axis];
                if (code >> (k - 1 - lvl)) & 1 == 1 {
                    hi[node] = hi[node].min(v);
                } else {
                    lo[node] = lo[node].max(v);
                }
            }
            if let Some(node) = (0..nodes).find(|&q| !(lo[q] < hi[q])) {
                if first.is_none() {
                    first = Some(format!(
                        "offset {} level {} node {} axis {}: largest low-side coordinate {:e} >= smallest high-side coordinate {:e}",
                        o, lvl, node, axis, lo[node], hi[node]
                    ));
                }
                continue 'offsets;
            }
        }
        return None;
    }
    first
}

#[allow(clippy::too_many_arguments)]
fn run_tree(ctx: &mut Ctx, op: &str, rib: bool, d: usize, iter: usize, tol: f64, threads: usize, var: Option<String>, ws: Vec<i64>, orig: Vec<f64>, rot: Vec<f64>) {
    let n = ws.len();
    ctx.count(if rib { "op_rib" } else { "op_rcb" });
    // Rib: the frame on the line must be the frame the implementation builds
    if rib && n > 0 {
        let same = match frame(d, &orig) {
            Caught::Ok(Some(f)) => f.len() == rot.len() && f.iter().zip(&rot).all(|(a, b)| a.to_bits() == b.to_bits()),
            _ => false,
        };
        if !same {
            finish(ctx, op, "frame-mismatch".into(), false, vec![]);
            return;
        }
    }
    // the public API; Rib in a 1-thread pool (its frame is a parallel f64 sum)
    let api = if rib { api_rib(d, iter, tol, 1, &ws, &orig) } else { api_rcb(d, iter, tol, threads, &ws, &orig) };
    let ids = match api {
        Caught::Ok(Ok(ids)) => ids,
        Caught::Ok(Err(e)) => {
            finish(ctx, op, format!("err {}", e), false, vec![("rcb-unexpected-error".into(), e)]);
            return;
        }
        Caught::Panic(m) => {
            let sig = panic_sig(&m);
            finish(ctx, op, format!("panic {}", m), false, vec![(sig.clone(), format!("{} [{}]", m, sig))]);
            return;
        }
        Caught::Hang => {
            finish(ctx, op, "hang".into(), false, vec![("hang".into(), "watchdog (30 s)".into())]);
            return;
        }
    };
    if rib && pool_size(threads) > 1 {
        match api_rib(d, iter, tol, threads, &ws, &orig) {
            Caught::Ok(Ok(ids_p)) if ids_p == ids => ctx.count("rib_pool_same"),
            _ => ctx.count("rib_pool_differs"),
        }
    }
    if n == 0 {
        finish(ctx, op, "ok |".into(), false, vec![]);
        return;
    }
    // `rcbvar`: the same data through another weight type / calling context / zero sign must give the
    // same ids (so that what is judged below holds for every legal way to make the call)
    let mut extra: Vec<(String, String)> = Vec::new();
    if let Some(v) = var.as_deref().filter(|v| wt_max(v).is_some()) {
        // narrow integer weight types (Rcb and Rib): same ids as the i64 run, which is judged below
        let worked_on = if rib { &rot } else { &orig };
        if let Some(verdict) = narrow_verdict(ctx, rib, d, v, iter, tol, threads, &ws, &orig, worked_on, &ids) {
            extra.push(verdict);
        }
    } else if let (Some(v), false) = (&var, rib) {
        let r = super::c03::variant_ids(d, v, iter, tol, threads, &ws, &orig);
        if let Some(verdict) = super::c03::variant_verdict(ctx, "rcb", v, Some(&ids), r) {
            extra.push(verdict);
        }
    }
    // the trace: replay on the points Rcb works on
    let pts = if rib { &rot } else { &orig };
    let large = n >= LARGE_N;
    if large {
        ctx.count("large_n_tree_case");
    }
    let replay = {
        let (ws2, pts2) = (ws.clone(), pts.clone());
        if large {
            // the hook runs the real fold: give it the pool of the API run so that rayon splits it alike
            catch(move || with_pool(pool_size(threads), || replay_rcb(d, iter, tol, &ws2, &pts2)))
        } else {
            catch(move || replay_rcb(d, iter, tol, &ws2, &pts2))
        }
    };
    let (rids, nodes, chunk_ties) = match replay {
        Caught::Ok(v) => v,
        Caught::Panic(m) => {
            // the API ran through but a hook call did not: harness/hook inconsistency
            ctx.count("replay_panic");
            finish(ctx, op, format!("replay-mismatch panic {}", m), false, vec![]);
            return;
        }
        Caught::Hang => unreachable!(),
    };
    if chunk_ties > 0 {
        ctx.count("large_n_case_with_chunk_dependent_pivot");
    }
    if large && rids != ids {
        // Several chunks: the index chosen among equal rounded distances depends on rayon's split, so
        // the API run and the hook replay may legitimately cut a K2-type node differently. The nodes
        // of the API's tree cannot be attributed to causes then; the ids must still be a bisection.
        ctx.count("large_n_replay_differs");
        let mut verdicts = match ids_not_bisection(d, iter, pts, &ids) {
            Some(what) => vec![("rcb-not-a-bisection".to_string(), what)],
            None => vec![],
        };
        // The only chunk-dependent choice is the pivot among DISTINCT coordinates with the same smallest
        // rounded distance; the first node where the two runs part is a node of both trees. If the
        // replayed tree has no such node the difference has another cause – e.g. a pass that runs once
        // per call over all n items (the sum, the coordinate conversion, …) and that only the API ran.
        if !nodes.iter().any(|nd| nd.eval.tie_possible || nd.drift || nd.mismatch) {
            ctx.count("large_n_replay_differs_unexplained");
            verdicts.push((
                "rcb-large-n-replay-differs-unexplained".to_string(),
                format!(
                    "n = {}: the ids of the public API differ from the node-by-node replay through the par_rcb_split hook although no node of the replayed tree ({} nodes) has two distinct coordinates at the same smallest rounded distance",
                    n,
                    nodes.len()
                ),
            ));
        }
        relabel_k2_unsigned(ctx, var.as_deref(), &nodes, &mut extra);
        verdicts.extend(extra);
        finish(ctx, op, "ok large-n replay-differs".into(), false, verdicts);
        return;
    }
    if rids != ids {
        // The node-by-node replay through the hooks does not reproduce the public API's ids (never
        // on the unchanged tree): the causes cannot be attributed, but the property can still be
        // judged on the ids alone.
        ctx.count("replay_mismatch");
        let mut verdicts = match ids_only_unbalanced(d, iter, tol, &ws, pts, &ids) {
            Some(what) if !ws.iter().any(|&w| w < 0) => vec![("rcb-unbalanced-unreplayable".to_string(), what)],
            _ => vec![],
        };
        // a deviating narrow-weight-type run stays a failure of its own
        verdicts.extend(extra.into_iter().filter(|(sig, _)| sig.starts_with("weight-type")));
        finish(ctx, op, "replay-mismatch".into(), false, verdicts);
        return;
    }
    if nodes.iter().any(|nd| nd.drift) {
        ctx.count("sum_drift");
    }
    let mut out = String::from("ok ");
    if large {
        // no model prediction for these (the driver prints `skip large-n (oracle only)`): keep the line short
        let mut h = 0xcbf2_9ce4_8422_2325u64;
        for &i in &ids {
            h = (h ^ i as u64).wrapping_mul(0x0100_0000_01b3);
        }
        write!(out, "large-n n={} nodes={} ids-fnv={:x}", n, nodes.len(), h).unwrap();
        if nodes.iter().any(|nd| nd.mismatch) {
            out.push_str(" replica-mismatch");
        }
    } else {
        out.push_str(&join(&ids));
        out.push_str(" |");
        for nd in &nodes {
            out.push(' ');
            out.push_str(&nd.token());
        }
    }
    let verdicts = if ws.iter().any(|&w| w < 0) {
        ctx.count("oracle_skipped_negative_weight");
        vec![]
    } else {
        judge(ctx, &nodes)
    };
    let mut verdicts = verdicts;
    relabel_k2_unsigned(ctx, var.as_deref(), &nodes, &mut extra);
    verdicts.extend(extra);
    finish(ctx, op, out, n >= 2 && iter >= 1, verdicts);
}

#[allow(clippy::too_many_arguments)]
fn run_split(ctx: &mut Ctx, op: &str, d: usize, coord: usize, tol: f64, min: f32, max: f32, ws: Vec<i64>, xs: Vec<f32>) {
    let n = ws.len();
    ctx.count("op_split");
    let coords: Vec<Vec<f32>> = (0..d).map(|c| xs.chunks_exact(d).map(|p| p[c]).collect()).collect();
    let axis = coords[coord].clone();
    let res = {
        let ws2 = ws.clone();
        catch_timeout(30, move || hook_split(d, coords, ws2, coord, tol, min, max))
    };
    let (order, split, wl, sp) = match res {
        Caught::Ok(v) => v,
        Caught::Panic(m) => {
            let sig = panic_sig(&m);
            finish(ctx, op, format!("panic {}", m), false, vec![(sig.clone(), format!("{} [{}]", m, sig))]);
            return;
        }
        Caught::Hang => {
            finish(ctx, op, "hang".into(), false, vec![("hang".into(), "watchdog (30 s)".into())]);
            return;
        }
    };
    let sum: i64 = ws.iter().sum();
    let rep = replica_split(&axis, &ws, sum, tol, min, max);
    let large = n >= LARGE_N;
    if large {
        ctx.count("large_n_split_case");
    }
    let mismatch = match &rep {
        None => true,
        Some(r) => {
            let (ro, rs) = replica_reorder(&axis, r.pivot);
            if r.weight_left != wl || r.split_pos.to_bits() != sp.to_bits() {
                true
            } else if rs != split || ro != order {
                // several chunks: the pivot among equal rounded distances depends on rayon's split
                if large {
                    ctx.count("large_n_case_with_chunk_dependent_pivot");
                }
                !large
            } else {
                false
            }
        }
    };
    let eval = eval_node(&axis, &ws, &order, split.min(order.len()), sum, wl, sp, tol, rep.as_ref());
    let node = NodeOut {
        path: "split".into(),
        coord,
        n,
        n_low: split,
        exit: rep.as_ref().map(|r| r.exit),
        sum_passed: sum,
        wl_reported: wl,
        split_pos: sp,
        drift: false,
        mismatch,
        k2: eval.k2_here,
        boxed: axis.iter().all(|&c| min <= c && c <= max),
        k2_above: false,
        anomalous: eval.anomaly.is_some(),
        eval,
    };
    let out = if large {
        format!("ok large-n {} {} {} {:x}", node.exit_name(), split, wl, sp.to_bits())
    } else {
        format!("ok {} {} {} {:x} | {}", node.exit_name(), split, wl, sp.to_bits(), join(&order))
    };
    let verdicts = if n == 0 {
        vec![]
    } else if ws.iter().any(|&w| w < 0) {
        ctx.count("oracle_skipped_negative_weight");
        vec![]
    } else if !node.boxed {
        // rcb_recurse never calls the split with a box that misses a point (short of K2 above):
        // such ops feed the correspondence with the model only, the property makes no claim –
        // except that the report must still be what the fold computes
        ctx.count("split_oracle_skipped_box_not_containing");
        ctx.count(&format!("split_unboxed_exit_{}", node.exit_name()));
        match &node.eval.anomaly {
            Some(a) => vec![(SIG_REPORT.to_string(), format!("split op ({} items): {}", n, a))],
            None => vec![],
        }
    } else {
        judge(ctx, std::slice::from_ref(&node))
    };
    finish(ctx, op, out, n >= 2, verdicts);
}

// ------------------------------------------------------------------ generator

fn unit(rng: &mut Rng) -> f64 {
    rng.below(1 << 53) as f64 / (1u64 << 53) as f64
}

fn uniform(rng: &mut Rng, lo: f64, hi: f64) -> f64 {
    lo + (hi - lo) * unit(rng)
}

/// no -0.0, no non-finite value, |x| <= 1e6
fn clean(x: f64) -> f64 {
    if !x.is_finite() || x == 0.0 {
        0.0
    } else {
        x.clamp(-1e6, 1e6)
    }
}

fn ulp32(x: f64) -> f64 {
    let a = (x.abs() as f32).max(f32::MIN_POSITIVE);
    (f32::from_bits(a.to_bits() + 1) - a) as f64
}

const POINT_SHAPES: [&str; 9] =
    ["uniform", "lattice", "collinear", "clustered", "clustered_ulp", "outliers", "exponential", "identical", "two_values"];

/// `n` points of dimension `d`, point-major.
fn gen_points(rng: &mut Rng, n: usize, d: usize, shape: usize) -> Vec<f64> {
    let mut xs = vec![0.0f64; n * d];
    match shape {
        0 => {
            for x in xs.iter_mut() {
                *x = uniform(rng, -10.0, 10.0);
            }
        }
        1 => {
            let k = 1 + rng.usize(7) as i64;
            let off = if rng.chance(1, 2) { k / 2 } else { 0 };
            for x in xs.iter_mut() {
                *x = (rng.range(0, k) - off) as f64;
            }
        }
        2 => {
            let p0: Vec<f64> = (0..d).map(|_| uniform(rng, -5.0, 5.0)).collect();
            let dir: Vec<f64> = (0..d).map(|_| if rng.chance(1, 5) { 0.0 } else { uniform(rng, -1.0, 1.0) }).collect();
            let integer = rng.chance(1, 2);
            for p in xs.chunks_exact_mut(d) {
                let t = if integer { rng.range(-8, 8) as f64 } else { uniform(rng, -10.0, 10.0) };
                for c in 0..d {
                    p[c] = p0[c] + t * dir[c];
                }
            }
        }
        3 | 4 => {
            let k = 2 + rng.usize(3);
            let centers: Vec<Vec<f64>> = (0..k)
                .map(|_| {
                    (0..d)
                        .map(|_| {
                            let c = match rng.usize(3) {
                                0 => uniform(rng, -1000.0, 1000.0),
                                1 => uniform(rng, -4.0, 4.0),
                                _ => rng.range(-64, 64) as f64 / 2.0,
                            };
                            if shape == 4 {
                                (c as f32) as f64
                            } else {
                                c
                            }
                        })
                        .collect()
                })
                .collect();
            for p in xs.chunks_exact_mut(d) {
                let c = &centers[rng.usize(k)];
                for a in 0..d {
                    let off = if shape == 3 {
                        let mag = 10f64.powf(uniform(rng, -7.0, -3.0));
                        if rng.chance(1, 2) {
                            mag
                        } else {
                            -mag
                        }
                    } else {
                        // a few f32 ulps of the centre (sometimes half ulps: rounded by `as f32`)
                        let steps = rng.range(-6, 6) as f64 + if rng.chance(1, 4) { 0.5 } else { 0.0 };
                        steps * ulp32(c[a])
                    };
                    p[a] = c[a] + off;
                }
            }
        }
        5 => {
            for x in xs.iter_mut() {
                *x = unit(rng);
            }
            let k = (1 + rng.usize(2)).min(n);
            for _ in 0..k {
                let i = rng.usize(n);
                let mut any = false;
                for a in 0..d {
                    if rng.chance(1, 2) {
                        xs[i * d + a] = 10f64.powf(uniform(rng, 3.0, 6.0));
                        any = true;
                    }
                }
                if !any {
                    xs[i * d] = 10f64.powf(uniform(rng, 3.0, 6.0));
                }
            }
        }
        6 => {
            let neg = rng.chance(1, 4);
            let kmax = 4 + rng.usize(37);
            for x in xs.iter_mut() {
                let v = 0.5f64.powi(rng.usize(kmax + 1) as i32);
                *x = if neg { -v } else { v };
            }
        }
        7 => {
            let p: Vec<f64> = (0..d).map(|_| if rng.chance(1, 2) { uniform(rng, -10.0, 10.0) } else { rng.range(-3, 3) as f64 }).collect();
            for q in xs.chunks_exact_mut(d) {
                q.copy_from_slice(&p);
            }
        }
        _ => {
            let a: Vec<f64> = (0..d).map(|_| if rng.chance(1, 2) { uniform(rng, -10.0, 10.0) } else { rng.range(-3, 3) as f64 }).collect();
            let b: Vec<f64> = (0..d).map(|_| if rng.chance(1, 2) { uniform(rng, -10.0, 10.0) } else { rng.range(-3, 3) as f64 }).collect();
            for q in xs.chunks_exact_mut(d) {
                for c in 0..d {
                    q[c] = if rng.chance(1, 2) { a[c] } else { b[c] };
                }
            }
        }
    }
    for x in xs.iter_mut() {
        *x = clean(*x);
    }
    xs
}

const WEIGHT_SHAPES: [&str; 6] = ["unit", "random", "one_heavy", "all_zero", "mostly_zero", "heavy_side"];

/// `key[i]` = the coordinate the "heavy on one side" shape grows with.
fn gen_weights(rng: &mut Rng, n: usize, shape: usize, key: &[f64]) -> Vec<i64> {
    match shape {
        0 => vec![1; n],
        1 => (0..n).map(|_| rng.range(0, 100)).collect(),
        2 => {
            let mut w: Vec<i64> = if rng.chance(1, 2) { vec![1; n] } else { (0..n).map(|_| rng.range(0, 10)).collect() };
            if n > 0 {
                let k = rng.usize(n);
                w[k] = 1000 * n as i64;
            }
            w
        }
        3 => vec![0; n],
        4 => (0..n).map(|_| if rng.chance(85, 100) { 0 } else { rng.range(1, 100) }).collect(),
        _ => {
            let lo = key.iter().copied().fold(f64::INFINITY, f64::min);
            let hi = key.iter().copied().fold(f64::NEG_INFINITY, f64::max);
            let rev = rng.chance(1, 3);
            key.iter()
                .map(|&x| {
                    let mut t = if hi > lo { (x - lo) / (hi - lo) } else { 0.5 };
                    if rev {
                        t = 1.0 - t;
                    }
                    (1.0 + 999.0 * t * t) as i64
                })
                .collect()
        }
    }
}

fn gen_tol(rng: &mut Rng) -> f64 {
    if rng.chance(1, 10) {
        rng.below(1 << 20) as f64 / (1u64 << 20) as f64 * 0.5
    } else {
        *rng.pick(&TOLS)
    }
}

fn gen_n(rng: &mut Rng, quick: bool) -> usize {
    let r = rng.usize(100);
    if r < 35 {
        1 + rng.usize(12)
    } else if r < 80 {
        13 + rng.usize(188)
    } else if r < 97 {
        201 + rng.usize(800)
    } else {
        1001 + rng.usize(if quick { 500 } else { 2000 })
    }
}

pub fn generate(ctx: &mut Ctx) {
    ctx.notes.push(
        "model-compared inputs have n <= 3000 < 4096 items: below rayon's `with_min_len(4096)` the fold of \
         par_rcb_split is one sequential chunk, which is what the model (and the replica) is exact for; the \
         large-n stream (n in 8192..=20000: rayon splits the fold and runs its reduce) is judged by the oracle \
         only – node-by-node replay through the par_rcb_split hook, which runs the real multi-chunk fold – and \
         the model prints `skip large-n (oracle only)`"
            .into(),
    );
    ctx.notes.push(
        "every node: the reported weight_left must equal the weight strictly left of split_pos and the pivot \
         must have the smallest rounded distance (exact facts about the fold/reduce, independent of chunking and \
         of rounding): a contradiction is `rcb-split-report-inconsistent` and is never attributed to K2"
            .into(),
    );
    ctx.notes.push(
        "trace = replay of rcb_recurse on top of the par_rcb_split hook (ids checked against the public API); \
         exit tags from a Rust transliteration of par_rcb_split cross-checked against the hook at every node; \
         no -0.0 / NaN / infinity is generated, |coordinate| <= 1e6, weights >= 0"
            .into(),
    );
    gen_exhaustive(ctx);
    gen_trees(ctx);
    gen_splits(ctx);
    // last, so that the streams above keep their cases
    gen_large(ctx);
    gen_special(ctx);
    gen_narrow(ctx);
}

// ------------------------------------------------------------------ narrow weight types: generators

const NARROW_WSHAPES: [&str; 7] = ["heavy_low", "heavy_high", "heavy_any", "equal_many", "random_scaled", "heavy_side", "two_heavy_low"];
const NARROW_EXTRA_LAYOUTS: [&str; 3] = ["line", "skew_low", "skew_high"];
const NARROW_LAYOUTS: usize = POINT_SHAPES.len() + NARROW_EXTRA_LAYOUTS.len();

fn narrow_layout_name(layout: usize) -> &'static str {
    if layout < POINT_SHAPES.len() {
        POINT_SHAPES[layout]
    } else {
        NARROW_EXTRA_LAYOUTS[layout - POINT_SHAPES.len()]
    }
}

/// The point shapes of the tree stream plus: the integers 0..n-1 in random order on the first axis;
/// most points crowded at the low / the high end of the first axis (the first targets of the search
/// then see most of the weight on one side).
fn narrow_points(rng: &mut Rng, n: usize, d: usize, layout: usize) -> Vec<f64> {
    if layout < POINT_SHAPES.len() {
        return gen_points(rng, n, d, layout);
    }
    let mut xs = vec![0.0f64; n * d];
    match layout - POINT_SHAPES.len() {
        0 => {
            let mut perm: Vec<usize> = (0..n).collect();
            rng.shuffle(&mut perm);
            for (i, p) in xs.chunks_exact_mut(d).enumerate() {
                p[0] = perm[i] as f64;
                for c in p.iter_mut().skip(1) {
                    *c = rng.range(0, 7) as f64;
                }
            }
        }
        k => {
            let e = 2 + rng.usize(5) as i32;
            for p in xs.chunks_exact_mut(d) {
                let u = unit(rng).powi(e);
                p[0] = clean(if k == 1 { 100.0 * u } else { 100.0 - 100.0 * u });
                for c in p.iter_mut().skip(1) {
                    *c = clean(uniform(rng, -10.0, 10.0));
                }
            }
        }
    }
    xs
}

/// Non-negative integers proportional to `raw` whose sum is `total` exactly (floor shares; what is
/// left goes to the largest share).
fn scale_to(raw: &[i64], total: i64) -> Vec<i64> {
    let n = raw.len();
    if n == 0 {
        return Vec::new();
    }
    let s: i128 = raw.iter().map(|&r| r.max(0) as i128).sum();
    if s == 0 {
        let mut w = vec![0i64; n];
        w[0] = total;
        return w;
    }
    let mut w: Vec<i64> = raw.iter().map(|&r| ((r.max(0) as i128 * total as i128) / s) as i64).collect();
    let rest = total - w.iter().sum::<i64>();
    let k = (0..n).max_by_key(|&i| raw[i]).unwrap();
    w[k] += rest;
    w
}

/// `n >= 1` non-negative weights with sum `total` exactly; `key[i]` = first coordinate of point `i`.
fn narrow_weights(rng: &mut Rng, n: usize, total: i64, shape: usize, key: &[f64]) -> Vec<i64> {
    let mut order: Vec<usize> = (0..n).collect();
    order.sort_by(|&a, &b| key[a].partial_cmp(&key[b]).unwrap_or(std::cmp::Ordering::Equal));
    let q = (n / 4).max(1);
    match shape {
        0 | 1 | 2 => {
            // one element heavier than half of the total: among the lowest / the highest coordinates / anywhere
            let k = match shape {
                0 => order[rng.usize(q)],
                1 => order[n - 1 - rng.usize(q)],
                _ => rng.usize(n),
            };
            let span = (total - total / 2 - 1).max(0);
            let extra = if rng.chance(1, 2) { rng.range(0, span / 4) } else { rng.range(0, span) };
            let h = if n == 1 { total } else { (total / 2 + 1 + extra).min(total) };
            let raw: Vec<i64> = (0..n).map(|i| if i == k { 0 } else if rng.chance(1, 4) { 0 } else { rng.range(1, 100) }).collect();
            let mut w = if n == 1 { vec![0] } else { scale_to(&raw, total - h) };
            // `scale_to` may have put a remainder on index 0 when every raw share is 0: move it
            if raw.iter().all(|&r| r == 0) && n > 1 {
                w = vec![0; n];
                w[(k + 1) % n] = total - h;
            }
            w[k] += h;
            w
        }
        3 => {
            // many equal elements (when n exceeds the total: `total` ones among zeros)
            let mut w = vec![total / n as i64; n];
            let mut idx: Vec<usize> = (0..n).collect();
            rng.shuffle(&mut idx);
            for &i in idx.iter().take((total % n as i64) as usize) {
                w[i] += 1;
            }
            w
        }
        4 => {
            let sparse = rng.chance(1, 4);
            let raw: Vec<i64> = (0..n).map(|_| if sparse && rng.chance(3, 4) { 0 } else { rng.range(0, 1000) }).collect();
            scale_to(&raw, total)
        }
        5 => {
            let lo = key.iter().copied().fold(f64::INFINITY, f64::min);
            let hi = key.iter().copied().fold(f64::NEG_INFINITY, f64::max);
            let rev = rng.chance(1, 3);
            let raw: Vec<i64> = key
                .iter()
                .map(|&x| {
                    let mut t = if hi > lo { (x - lo) / (hi - lo) } else { 0.5 };
                    if !rev {
                        t = 1.0 - t;
                    }
                    (1.0 + 999.0 * t * t) as i64
                })
                .collect();
            scale_to(&raw, total)
        }
        _ => {
            // two heavy elements next to each other at the low end, together 60..90 % of the total
            let mut raw: Vec<i64> = (0..n).map(|_| rng.range(0, 20)).collect();
            let rest: i64 = raw.iter().sum::<i64>().max(1);
            let share = rng.range(15, 45);
            raw[order[0]] = rest * share / 10;
            raw[order[1.min(n - 1)]] = rest * rng.range(15, 45) / 10;
            scale_to(&raw, total)
        }
    }
}

/// A total for a type whose largest value is `max`: mostly in the upper half of the range.
fn narrow_total(rng: &mut Rng, max: i64) -> i64 {
    let half = max / 2;
    match rng.usize(20) {
        0..=4 => max,
        5..=7 => max - rng.range(1, 3),
        8..=16 => half + 1 + rng.range(0, max - half - 1),
        17 => half + 1,
        18 => half,
        _ => rng.range(1, half),
    }
}

#[allow(clippy::too_many_arguments)]
fn narrow_case(ctx: &mut Ctx, ty: usize, n: usize, d: usize, layout: usize, wshape: usize, total: i64, iter: usize, tol: f64, threads: usize, want_rib: bool) {
    let (var, max) = WT_TYPES[ty];
    let xs = narrow_points(&mut ctx.rng, n, d, layout);
    let key: Vec<f64> = xs.chunks_exact(d).map(|p| p[0]).collect();
    let ws = narrow_weights(&mut ctx.rng, n, total, wshape, &key);
    if ws.iter().sum::<i64>() != total || ws.iter().any(|&w| w < 0 || w > max) {
        // generator bug: never hand such a case on as if it were inside the contract
        ctx.count("narrow_generator_inconsistent");
        return;
    }
    ctx.count(&format!("narrow_type_{}", &var[3..]));
    ctx.count(&format!("narrow_wshape_{}", NARROW_WSHAPES[wshape]));
    ctx.count(&format!("narrow_layout_{}", narrow_layout_name(layout)));
    let mut rot: Option<Vec<f64>> = None;
    if want_rib {
        match frame(d, &xs) {
            Caught::Ok(Some(f)) if f.len() == xs.len() && f.iter().all(|x| x.is_finite() && x.abs() <= 1e7) => {
                if f.iter().any(|x| *x == 0.0 && x.is_sign_negative()) {
                    ctx.count("rib_skipped_negative_zero");
                } else {
                    rot = Some(f);
                }
            }
            _ => ctx.count("narrow_rib_skipped_no_usable_frame"),
        }
    }
    let op = match &rot {
        Some(r) => format_ribvar_op(d, iter, tol, threads, var, &ws, &xs, r),
        None => format_var_op(d, iter, tol, threads, var, &ws, &xs),
    };
    run_op(ctx, &op);
}

/// NARROW INTEGER WEIGHT TYPES with totals in the upper half of the type's range: `rcbvar` / `ribvar`
/// ops with the variants `wt_i8 … wt_u32`. The i64 run of the same data is judged node by node as
/// usual; the run with the narrow type must return (no panic: every partial sum of the search is at
/// most the total, which fits) and give the same ids.
fn gen_narrow(ctx: &mut Ctx) {
    ctx.notes.push(
        "narrow-weight-type stream (`rcbvar`/`ribvar … wt_<type>`): weights as i8/u8/i16/u16/i32/u32 whose total is \
         mostly in the upper half of the type's range (the type's largest value itself in a quarter of the cases); \
         contract: every weight >= 0 and the total fit the type (otherwise counted `…_not_applicable`, not judged); \
         the counters `narrow:root_search_goes_on_with_left|right_above_half_range` say how often a search step that is \
         not the last one has more than half of the type's range on one side (where doubling a side weight, or \
         adding the two sides in the wrong order, leaves the range although the total fits); signatures \
         weight-type-panic@rcb|rib, weight-type-dependent@rcb|rib; i64/u64 totals beyond 2^62 are not generated \
         (the oracle's own arithmetic is i64)"
            .into(),
    );
    // systematic: every type x weight shape x (line, skew_low, skew_high) x (total = largest value, total just above half)
    let mut k = 0usize;
    for ty in 0..WT_TYPES.len() {
        let max = WT_TYPES[ty].1;
        for wshape in 0..NARROW_WSHAPES.len() {
            for layout in POINT_SHAPES.len()..NARROW_LAYOUTS {
                for t in 0..2 {
                    let total = if t == 0 { max } else { max / 2 + 1 + ctx.rng.range(0, max / 4) };
                    let tol = [0.0, 0.05][k % 2];
                    ctx.count("narrow_systematic");
                    narrow_case(ctx, ty, 8 + k % 5, 2 + (k / 4) % 2, layout, wshape, total, 1 + (k / 2) % 2, tol, 1, false);
                    k += 1;
                }
            }
        }
    }
    // random
    for k in 0..ctx.budget(300, 15000) {
        let ty = k % WT_TYPES.len();
        let max = WT_TYPES[ty].1;
        let n = match ctx.rng.usize(10) {
            0..=2 => 2 + ctx.rng.usize(10),
            3..=6 => 12 + ctx.rng.usize(60),
            _ => 72 + ctx.rng.usize(400),
        };
        let d = 2 + ctx.rng.usize(2);
        let layout = ctx.rng.usize(NARROW_LAYOUTS);
        let wshape = ctx.rng.usize(NARROW_WSHAPES.len());
        let total = narrow_total(&mut ctx.rng, max);
        let iter = 1 + ctx.rng.usize(6);
        let tol = gen_tol(&mut ctx.rng);
        let threads = *ctx.rng.pick(&[1usize, 2, 4, 16]);
        let want_rib = ctx.rng.chance(1, 5);
        ctx.count("narrow_random");
        narrow_case(ctx, ty, n, d, layout, wshape, total, iter, tol, threads, want_rib);
    }
    // large n: rayon splits the fold, the reduce adds two real partial weights in the narrow type
    for k in 0..ctx.budget(2, 16) {
        let ty = 2 + k % 4; // i16, u16, i32, u32
        let (var, max) = WT_TYPES[ty];
        let d = 2 + (k % 2);
        let mut n = 8193 + ctx.rng.usize(6000);
        while n % 4096 == 0 {
            n += 1;
        }
        let xs = gen_large_points(&mut ctx.rng, n, d, 0);
        let key: Vec<f64> = xs.chunks_exact(d).map(|p| p[0]).collect();
        let total = if k % 2 == 0 { max } else { narrow_total(&mut ctx.rng, max) };
        let ws = narrow_weights(&mut ctx.rng, n, total, [3usize, 4, 5, 0][(k / 2) % 4], &key);
        if ws.iter().sum::<i64>() != total || ws.iter().any(|&w| w < 0 || w > max) {
            ctx.count("narrow_generator_inconsistent");
            continue;
        }
        ctx.count("narrow_large_n");
        run_op(ctx, &format_var_op(d, 1 + k % 3, [0.0, 0.05, 0.01][k % 3], [4usize, 1, 16, 3][k % 4], var, &ws, &xs));
    }
}

/// SPECIAL VALUES / PLUMBING / CONTEXT for the balance property: the weights decide the cut, so the
/// weight types and zero signs matter most here. `rcbvar` ops: the plain call is judged node by node
/// as usual and the variant must return the same ids.
fn gen_special(ctx: &mut Ctx) {
    let small = |r: &mut Rng| match r.usize(3) {
        0 => 2 + r.usize(10),
        1 => 12 + r.usize(60),
        _ => 72 + r.usize(400),
    };
    // -0.0 weights (f64), an odd and an even number of them, on weights with zeros
    for k in 0..ctx.budget(12, 500) {
        let d = 2 + (k % 2);
        let n = small(&mut ctx.rng);
        let iter = 1 + ctx.rng.usize(4);
        let tol = gen_tol(&mut ctx.rng);
        let shape = ctx.rng.usize(POINT_SHAPES.len());
        let xs = gen_points(&mut ctx.rng, n, d, shape);
        let key: Vec<f64> = xs.chunks_exact(d).map(|p| p[0]).collect();
        let mut ws = gen_weights(&mut ctx.rng, n, [4usize, 1, 3][k % 3], &key);
        for _ in 0..3 {
            let i = ctx.rng.usize(n);
            ws[i] = 0;
        }
        let var = if k % 2 == 0 { "w_f64_negzero_odd" } else { "w_f64_negzero_even" };
        run_op(ctx, &format_var_op(d, iter, tol, 4, var, &ws, &xs));
    }
    // -0.0 coordinates next to negative and positive ones
    for k in 0..ctx.budget(10, 400) {
        let d = 2 + (k % 2);
        let n = small(&mut ctx.rng);
        let iter = 1 + ctx.rng.usize(4);
        let tol = gen_tol(&mut ctx.rng);
        let span = 1 + ctx.rng.usize(3) as i64;
        let mut xs: Vec<f64> = (0..n * d).map(|_| ctx.rng.range(-span, span) as f64).collect();
        let zeros: Vec<usize> = (0..xs.len()).filter(|&i| xs[i] == 0.0).collect();
        let take = if zeros.is_empty() { 0 } else { 1 + ctx.rng.usize(zeros.len()) };
        let take = if k % 2 == 0 { take | 1 } else { take & !1 };
        for &i in zeros.iter().take(take) {
            xs[i] = -0.0;
        }
        let wshape = ctx.rng.usize(WEIGHT_SHAPES.len());
        let key: Vec<f64> = xs.chunks_exact(d).map(|p| p[0]).collect();
        let ws = gen_weights(&mut ctx.rng, n, wshape, &key);
        ctx.count(if k % 2 == 0 { "special:negzero_coord_odd" } else { "special:negzero_coord_even" });
        run_op(ctx, &format_var_op(d, iter, tol, 1, "coord_poszero", &ws, &xs));
    }
    // f64 coordinates that collide after `as f32`; the legal end of the f32 range (beyond it the
    // conversion gives infinities: outside the contract, not generated)
    for k in 0..ctx.budget(12, 500) {
        let d = 2 + (k % 2);
        let n = small(&mut ctx.rng);
        let iter = 1 + ctx.rng.usize(4);
        let tol = gen_tol(&mut ctx.rng);
        let xs: Vec<f64> = if k % 2 == 0 {
            let m = 2 + ctx.rng.usize(5);
            let vals: Vec<f32> = (0..m).map(|_| uniform(&mut ctx.rng, -10.0, 10.0) as f32).collect();
            (0..n * d).map(|_| *ctx.rng.pick(&vals) as f64 * (1.0 + uniform(&mut ctx.rng, -1.0, 1.0) * 1e-9)).collect()
        } else {
            // up to the end of the finite f32 range (the target `min / 2.0 + max / 2.0` cannot overflow)
            let scale = *ctx.rng.pick(&[1e30f64, 1e37, 1.6e38, 3.3e38]);
            (0..n * d).map(|_| uniform(&mut ctx.rng, -1.0, 1.0) * scale).collect()
        };
        let xs: Vec<f64> = xs.iter().map(|v| if *v == 0.0 { 0.0 } else { *v }).collect();
        let wshape = ctx.rng.usize(WEIGHT_SHAPES.len());
        let key: Vec<f64> = xs.chunks_exact(d).map(|p| p[0]).collect();
        let ws = gen_weights(&mut ctx.rng, n, wshape, &key);
        ctx.count(if k % 2 == 0 { "special:f32_collision" } else { "special:f32_extreme_magnitude" });
        let threads = *ctx.rng.pick(&[1usize, 4, 16]);
        run_op(ctx, &format_tree_op(false, d, iter, tol, threads, &ws, &xs, &[]));
    }
    // weight types and iterator adaptors; calling contexts (8..32 calls at once on pools of 4 and 16)
    let vars = [
        "w_f64", "w_f32", "w_i32", "w_u32", "w_u64", "w_par_cloned", "w_into_par_map", "w_min_len", "w_max_len",
        "pts_par_cloned", "pts_max_len", "both_par_max_len", "ctx_global", "ctx_in_task", "ctx_concurrent", "ctx_concurrent",
    ];
    for rep in 0..ctx.budget(1, 40) {
        for (k, var) in vars.iter().enumerate() {
            let d = 2 + ((k + rep) % 2);
            let n = small(&mut ctx.rng);
            let iter = 1 + ctx.rng.usize(4);
            let tol = gen_tol(&mut ctx.rng);
            let threads = if k == 14 { 4 } else if k == 15 { 16 } else { *ctx.rng.pick(&[1usize, 2, 4, 16]) };
            let shape = ctx.rng.usize(POINT_SHAPES.len());
            let xs = gen_points(&mut ctx.rng, n, d, shape);
            let ws: Vec<i64> = match ctx.rng.usize(3) {
                0 => vec![1; n],
                1 => (0..n).map(|_| ctx.rng.range(0, 100)).collect(),
                _ => (0..n).map(|_| if ctx.rng.chance(1, 5) { ctx.rng.range(1, 100) } else { 0 }).collect(),
            };
            run_op(ctx, &format_var_op(d, iter, tol, threads, var, &ws, &xs));
        }
    }
    for k in 0..ctx.budget(2, 8) {
        // large inputs: f64 weights / concurrent calls where rayon splits the passes and the fold
        let d = 2 + (k % 2);
        let mut n = 8193 + ctx.rng.usize(8000);
        while n % 4096 == 0 {
            n += 1;
        }
        let xs = gen_large_points(&mut ctx.rng, n, d, 0);
        let ws: Vec<i64> = (0..n).map(|_| ctx.rng.range(0, 100)).collect();
        ctx.count("special:large_n_variant");
        let var = ["w_f64", "ctx_concurrent", "w_max_len", "w_u32"][k % 4];
        run_op(ctx, &format_var_op(d, 1 + k % 3, 0.05, [4usize, 16, 2, 3][k % 4], var, &ws, &xs));
    }
}

const LARGE_SHAPES: [&str; 3] = ["uniform_distinct", "grid_duplicates", "clustered"];

/// Points for the large-n stream: well-spread distinct coordinates (equal rounded distances between
/// distinct coordinates are rare, so the API run and the hook replay agree), a coarse lattice drawn
/// with repetition (many duplicate points and coordinates), a few dense but f32-distinct clusters.
fn gen_large_points(rng: &mut Rng, n: usize, d: usize, shape: usize) -> Vec<f64> {
    let mut xs = vec![0.0f64; n * d];
    match shape {
        0 => {
            for x in xs.iter_mut() {
                *x = uniform(rng, -10.0, 10.0);
            }
        }
        1 => {
            let side = 20 + rng.usize(80);
            let step = *rng.pick(&[1.0f64, 0.5, 0.1]);
            let off = rng.range(-4, 4) as f64;
            for x in xs.iter_mut() {
                *x = rng.usize(side) as f64 * step + off;
            }
        }
        _ => {
            let m = 3 + rng.usize(4);
            let centres: Vec<f64> = (0..m * d).map(|_| uniform(rng, -10.0, 10.0)).collect();
            for q in xs.chunks_exact_mut(d) {
                let c = rng.usize(m);
                for a in 0..d {
                    q[a] = centres[c * d + a] + uniform(rng, -0.5, 0.5);
                }
            }
        }
    }
    for x in xs.iter_mut() {
        *x = clean(*x);
    }
    xs
}

/// n in 8192..=20000: `with_min_len(4096)` lets rayon split the fold of `par_rcb_split` (a producer
/// of at least 2 x 4096 items is split at least once, even in a 1-thread pool), so the reduce
/// closure really combines partial results – at least at the root and the first levels.
fn gen_large(ctx: &mut Ctx) {
    const POOLS: [usize; 3] = [1, 4, 16];
    for k in 0..ctx.budget(6, 60) {
        let d = 2 + (k % 2);
        let iter = 1 + ctx.rng.usize(4);
        let tol = gen_tol(&mut ctx.rng);
        let threads = POOLS[k % 3];
        let n = 8192 + ctx.rng.usize(20000 - 8192 + 1);
        let shape = (k / 2) % 3;
        let xs = gen_large_points(&mut ctx.rng, n, d, shape);
        let ws: Vec<i64> = if ctx.rng.chance(1, 2) { vec![1; n] } else { (0..n).map(|_| ctx.rng.range(0, 100)).collect() };
        ctx.count("large_n_rcb");
        ctx.count(&format!("large_n_shape_{}", LARGE_SHAPES[shape]));
        ctx.count(&format!("large_n_threads_{}", threads));
        let op = format_tree_op(false, d, iter, tol, threads, &ws, &xs, &[]);
        run_op(ctx, &op);
    }
    // other pool sizes, larger inputs, n neither a multiple of the pool size nor of 4096: passes that run
    // once per call over all n items (the sum of the weights, the conversion of the coordinates, the
    // bounding box) and large nodes relative to the pool
    const MORE: [(usize, usize, usize, usize); 12] = [
        (2, 1, 16385, 24000),
        (3, 2, 16385, 24000),
        (5, 1, 20481, 24000),
        (1, 1, 16385, 70001),
        (16, 1, 70001, 70001),
        (16, 2, 140003, 140003),
        (2, 2, 32769, 70001),
        (3, 1, 24577, 70001),
        (5, 2, 40961, 70001),
        (4, 1, 32769, 140003),
        (1, 2, 16385, 140003),
        (2, 1, 16385, 140003),
    ];
    let more: &[(usize, usize, usize, usize)] = if ctx.quick() { &MORE[..3] } else { &MORE[..] };
    for rep in 0..ctx.budget(1, 2) {
        for (k, &(threads, iter, lo, hi)) in more.iter().enumerate() {
            let mut n = lo + ctx.rng.usize(hi - lo + 1);
            while n % threads.max(2) == 0 || n % 4096 == 0 {
                n += 1;
            }
            let d = if n > 80000 { 2 } else { 2 + ((k + rep) % 2) };
            let shape = (k + rep) % 3;
            let tol = gen_tol(&mut ctx.rng);
            let xs = gen_large_points(&mut ctx.rng, n, d, shape);
            let ws: Vec<i64> = if ctx.rng.chance(1, 2) { vec![1; n] } else { (0..n).map(|_| ctx.rng.range(0, 100)).collect() };
            ctx.count("large_n_rcb_more_pools");
            ctx.count(&format!("large_n_threads_{}", threads));
            let op = format_tree_op(false, d, iter, tol, threads, &ws, &xs, &[]);
            run_op(ctx, &op);
        }
    }
    // one search through the hook (global pool: as many workers as cores), exact data interval
    for k in 0..ctx.budget(2, 20) {
        let d = 2 + (k % 2);
        let n = 8192 + ctx.rng.usize(20000 - 8192 + 1);
        let shape = k % 3;
        let xs: Vec<f32> = gen_large_points(&mut ctx.rng, n, d, shape).iter().map(|v| *v as f32).collect();
        let ws: Vec<i64> = if ctx.rng.chance(1, 2) { vec![1; n] } else { (0..n).map(|_| ctx.rng.range(0, 100)).collect() };
        let coord = ctx.rng.usize(d);
        let tol = gen_tol(&mut ctx.rng);
        let col = xs.chunks_exact(d).map(|p| p[coord]);
        let dmin = col.clone().fold(f32::INFINITY, f32::min);
        let dmax = col.fold(f32::NEG_INFINITY, f32::max);
        ctx.count("large_n_split");
        let op = format_split_op(d, coord, tol, dmin, dmax, &ws, &xs);
        run_op(ctx, &op);
    }
}

/// D = 2, y = 0, iter = 1, tol = 0: all x-vectors over {0,1,2,3,8}.
fn gen_exhaustive(ctx: &mut Ctx) {
    const ALPHA: [f64; 5] = [0.0, 1.0, 2.0, 3.0, 8.0];
    const WALPHA: [i64; 3] = [0, 1, 3];
    let maxlen = ctx.budget(4, 5);
    // every weight vector over {0,1,3} up to this length, two random ones per x-vector above
    let full_w = ctx.budget(3, 4);
    for len in 1..=maxlen {
        let mut xi = vec![0usize; len];
        loop {
            let mut pts = Vec::with_capacity(2 * len);
            for &k in &xi {
                pts.push(ALPHA[k]);
                pts.push(0.0);
            }
            let op = format_tree_op(false, 2, 1, 0.0, 1, &vec![1; len], &pts, &[]);
            ctx.count("exhaustive_unit");
            run_op(ctx, &op);
            if len <= full_w {
                let mut wi = vec![0usize; len];
                loop {
                    let ws: Vec<i64> = wi.iter().map(|&k| WALPHA[k]).collect();
                    let op = format_tree_op(false, 2, 1, 0.0, 1, &ws, &pts, &[]);
                    ctx.count("exhaustive_w013");
                    run_op(ctx, &op);
                    if !next_vec(&mut wi, WALPHA.len()) {
                        break;
                    }
                }
            } else {
                for _ in 0..2 {
                    let ws: Vec<i64> = (0..len).map(|_| *ctx.rng.pick(&WALPHA)).collect();
                    let op = format_tree_op(false, 2, 1, 0.0, 1, &ws, &pts, &[]);
                    ctx.count("exhaustive_w013_sampled");
                    run_op(ctx, &op);
                }
            }
            if !next_vec(&mut xi, ALPHA.len()) {
                break;
            }
        }
    }
    ctx.notes.push(format!(
        "exhaustive sub-space: rcb, D = 2, y = 0, iter = 1, tol = 0, every x-vector over {{0,1,2,3,8}} of length \
         1..={} with unit weights; with every weight vector over {{0,1,3}} up to length {} and two sampled \
         weight vectors per x-vector above",
        maxlen, full_w
    ));
}

/// odometer over `base^len`; false after the last vector
fn next_vec(v: &mut [usize], base: usize) -> bool {
    for x in v.iter_mut() {
        if *x + 1 < base {
            *x += 1;
            return true;
        }
        *x = 0;
    }
    false
}

fn gen_trees(ctx: &mut Ctx) {
    let cases = ctx.budget(500, 40000);
    let quick = ctx.quick();
    for _ in 0..cases {
        let d = 2 + ctx.rng.usize(2);
        let n = gen_n(&mut ctx.rng, quick);
        let iter = 1 + ctx.rng.usize(6);
        let tol = gen_tol(&mut ctx.rng);
        let threads = *ctx.rng.pick(&[1usize, 4, 16]);
        let shape = ctx.rng.usize(POINT_SHAPES.len());
        let wshape = ctx.rng.usize(WEIGHT_SHAPES.len());
        let pts = gen_points(&mut ctx.rng, n, d, shape);
        let key: Vec<f64> = pts.chunks_exact(d).map(|p| p[0]).collect();
        let ws = gen_weights(&mut ctx.rng, n, wshape, &key);
        let want_rib = ctx.rng.chance(1, 5);
        ctx.count(&format!("shape_{}", POINT_SHAPES[shape]));
        ctx.count(&format!("wshape_{}", WEIGHT_SHAPES[wshape]));
        ctx.count(match n {
            0..=12 => "n_1_12",
            13..=200 => "n_13_200",
            201..=1000 => "n_201_1000",
            _ => "n_1001_3000",
        });
        let mut rot: Option<Vec<f64>> = None;
        if want_rib {
            // degenerate inputs (one point, all identical, …) have no usable frame: not Rib cases
            match frame(d, &pts) {
                Caught::Ok(Some(f)) if f.len() == pts.len() && f.iter().all(|x| x.is_finite() && x.abs() <= 1e7) => {
                    if f.iter().any(|x| *x == 0.0 && x.is_sign_negative()) {
                        ctx.count("rib_skipped_negative_zero");
                    } else {
                        rot = Some(f);
                    }
                }
                Caught::Ok(Some(_)) => ctx.count("rib_skipped_nonfinite_frame"),
                Caught::Ok(None) => ctx.count("rib_skipped_no_frame"),
                Caught::Panic(_) => ctx.count("rib_skipped_frame_panic"),
                Caught::Hang => ctx.count("rib_skipped_frame_panic"),
            }
        }
        let op = match &rot {
            Some(r) => format_tree_op(true, d, iter, tol, threads, &ws, &pts, r),
            None => format_tree_op(false, d, iter, tol, threads, &ws, &pts, &[]),
        };
        run_op(ctx, &op);
    }
}

fn gen_splits(ctx: &mut Ctx) {
    let cases = ctx.budget(300, 20000);
    for _ in 0..cases {
        let d = 2 + ctx.rng.usize(2);
        let coord = ctx.rng.usize(d);
        let n = match ctx.rng.usize(10) {
            0 => ctx.rng.usize(3),
            1..=5 => 1 + ctx.rng.usize(12),
            6..=8 => 13 + ctx.rng.usize(88),
            _ => 101 + ctx.rng.usize(200),
        };
        let tol = gen_tol(&mut ctx.rng);
        let shape = ctx.rng.usize(POINT_SHAPES.len());
        let wshape = ctx.rng.usize(WEIGHT_SHAPES.len());
        let pts = gen_points(&mut ctx.rng, n, d, shape);
        let xs: Vec<f32> = pts.iter().map(|&x| {
            let v = x as f32;
            if v == 0.0 { 0.0 } else { v }
        }).collect();
        let key: Vec<f64> = xs.chunks_exact(d).map(|p| p[coord] as f64).collect();
        let ws = gen_weights(&mut ctx.rng, n, wshape, &key);
        ctx.count(&format!("split_shape_{}", POINT_SHAPES[shape]));
        ctx.count(&format!("split_wshape_{}", WEIGHT_SHAPES[wshape]));
        let (lo, hi) = if n == 0 {
            (0.0f32, 1.0f32)
        } else {
            (
                key.iter().copied().fold(f64::INFINITY, f64::min) as f32,
                key.iter().copied().fold(f64::NEG_INFINITY, f64::max) as f32,
            )
        };
        let range = if hi > lo { hi - lo } else { 1.0 };
        let r = ctx.rng.usize(10);
        let (min, max) = if r < 6 {
            ctx.count("split_box_exact");
            (lo, hi)
        } else if r < 9 {
            ctx.count("split_box_loose");
            let a = range * uniform(&mut ctx.rng, 0.0, 1.0) as f32;
            let b = range * uniform(&mut ctx.rng, 0.0, 4.0) as f32;
            (lo - a, hi + b)
        } else {
            ctx.count("split_box_not_containing");
            match ctx.rng.usize(3) {
                0 => (lo + range * 0.25, hi - range * 0.25),
                1 => (lo + range * uniform(&mut ctx.rng, 0.0, 0.9) as f32, hi + range),
                _ => (lo - range, hi - range * uniform(&mut ctx.rng, 0.1, 0.9) as f32),
            }
        };
        let fix = |v: f32| if v == 0.0 || !v.is_finite() { 0.0 } else { v };
        let op = format_split_op(d, coord, tol, fix(min), fix(max), &ws, &xs);
        run_op(ctx, &op);
    }
}
